#!/usr/bin/env python3
"""Regenerates /verif/MANIFEST.json from the table below (single source of truth)."""
import json, os

VERIF = os.path.dirname(os.path.abspath(__file__))
ALL = [f"C{i:02d}" for i in range(1, 21)]

# id -> dict(category, text, note, technique, design_ref, engine)
CLAIMS = {}

def claim(pid, category, technique, text, note, engine, design_ref=None, thorough=True):
    CLAIMS[pid] = dict(category=category, technique=technique, text=text, note=note, engine=engine,
                       design_ref=design_ref or f"DESIGN.md §3 {pid}", thorough=thorough)

exec(open(os.path.join(VERIF, "claims.py")).read())

NOT_YET = "engine not built yet in this round (planned: bounded exhaustive exploration, see DESIGN.md §3)"

def main():
    checks = []
    for pid in ALL:
        if pid not in CLAIMS:
            continue
        c = CLAIMS[pid]
        d = {
            "property_id": pid,
            "quick_cmd": f"./check {pid} quick",
            "evidence_file": f"/verif/evidence/{pid}.json",
            "replay_cmd_template": f"./check {pid} --replay {{path}}",
            "engine": c["engine"],
            "level_claimed": {"category": c["category"], "text": c["text"], "design_ref": c["design_ref"]},
            "level_note": c["note"],
            "technique": c["technique"],
        }
        if c["thorough"]:
            d["thorough_cmd"] = f"./check {pid} thorough"
        checks.append(d)
    engines = {}
    for pid, c in CLAIMS.items():
        engines.setdefault(c["engine"], []).append(pid)
    m = {
        "version": 1,
        "setup_cmd": "./check --build-all",
        "hooks": {
            "guard": "retrofire_verif",
            "enable": "no hooks are needed: every property is observable through public API; checks build /repo/core and /repo/geom by path dependency from the current working tree (cargo --offline, profile with debug-assertions and overflow-checks on)",
            "baseline_off_cmd": "cd /repo && cargo test --workspace --no-fail-fast --offline",
            "source_commits": [],
            "add_only": True,
        },
        "engines": [
            {"name": e, "path": {"fpcfg": "/verif/harness/fpcfg/src/main.rs", "corpus": "/verif/corpus"}.get(e.split()[0], f"/verif/harness/vh/src/bin/{e.split()[0]}.rs"),
             "serves_properties": sorted(ps), "kind_free_text": "bounded exhaustive exploration of the real code against an independent reference model"}
            for e, ps in sorted(engines.items())
        ],
        "checks": checks,
        "notes": "All checks are driven by /verif/check (python3) which rebuilds the engines against /repo's working tree, runs them, merges evidence parts, and judges violations against /verif/known_findings.json (known -> KNOWN-FINDING line + exit 0; fixed entries suppress nothing).",
        "not_applicable": [{"property_id": p, "reason": NA.get(p, NOT_YET)} for p in ALL if p not in CLAIMS],
    }
    json.dump(m, open(os.path.join(VERIF, "MANIFEST.json"), "w"), indent=1)
    print("MANIFEST.json:", len(checks), "checks,", len(m["not_applicable"]), "not_applicable")

if __name__ == "__main__":
    main()
