# exec'd by manifest_gen.py
NA = {}

claim("C11", "model_checking",
      "explicit-state BFS over the real Buf2/Slice2/MutSlice2 API against a Vec model",
      "Explicit-state search: states are (root buffer or directly constructed view, canonical contents); in every state all view recipes (0-2 nested slice/slice_mut over every sub-rectangle incl. one-past-bounds, every range spelling, Slice2::new/MutSlice2::new roots with strides and surplus data) x all read operations are compared with a plain array model, and every transition (recipe x write operation) is executed on the real types and followed by a comparison of the whole backing store. Exhaustive for all dims <= 4x4 (quick 3x3), depth 2.",
      "Views carry no hidden state beyond (dims, stride, borrowed data), so successors are rebuilt from canonical contents; zero-area construction panics are tolerated (carve-out); bounded dims/depth.",
      "buf")
