#!/usr/bin/env python3
"""kf_add.py <prop> <commit-subject-prefix> <pattern> <what> <example>  -- append a 'fixed' entry to known_findings.json"""
import json,subprocess,sys
prop,prefix,pattern,what,example=sys.argv[1:6]
log=subprocess.run(['git','-C','/repo','log','--format=%h %s'],capture_output=True,text=True).stdout.strip().split('\n')
c=[l.split()[0] for l in log if l.split(' ',1)[1].startswith(prefix)]
assert c, 'no commit '+prefix
d=json.load(open('/verif/known_findings.json'))
d['findings'].append({"property":prop,"status":"fixed","commit":c[0],"pattern":pattern,"what":what,"example":example,"line":f"fixed: property={prop} {c[0]} {what}"})
json.dump(d,open('/verif/known_findings.json','w'),indent=1)
print('added',prop,c[0])
