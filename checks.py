# Registrations: property id -> level, engine parts.  (exec'd by ./check)
reg("C11", "model_checking", [P("buf", "explore"),
    # the same exploration without overflow checks or debug assertions: size computations that only a checked build stops
    P("buf", "explore", profile="verif-rel", name="explore-rel")])
reg("C13", "exploration", [P("codec", "pnm"), P("codec", "pnm", profile="verif-rel", tiers=("thorough",), name="pnm-rel")])
reg("C14", "exploration", [P("codec", "obj"), P("codec", "obj", profile="verif-rel", name="obj-rel"),
    # long runs of skipped lines in a build like the repository's dev profile (the optimiser may turn recursion into a loop)
    P("codec", "objlong", profile="verif-dev", name="objlong-dev")])
reg("C16", "exploration", [P("color", "all"), P("color", "all", profile="verif-rel", tiers=("thorough",), name="all-rel"),
    # the float conversions again in the three non-std float configurations (their rem_euclid/floor/abs differ)
    P("fpcfg", "color", package="fpcfg", features="cfg_none", name="color-cfg-none"),
    P("fpcfg", "color", package="fpcfg", features="cfg_libm", name="color-cfg-libm"),
    P("fpcfg", "color", package="fpcfg", features="cfg_mm", name="color-cfg-mm")])
reg("C19", "exploration", [P("prng", "all"),
    # the normalising distributions again in the float configurations whose reciprocal square root is not std's
    P("fpcfg", "prng", package="fpcfg", features="cfg_libm", name="prng-cfg-libm"),
    P("fpcfg", "prng", package="fpcfg", features="cfg_mm", name="prng-cfg-mm")])
reg("C20", "exploration", [
    P("fpcfg", "all", package="fpcfg", features="cfg_none", name="cfg-none"),
    P("fpcfg", "all", package="fpcfg", features="cfg_libm", name="cfg-libm"),
    P("fpcfg", "all", package="fpcfg", features="cfg_mm", name="cfg-mm"),
    P("fpcfg", "all", package="fpcfg", features="cfg_std", name="cfg-std"),
    # the micromath and fallback configurations again without debug assertions (a guard compiled only into debug builds, or an
    # overflow that wraps instead of panicking, shows up here only)
    P("fpcfg", "all", package="fpcfg", features="cfg_mm", profile="verif-rel", name="cfg-mm-rel"),
    P("fpcfg", "all", package="fpcfg", features="cfg_none", profile="verif-rel", name="cfg-none-rel"),
])
reg("C12", "exploration", [P("tex", "all"),
    # the repeating sampler again in the float configurations whose floor / rem_euclid are not std's
    P("fpcfg", "tex", package="fpcfg", features="cfg_none", name="tex-cfg-none"),
    P("fpcfg", "tex", package="fpcfg", features="cfg_libm", name="tex-cfg-libm"),
    P("fpcfg", "tex", package="fpcfg", features="cfg_mm", name="tex-cfg-mm")])
reg("C15", "exploration", [P("solids", "all")])
reg("C17", "exploration", [P("curve", "spline")])
reg("C18", "exploration", [P("curve", "angle"),
    # Angle::wrap again in the float configurations whose rem_euclid is not std's
    P("fpcfg", "angle", package="fpcfg", features="cfg_libm", name="angle-cfg-libm"),
    P("fpcfg", "angle", package="fpcfg", features="cfg_mm", name="angle-cfg-mm")])
reg("C09", "exploration", [P("xform", "algebra"),
    # rotation constructors again in the float configurations whose sqrt/sin/cos are not std's
    P("fpcfg", "xform", package="fpcfg", features="cfg_libm", name="xform-cfg-libm"),
    P("fpcfg", "xform", package="fpcfg", features="cfg_mm", name="xform-cfg-mm")])
reg("C08", "exploration", [P("xform", "proj")])
reg("C04", "exploration", [P("rast", "cover"),
    # coverage again in the float configurations whose floor / approx_eq epsilon differ from std's
    P("fpcfg", "cover", package="fpcfg", features="cfg_none", name="cover-cfg-none"),
    P("fpcfg", "cover", package="fpcfg", features="cfg_mm", name="cover-cfg-mm"),
    P("fpcfg", "cover", package="fpcfg", features="cfg_libm", name="cover-cfg-libm")])
reg("C05", "exploration", [P("rast", "interp")])
reg("C03", "exploration", [P("clip", "all")])
reg("C01", "exploration", [P("pipe", "image")])
reg("C02", "exploration", [P("pipe", "safety"), P("pipe", "safety", profile="verif-rel", tiers=("thorough",), name="safety-rel")])
reg("C06", "model_checking", [P("pipe", "order")])
reg("C07", "exploration", [P("pipe", "config")])
reg("C10", "exploration", [])  # driven by special.py (corpus of generated programs, rustc as the implementation)
