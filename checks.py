# Registrations: property id -> level, engine parts.  (exec'd by ./check)
reg("C11", "model_checking", [P("buf", "explore")])
