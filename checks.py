# Registrations: property id -> level, engine parts.  (exec'd by ./check)
reg("C11", "model_checking", [P("buf", "explore")])
reg("C13", "exploration", [P("codec", "pnm"), P("codec", "pnm", profile="verif-rel", tiers=("thorough",), name="pnm-rel")])
reg("C14", "exploration", [P("codec", "obj"), P("codec", "obj", profile="verif-rel", name="obj-rel")])
