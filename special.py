# exec'd by ./check: property-specific drivers that are not Rust engines.
import importlib.util, shutil

CORPUS = os.path.join(VERIF, "corpus")
MALFORMED = {"E0425", "E0433", "E0412", "E0432", "E0106", "E0107", "E0061", "E0282", "E0283", "E0284"}


def _load_gen():
    spec = importlib.util.spec_from_file_location("c10gen", os.path.join(CORPUS, "gen.py"))
    m = importlib.util.module_from_spec(spec)
    spec.loader.exec_module(m)
    return m


def _cargo_check(gen, name, progs, prefix, build=False):
    """Write a crate with the given programs and `cargo check` (or, with build=True, `cargo build`: evaluates
    post-monomorphisation compile-time assertions too) it. Returns {index: [(code, message)]}, raw_ok."""
    d = os.path.join(CORPUS, "gen", name)
    os.makedirs(os.path.join(d, "src"), exist_ok=True)
    with open(os.path.join(d, "Cargo.toml"), "w") as f:
        f.write(f'[package]\nname = "{name}"\nversion = "0.0.0"\nedition = "2021"\n\n[dependencies]\n'
                'retrofire-core = { path = "/repo/core", features = ["std"] }\n'
                'retrofire-geom = { path = "/repo/geom", features = ["std"] }\n\n[workspace]\n')
    src, ranges = gen.crate_source(progs, prefix)
    with open(os.path.join(d, "src", "lib.rs"), "w") as f:
        f.write(src)
    env = dict(ENV, CARGO_TARGET_DIR=os.path.join(TARGET, "corpus"))
    r = subprocess.run(["cargo", "build" if build else "check", "--offline", "--message-format=json", "--quiet"], cwd=d, env=env,
                       stdout=subprocess.PIPE, stderr=subprocess.PIPE, text=True)
    errs = {}
    other = []
    for line in r.stdout.splitlines():
        try:
            m = json.loads(line)
        except ValueError:
            continue
        if m.get("reason") != "compiler-message":
            continue
        msg = m["message"]
        if msg.get("level") != "error":
            continue
        code = (msg.get("code") or {}).get("code")
        spans = [s for s in msg.get("spans", []) if s.get("is_primary") and s.get("file_name", "").endswith("lib.rs")]
        if m.get("target", {}).get("name") != name:
            other.append(msg.get("message"))
            continue
        hit = None
        for s in spans:
            for (a, b, i) in ranges:
                if a <= s["line_start"] <= b:
                    hit = i
        if hit is None:
            if code is None and "aborting" in msg.get("message", ""):
                continue
            other.append(f"{code}: {msg.get('message')}")
        else:
            errs.setdefault(hit, []).append((code, msg.get("message", "")[:200]))
    # (when building a single program, an error reported inside the library - a failing compile-time assertion of a
    # generic function instantiated by the program - is that program's rejection, not a machinery problem)
    if other and not errs and r.returncode != 0 and not build:
        die(f"corpus crate {name} failed outside the generated functions: {other[:3]}")
    return errs, other, r.returncode


def check_c10(pid, tier, t0):
    gen = _load_gen()
    progs = gen.programs()
    shutil.rmtree(os.path.join(CORPUS, "gen"), ignore_errors=True)
    good = [p for p in progs if p["good"]]
    bad = [p for p in progs if not p["good"]]
    rdir = os.path.join(VERIF, "replays", pid)
    shutil.rmtree(rdir, ignore_errors=True)
    os.makedirs(rdir, exist_ok=True)
    vlist = []

    def viol(kind, p, detail):
        key = f"{kind}|{p['template']}|{','.join(p['tags'])}"
        fn = os.path.join(rdir, f"corpus-{abs(hash(key)) % (1 << 48):012x}.json")
        json.dump({"property": pid, "sub": "corpus", "key": key, "what": detail, "case": p}, open(fn, "w"), indent=1)
        vlist.append({"key": key, "what": detail, "replay": fn})

    # GOOD twins: must compile
    gerrs, gother, grc = _cargo_check(gen, "corpus_good", good, "good")
    for i, es in sorted(gerrs.items()):
        viol("good-rejected", good[i], f"well-typed program rejected: {es[0][0]} {es[0][1]} :: {good[i]['body'][:300]}")
    # programs whose verdict depends on compile-time assertions evaluated at code generation ([mono] templates) are
    # built (not just checked), each alone, so that the verdict can be attributed
    mono_built = 0
    for i, p in enumerate(good):
        if p["template"].startswith("[mono]") and i not in gerrs:
            errs, other, rc = _cargo_check(gen, "corpus_solo", [p], "solo", build=True)
            mono_built += 1
            if rc != 0:
                gerrs[i] = errs.get(0, [(None, (other or ["build failed"])[0])])
                viol("good-rejected", p, f"well-typed program fails to build: {gerrs[i][0]} :: {p['body'][:300]}")
    # BAD programs: every one must be rejected with an error located inside it. Errors of an early compiler phase
    # (name resolution) can hide later ones, so the programs without an error are re-checked in a smaller crate.
    pending = list(range(len(bad)))
    rejected = {}
    rounds = 0
    while pending and rounds < 4:
        rounds += 1
        subset = [bad[i] for i in pending]
        errs, other, rc = _cargo_check(gen, f"corpus_bad_{rounds}", subset, "bad")
        if rc == 0:
            break  # everything left compiles
        newpending = []
        for k, i in enumerate(pending):
            if k in errs:
                rejected[i] = errs[k]
            else:
                newpending.append(i)
        if len(newpending) == len(pending):
            break
        pending = newpending
    accepted = []
    for i in pending:
        # alone in a crate, to rule out masking
        errs, other, rc = _cargo_check(gen, "corpus_solo", [bad[i]], "solo", build=True)
        if rc == 0:
            accepted.append(i)
            viol("bad-accepted", bad[i], f"ill-typed program compiles: {bad[i]['body'][:400]}")
        else:
            rejected[i] = errs.get(0, [(None, "error outside function")])
    malformed = [(bad[i]["template"], bad[i]["tags"], es[0]) for i, es in rejected.items() if all(c in MALFORMED for c, _ in es)]
    if malformed:
        die(f"corpus programs rejected for reasons unrelated to tags (generator bug): {malformed[:5]}")
    codes = {}
    for es in rejected.values():
        codes[es[0][0]] = codes.get(es[0][0], 0) + 1
    templates = sorted({p["template"] for p in progs})
    out = {
        "property_id": pid, "tier": tier, "seed": int(os.environ.get("VERIF_SEED", "0") or 0), "level": LEVEL[pid],
        "coverage": {
            "evaluations": len(progs),
            "distinct_nontrivial": len(rejected) + (len(good) - len(gerrs)),
            "rule": "every assignment of each template's tag slots over the alphabets {two or three bases, Rgb/LinRgb/Hsl, angle vs number spellings, map kinds}; a reference typing judgment labels each program; GOOD programs are compiled together (cargo check) and must produce no error, BAD programs must each produce an error whose primary span lies inside the program (re-checked in smaller crates and finally BUILT alone when no error is seen, to rule out masking and to evaluate compile-time assertions that only fire at code generation). non-trivial = BAD program rejected with a located error, or GOOD twin accepted.",
            "samples": [{"template": p["template"], "tags": p["tags"], "expected": "compiles" if p["good"] else "rejected", "body": p["body"]} for p in (bad[:3] + good[:2])],
            "exhaustive": True,
            "programs": len(progs), "good_programs": len(good), "bad_programs": len(bad), "templates": len(templates),
            "bad_rejected": len(rejected), "bad_accepted": len(accepted), "good_rejected": len(gerrs),
            "rejection_error_codes": codes, "check_rounds": rounds,
        },
        "assumptions": ["the reference typing judgment in corpus/gen.py encodes the crate's documented tagging discipline", "rustc on the current /repo sources is the implementation under exploration"],
        "wall_s": round(time.time() - t0, 2),
        "violations": len(vlist),
    }
    rc = judge(pid, vlist, out)
    write_evidence(pid, out)
    print(f"CHECK property={pid} tier={tier} programs={len(progs)} good={len(good)} bad={len(bad)} bad_rejected={len(rejected)} "
          f"violations_unlisted={out['violations_unlisted']} wall_s={out['wall_s']}")
    return rc


def replay_c10(path):
    gen = _load_gen()
    j = json.load(open(path))
    p = j["case"]
    errs, other, rc = _cargo_check(gen, "corpus_solo", [p], "solo", build=True)
    holds = (rc == 0) == bool(p["good"])
    print(f"REPLAY property=C10 result={'holds' if holds else 'violates'} program_compiles={rc == 0} expected={'compiles' if p['good'] else 'rejected'}")
    return 0 if holds else 1


SPECIAL["C10"] = check_c10
