#!/usr/bin/env python3
"""C10 corpus generator: a bounded family of minimal programs, one per API entry point x tag assignment.

Each template has tag slots; EVERY assignment of the slots over small alphabets is instantiated, and a
reference typing judgment (written here, independent of rustc) labels it GOOD (must compile) or BAD (must be
rejected). Every BAD program therefore has GOOD siblings that differ only in tags or an explicit conversion.
"""
import itertools

PRELUDE = r'''#![allow(unused, clippy::all)]
use retrofire_core::geom::{vertex, Tri, Vertex, Vertex3};
use retrofire_core::math::angle::{degs, polar, rads, spherical, turns, Angle};
use retrofire_core::math::color::{Color, Color3, Color3f, Hsl, LinRgb, Rgb};
use retrofire_core::math::mat::{rotate_x, rotate_y, rotate_z, scale, translate, viewport, Mat3x3, Mat4x4, RealToProj, RealToReal};
use retrofire_core::math::point::{pt2, pt3, Point2, Point3};
use retrofire_core::math::space::{Affine, Linear, Real};
use retrofire_core::math::vec::{vec2, vec3, ProjVec4, Vec2, Vec3};
use retrofire_core::math::{Lerp, Vary};
use retrofire_core::render::raster::Frag;
use retrofire_core::render::{render, Batch, Camera, Context, Model, NdcToScreen, View, ViewToProj, World};
use retrofire_core::geom::Mesh;
use retrofire_core::util::buf::Buf2;
use retrofire_core::math::color::{Color4, Color4f, Hsla, Rgba};
use retrofire_core::math::approx::ApproxEq;

#[derive(Copy, Clone, Debug, Default, PartialEq, Eq)] pub struct BA;
#[derive(Copy, Clone, Debug, Default, PartialEq, Eq)] pub struct BB;
#[derive(Copy, Clone, Debug, Default, PartialEq, Eq)] pub struct BC;

fn v3<B>() -> Vec3<B> { vec3(1.0, 2.0, 3.0) }
fn v2<B>() -> Vec2<B> { vec2(1.0, 2.0) }
fn p3<B>() -> Point3<B> { pt3(1.0, 2.0, 3.0) }
fn p2<B>() -> Point2<B> { pt2(1.0, 2.0) }
fn m4<S, D>() -> Mat4x4<RealToReal<3, S, D>> { Mat4x4::identity() }
fn m3<S, D>() -> Mat3x3<RealToReal<2, S, D>> { Mat3x3::identity() }
fn pj<S>() -> Mat4x4<RealToProj<S>> { Mat4x4::identity() }
fn cf<Sp>() -> Color<[f32; 3], Sp> { [0.1, 0.2, 0.3].into() }
fn c8<Sp>() -> Color<[u8; 3], Sp> { [1, 2, 3].into() }
fn ang() -> Angle { degs(30.0) }
fn c4f<Sp>() -> Color<[f32; 4], Sp> { [0.1, 0.2, 0.3, 0.4].into() }
fn c48<Sp>() -> Color<[u8; 4], Sp> { [1, 2, 3, 4].into() }
fn is<T>(_: T) {}
'''

B = ["BA", "BB"]
B3 = ["BA", "BB", "BC"]
CS = ["Rgb", "LinRgb", "Hsl"]

T = []  # (name, fmt, [alphabets], judge)

def t(name, fmt, alph, judge):
    T.append((name, fmt, alph, judge))

eq = lambda a, b: a == b
# --- operators on vectors / points -------------------------------------------------------------
for op in ["+", "-"]:
    t(f"vec3 {op} vec3", "let _ = v3::<{0}>() %s v3::<{1}>();" % op, [B, B], eq)
    t(f"vec2 {op} vec2", "let _ = v2::<{0}>() %s v2::<{1}>();" % op, [B, B], eq)
    t(f"pt3 {op} vec3", "let _ = p3::<{0}>() %s v3::<{1}>();" % op, [B, B], eq)
    t(f"pt2 {op} vec2", "let _ = p2::<{0}>() %s v2::<{1}>();" % op, [B, B], eq)
for op in ["+=", "-="]:
    t(f"vec3 {op} vec3", "let mut a = v3::<{0}>(); a %s v3::<{1}>();" % op, [B, B], eq)
    t(f"pt3 {op} vec3", "let mut a = p3::<{0}>(); a %s v3::<{1}>();" % op, [B, B], eq)
t("pt3 - pt3", "let _: Vec3<{2}> = p3::<{0}>() - p3::<{1}>();", [B, B, B], lambda a, b, c: a == b == c)
t("pt2 - pt2", "let _: Vec2<{2}> = p2::<{0}>() - p2::<{1}>();", [B, B, B], lambda a, b, c: a == b == c)
# adding two points is never meaningful; twin: point + vector (above)
t("pt3 + pt3 (never)", "let _ = p3::<{0}>() + p3::<{1}>();", [B, B], lambda a, b: False)
t("pt2 + pt2 (never)", "let _ = p2::<{0}>() + p2::<{1}>();", [B, B], lambda a, b: False)
t("vec3 - pt3 (never)", "let _ = v3::<{0}>() - p3::<{1}>();", [B, B], lambda a, b: False)
# mixing dimensions; twins: same-dimension ops above
t("vec2 + vec3 (never)", "let _ = v2::<{0}>() + v3::<{1}>();", [B, B], lambda a, b: False)
t("pt2 + vec3 (never)", "let _ = p2::<{0}>() + v3::<{1}>();", [B, B], lambda a, b: False)
t("pt3 - pt2 (never)", "let _ = p3::<{0}>() - p2::<{1}>();", [B, B], lambda a, b: False)
t("vec3 == vec3", "let _ = v3::<{0}>() == v3::<{1}>();", [B, B], eq)
t("pt3 == pt3", "let _ = p3::<{0}>() == p3::<{1}>();", [B, B], eq)
# explicit conversion makes the mixed program well typed
t("vec3.to() + vec3", "let _ = v3::<{0}>().to::<Real<3, {1}>>() + v3::<{2}>();", [B, B, B], lambda a, b, c: b == c)
t("pt3.to() - pt3", "let _ = p3::<{0}>().to::<Real<3, {1}>>() - p3::<{2}>();", [B, B, B], lambda a, b, c: b == c)
# --- Affine / Linear / Lerp methods ---------------------------------------------------------------
t("Affine::add pt3 vec3", "let _ = Affine::add(&p3::<{0}>(), &v3::<{1}>());", [B, B], eq)
t("Affine::sub pt3 pt3", "let _: Vec3<{2}> = Affine::sub(&p3::<{0}>(), &p3::<{1}>());", [B, B, B], lambda a, b, c: a == b == c)
t("Affine::add vec3 vec3", "let _ = v3::<{0}>().add(&v3::<{1}>());", [B, B], eq)
t("vec3.lerp", "let _ = v3::<{0}>().lerp(&v3::<{1}>(), 0.5);", [B, B], eq)
t("pt3.lerp", "let _ = p3::<{0}>().lerp(&p3::<{1}>(), 0.5);", [B, B], eq)
t("pt2.lerp", "let _ = p2::<{0}>().lerp(&p2::<{1}>(), 0.5);", [B, B], eq)
# reference arguments: a point where a vector (difference) is expected, reachable only through method / UFCS forms
t("Affine::add pt3 pt3 (never)", "let _ = Affine::add(&p3::<{0}>(), &p3::<{1}>());", [B, B], lambda a, b: False)
t("pt3.add(&pt3) (never)", "let _ = p3::<{0}>().add(&p3::<{1}>());", [B, B], lambda a, b: False)
t("vec3.add(&pt3) (never)", "let _ = v3::<{0}>().add(&p3::<{1}>());", [B, B], lambda a, b: False)
t("vec3.sub(&pt3) (never)", "let _ = v3::<{0}>().sub(&p3::<{1}>());", [B, B], lambda a, b: False)
t("vec3.dot(&pt3) (never)", "let _ = v3::<{0}>().dot(&p3::<{1}>());", [B, B], lambda a, b: False)
t("vec3.cross(&pt3) (never)", "let _ = v3::<{0}>().cross(&p3::<{1}>());", [B, B], lambda a, b: False)
t("mat4.apply(&pt3) (never)", "let _ = m4::<{0}, {1}>().apply(&p3::<{0}>());", [B, B], lambda a, b: False)
t("mat3.apply(&pt2) (never)", "let _ = m3::<{0}, {1}>().apply(&p2::<{0}>());", [B, B], lambda a, b: False)
t("vec3.lerp(&pt3) (never)", "let _ = v3::<{0}>().lerp(&p3::<{0}>(), 0.5);", [B], lambda a: False)
t("pt3.lerp vec3 (never)", "let _ = p3::<{0}>().lerp(&v3::<{1}>(), 0.5);", [B, B], lambda a, b: False)
t("vec3.dot", "let _ = v3::<{0}>().dot(&v3::<{1}>());", [B, B], eq)
t("vec3.cross", "let _: Vec3<{2}> = v3::<{0}>().cross(&v3::<{1}>());", [B, B, B], lambda a, b, c: a == b == c)
t("vec2.dot", "let _ = v2::<{0}>().dot(&v2::<{1}>());", [B, B], eq)
t("vec3.dot vec2 (never)", "let _ = v3::<{0}>().dot(&v2::<{1}>());", [B, B], lambda a, b: False)
t("vec3.vary_to", "let _ = v3::<{0}>().vary_to(v3::<{1}>(), 4);", [B, B], eq)
# --- std operator / iterator traits: every way to reach an addition, negation or scaling ---------------
t("iter sum vec3 -> vec3", "let _: Vec3<{1}> = [v3::<{0}>(), v3::<{0}>()].into_iter().sum();", [B, B], eq)
t("iter sum pt3 -> vec3 (never)", "let _: Vec3<{1}> = [p3::<{0}>(), p3::<{0}>()].into_iter().sum();", [B, B], lambda a, b: False)
t("iter sum pt3 -> pt3 (never)", "let _: Point3<{1}> = [p3::<{0}>(), p3::<{0}>()].into_iter().sum();", [B, B], lambda a, b: False)
t("iter sum vec3 -> pt3 (never)", "let _: Point3<{1}> = [v3::<{0}>(), v3::<{0}>()].into_iter().sum();", [B, B], lambda a, b: False)
t("iter sum pt2 -> vec2 (never)", "let _: Vec2<{1}> = [p2::<{0}>(), p2::<{0}>()].into_iter().sum();", [B, B], lambda a, b: False)
t("iter sum vec2 -> vec3 (never)", "let _: Vec3<{1}> = [v2::<{0}>(), v2::<{0}>()].into_iter().sum();", [B, B], lambda a, b: False)
t("neg vec3", "let _: Vec3<{1}> = -v3::<{0}>();", [B, B], eq)
t("neg pt3 (never)", "let _ = -p3::<{0}>();", [B], lambda a: False)
t("vec3 * scalar", "let _: Vec3<{1}> = v3::<{0}>() * 2.0;", [B, B], eq)
t("scalar * vec3", "let _: Vec3<{1}> = 2.0 * v3::<{0}>();", [B, B], eq)
t("vec3 / scalar", "let _: Vec3<{1}> = v3::<{0}>() / 2.0;", [B, B], eq)
t("pt3 * scalar (never)", "let _ = p3::<{0}>() * 2.0;", [B], lambda a: False)
t("scalar * pt3 (never)", "let _ = 2.0 * p3::<{0}>();", [B], lambda a: False)
t("pt3 / scalar (never)", "let _ = p3::<{0}>() / 2.0;", [B], lambda a: False)
t("vec3 * vec3 (never)", "let _ = v3::<{0}>() * v3::<{0}>();", [B], lambda a: False)
t("pt3 += pt3 (never)", "let mut a = p3::<{0}>(); a += p3::<{1}>();", [B, B], lambda a, b: False)
t("Linear::mul pt3 (never)", "let _ = Linear::mul(&p3::<{0}>(), 2.0);", [B], lambda a: False)
t("Linear::neg pt3 (never)", "let _ = Linear::neg(&p3::<{0}>());", [B], lambda a: False)
t("Linear::mul vec3", "let _: Vec3<{1}> = Linear::mul(&v3::<{0}>(), 2.0);", [B, B], eq)
t("pt3.distance", "let _: f32 = p3::<{0}>().distance(&p3::<{1}>());", [B, B], eq)
t("pt3.distance vec3 (never)", "let _ = p3::<{0}>().distance(&v3::<{0}>());", [B], lambda a: False)
t("pt3.clamp", "let _ = p3::<{0}>().clamp(&p3::<{1}>(), &p3::<{2}>());", [B, B, B], lambda a, b, c: a == b == c)
t("vec3.clamp", "let _ = v3::<{0}>().clamp(&v3::<{1}>(), &v3::<{2}>());", [B, B, B], lambda a, b, c: a == b == c)
t("pt3.to_vec", "let _: Vec3<{1}> = p3::<{0}>().to_vec();", [B, B], eq)
t("vec3.to_pt", "let _: Point3<{1}> = v3::<{0}>().to_pt();", [B, B], eq)
t("pt3 = vec3 (never)", "let _: Point3<{0}> = v3::<{0}>();", [B], lambda a: False)
# --- mesh builder / camera: transforms applied to stored vertices ------------------------------------------
MB = ["Model", "World", "BA"]
t("Builder::transform", "let _ = Mesh::<()>::builder().transform(&m4::<{0}, {1}>());", [MB, MB], lambda a, b: a == b == "Model")
t("Mesh::new basis", "let _: Mesh<(), {1}> = Mesh::new([], [vertex(p3::<{0}>(), ())]);", [MB, MB], eq)
CAMR = '''let vs = |v: Vertex3<f32, {0}>, (m, _): (&Mat4x4<RealToProj<{2}>>, ())| vertex(m.apply(&v.pos), v.attrib);
    let fs = |f: Frag<f32>| -> Option<Color4> {{ None }};
    let sh = retrofire_core::render::shader::Shader::new(vs, fs);
    let mut tgt = Buf2::<u32>::new((4, 4));
    let verts: [Vertex3<f32, {0}>; 0] = [];
    let tris: [Tri<usize>; 0] = [];
    let cam = Camera::new((4, 4)).mode(m4::<World, View>());
    cam.render(tris, verts, &m4::<{1}, {3}>(), &sh, (), &mut tgt, &Context::default());'''
t("Camera::render bases", CAMR, [["Model", "BA"], ["Model", "BA"], ["Model", "BA"], ["World", "View"]], lambda vb, mb, sb, dst: vb == mb == sb and dst == "World")
# --- matrices: apply ----------------------------------------------------------------------------
t("mat4.apply vec3", "let _: Vec3<{3}> = m4::<{0}, {1}>().apply(&v3::<{2}>());", [B3, B3, B3, B3], lambda s, d, x, r: x == s and r == d)
t("mat4.apply_pt pt3", "let _: Point3<{3}> = m4::<{0}, {1}>().apply_pt(&p3::<{2}>());", [B3, B3, B3, B3], lambda s, d, x, r: x == s and r == d)
t("mat3.apply vec2", "let _: Vec2<{3}> = m3::<{0}, {1}>().apply(&v2::<{2}>());", [B, B, B, B], lambda s, d, x, r: x == s and r == d)
t("mat3.apply_pt pt2", "let _: Point2<{3}> = m3::<{0}, {1}>().apply_pt(&p2::<{2}>());", [B, B, B, B], lambda s, d, x, r: x == s and r == d)
t("mat4.apply vec2 (never)", "let _ = m4::<{0}, {1}>().apply(&v2::<{0}>());", [B, B], lambda s, d: False)
t("mat4.apply_pt vec3 (never)", "let _ = m4::<{0}, {1}>().apply_pt(&v3::<{0}>());", [B, B], lambda s, d: False)
t("proj.apply pt3", "let _: ProjVec4 = pj::<{0}>().apply(&p3::<{1}>());", [B, B], eq)
t("apply chain", "let _ = m4::<{2}, {3}>().apply_pt(&m4::<{0}, {1}>().apply_pt(&p3::<{0}>()));", [B, B, B, B], lambda a, b, c, d: b == c)
# re-applying a projective transform as if it were affine
t("proj.apply(proj.apply) (never)", "let _ = pj::<{0}>().apply(&pj::<{0}>().apply(&p3::<{0}>()));", [B], lambda a: False)
t("mat4.apply_pt(proj.apply) (never)", "let _ = m4::<{0}, {0}>().apply_pt(&pj::<{0}>().apply(&p3::<{0}>()));", [B], lambda a: False)
# --- matrices: compose / then ---------------------------------------------------------------------
t("mat4.compose", "let _: Mat4x4<RealToReal<3, {4}, {5}>> = m4::<{0}, {1}>().compose(&m4::<{2}, {3}>());", [B3, B3, B3, B3, B3, B3], lambda s1, d1, s2, d2, rs, rd: d2 == s1 and rs == s2 and rd == d1)
t("mat4.then", "let _: Mat4x4<RealToReal<3, {4}, {5}>> = m4::<{0}, {1}>().then(&m4::<{2}, {3}>());", [B3, B3, B3, B3, B3, B3], lambda s1, d1, s2, d2, rs, rd: d1 == s2 and rs == s1 and rd == d2)
t("mat3.then", "let _ = m3::<{0}, {1}>().then(&m3::<{2}, {3}>());", [B, B, B, B], lambda s1, d1, s2, d2: d1 == s2)
t("mat3.compose", "let _ = m3::<{0}, {1}>().compose(&m3::<{2}, {3}>());", [B, B, B, B], lambda s1, d1, s2, d2: d2 == s1)
t("real.then(proj)", "let _: Mat4x4<RealToProj<{3}>> = m4::<{0}, {1}>().then(&pj::<{2}>());", [B, B, B, B], lambda s, d, p, r: d == p and r == s)
t("proj.compose(real)", "let _: Mat4x4<RealToProj<{3}>> = pj::<{2}>().compose(&m4::<{0}, {1}>());", [B, B, B, B], lambda s, d, p, r: d == p and r == s)
t("proj.then(real) (never)", "let _ = pj::<{0}>().then(&m4::<{0}, {1}>());", [B, B], lambda a, b: False)
t("real.compose(proj) (never)", "let _ = m4::<{0}, {1}>().compose(&pj::<{0}>());", [B, B], lambda a, b: False)
t("proj.then(proj) (never)", "let _ = pj::<{0}>().then(&pj::<{1}>());", [B, B], lambda a, b: False)
t("mat4.then(mat3) (never)", "let _ = m4::<{0}, {0}>().then(&m3::<{0}, {0}>());", [B], lambda a: False)
# --- matrices: inverse / transpose / determinant -----------------------------------------------------
t("mat4.inverse", "let _: Mat4x4<RealToReal<3, {2}, {3}>> = m4::<{0}, {1}>().inverse();", [B, B, B, B], lambda s, d, x, y: (x, y) == (d, s))
t("mat4.transpose", "let _: Mat4x4<RealToReal<3, {2}, {3}>> = m4::<{0}, {1}>().transpose();", [B, B, B, B], lambda s, d, x, y: (x, y) == (d, s))
t("mat3.transpose", "let _: Mat3x3<RealToReal<2, {2}, {3}>> = m3::<{0}, {1}>().transpose();", [B, B, B, B], lambda s, d, x, y: (x, y) == (d, s))
t("inverse then original", "let m = m4::<{0}, {1}>(); let _: Mat4x4<RealToReal<3, {0}, {0}>> = m.then(&m.inverse());", [B, B], lambda a, b: True)
t("inverse applied", "let _ = m4::<{0}, {1}>().inverse().apply(&v3::<{2}>());", [B, B, B], lambda s, d, x: x == d)
t("mat4.determinant", "let _: f32 = m4::<{0}, {1}>().determinant();", [B, B], lambda a, b: True)
t("proj.inverse (never)", "let _ = pj::<{0}>().inverse();", [B], lambda a: False)
t("proj.transpose (never)", "let _ = pj::<{0}>().transpose();", [B], lambda a: False)
t("proj.determinant (never)", "let _ = pj::<{0}>().determinant();", [B], lambda a: False)
t("mat4.to() explicit", "let _: Vec3<{2}> = m4::<{0}, {1}>().to::<RealToReal<3, {3}, {2}>>().apply(&v3::<{3}>());", [B, B, B, B], lambda a, b, c, d: True)
# --- angles ------------------------------------------------------------------------------------------
ANG = ["degs(30.0)", "rads(1.0)", "turns(0.25)", "ang()"]
NUM = ["1.0", "1.0f32", "30"]
AN = ANG + NUM
isang = lambda a: a in ANG
# the geometry crate's angle-taking API: the sweep of a surface of revolution
LATHE = "let mut l = retrofire_geom::solids::Lathe::new([vertex(pt2(1.0, 0.0), retrofire_core::math::vec::vec2(1.0, 0.0))], 4); "
t("Lathe.az_range = a..b", LATHE + "l.az_range = {0}..{1}; let _ = l;", [AN, AN], lambda a, b: isang(a) and isang(b))
t("Lathe.az_range.end = a", LATHE + "l.az_range.end = {0}; let _ = l;", [AN], isang)
t("let f32 = Lathe.az_range.start (never)", LATHE + "let _: {0} = l.az_range.start;", [["f32", "Angle"]], lambda a: a == "Angle")
t("rotate_x(angle)", "let _ = rotate_x({0});", [AN], isang)
t("rotate_y(angle)", "let _ = rotate_y({0});", [AN], isang)
t("rotate_z(angle)", "let _ = rotate_z({0});", [AN], isang)
t("polar(r, angle)", "let _ = polar(1.0, {0});", [AN], isang)
t("spherical(r, az, alt)", "let _ = spherical(1.0, {0}, {1});", [AN, AN], lambda a, b: isang(a) and isang(b))
t("angle + angle", "let _ = {0} + {1};", [ANG, AN], lambda a, b: isang(b))
t("angle - angle", "let _ = {0} - {1};", [ANG, AN], lambda a, b: isang(b))
t("angle.wrap", "let _ = ang().wrap({0}, {1});", [AN, AN], lambda a, b: isang(a) and isang(b))
t("angle.clamp", "let _ = ang().clamp({0}, {1});", [AN, AN], lambda a, b: isang(a) and isang(b))
t("angle.min", "let _ = ang().min({0});", [AN], isang)
t("let angle = number (never)", "let _: Angle = {0};", [NUM], lambda a: False)
t("let f32 = angle (never)", "let _: f32 = {0};", [ANG], lambda a: False)
t("f32::sin(angle) (never)", "let _ = f32::sin({0});", [ANG], lambda a: False)
t("angle.sin()", "let _: f32 = {0}.sin();", [ANG], lambda a: True)
t("angle.to_degs()", "let _: f32 = {0}.to_degs();", [ANG], lambda a: True)
t("Angle(..) private ctor (never)", "let _ = Angle({0});", [NUM], lambda a: False)
t("angle.0 private field (never)", "let _ = {0}.0;", [ANG], lambda a: False)
t("angle * angle (never)", "let _ = {0} * {1};", [ANG, ANG], lambda a, b: False)
t("angle * scalar", "let _ = {0} * 2.0;", [ANG], lambda a: True)
# every Angle operator x (angle | bare number) right-hand side
FNUM = ["1.0", "1.0f32"]
t("angle % x", "let _ = ang() % {0};", [AN], isang)
t("angle / x", "let _ = ang() / {0};", [AN], lambda a: a in FNUM)
t("angle * x", "let _ = ang() * {0};", [AN], lambda a: a in FNUM)
t("-angle", "let _: Angle = -{0};", [ANG], lambda a: True)
t("angle == x", "let _ = ang() == {0};", [AN], isang)
t("Affine::add angle", "let _ = Affine::add(&ang(), &{0});", [AN], isang)
t("Affine::sub angle", "let _ = Affine::sub(&ang(), &{0});", [AN], isang)
t("angle.lerp", "let _ = ang().lerp(&{0}, 0.5);", [AN], isang)
t("Angle::from(number) (never)", "let _ = Angle::from({0});", [NUM], lambda a: False)
t("number.into() angle (never)", "let _: Angle = {0}.into();", [NUM], lambda a: False)
t("polar(radius, angle) radius", "let _ = polar({0}, ang());", [AN], lambda a: a in FNUM)
t("angle.max", "let _ = ang().max({0});", [AN], isang)
# matrix side vs dimension of the map it is tagged with (compile-time assertion inside transpose(): evaluated only when
# code is generated, hence the [mono] mark - these programs are built, not just checked)
t("[mono] NxN matrix of a DIM-d map .transpose()", "let _ = retrofire_core::math::mat::Matrix::<[[f32; {0}]; {0}], RealToReal<{1}, BA, BB>>::identity().transpose();", [["2", "3", "4"], ["2", "3"]], lambda n, d: int(n) >= int(d))
t("angle.approx_eq", "let _ = ang().approx_eq(&{0});", [AN], isang)
t("angle.approx_eq_eps tolerance", "let _ = ang().approx_eq_eps(&ang(), &{0});", [AN], isang)
t("angle.approx_eq_eps other", "let _ = ang().approx_eq_eps(&{0}, &ang());", [AN], isang)
# --- colours --------------------------------------------------------------------------------------------
t("colorf.add", "let _ = cf::<{0}>().add(&cf::<{1}>());", [CS, CS], eq)
t("colorf.sub", "let _ = cf::<{0}>().sub(&cf::<{1}>());", [CS, CS], eq)
t("colorf.lerp", "let _ = cf::<{0}>().lerp(&cf::<{1}>(), 0.5);", [CS, CS], eq)
t("color8.sub", "let _ = c8::<{0}>().sub(&c8::<{1}>());", [CS, CS], eq)
t("color8.add(diff)", "let _ = c8::<{0}>().add(&c8::<{1}>().sub(&c8::<{2}>()));", [CS, CS, CS], lambda a, b, c: a == b == c)
t("colorf assign", "let _: Color<[f32; 3], {1}> = cf::<{0}>();", [CS, CS], eq)
t("to_linear", "let _ = cf::<{0}>().to_linear();", [CS], lambda a: a == "Rgb")
t("to_srgb", "let _ = cf::<{0}>().to_srgb();", [CS], lambda a: a == "LinRgb")
t("to_hsl", "let _ = cf::<{0}>().to_hsl();", [CS], lambda a: a == "Rgb")
t("to_rgb", "let _ = cf::<{0}>().to_rgb();", [CS], lambda a: a == "Hsl")
t("to_color3", "let _ = cf::<{0}>().to_color3();", [CS], lambda a: a == "Rgb")
t("c8.to_hsl", "let _ = c8::<{0}>().to_hsl();", [CS], lambda a: a == "Rgb")
t("c8.to_rgb", "let _ = c8::<{0}>().to_rgb();", [CS], lambda a: a == "Hsl")
t("c8.to_rgb_u32", "let _ = c8::<{0}>().to_rgb_u32();", [CS], lambda a: a == "Rgb")
t("explicit conversion chain", "let _: Color<[f32; 3], {1}> = cf::<Rgb>().to_linear().to_srgb().to_hsl().to_rgb(){0};", [["", ".to_linear()", ".to_hsl()"], CS], lambda a, b: {"": "Rgb", ".to_linear()": "LinRgb", ".to_hsl()": "Hsl"}[a] == b)
# four-channel colours: every conversion keeps / switches the tag as documented
C4 = ["Rgba", "Hsla"]
t("c4f.to_hsla", "let _: Color<[f32; 4], {1}> = c4f::<{0}>().to_hsla();", [C4, C4], lambda a, b: a == "Rgba" and b == "Hsla")
t("c4f.to_rgba", "let _: Color<[f32; 4], {1}> = c4f::<{0}>().to_rgba();", [C4, C4], lambda a, b: a == "Hsla" and b == "Rgba")
t("c48.to_hsla", "let _: Color<[u8; 4], {1}> = c48::<{0}>().to_hsla();", [C4, C4], lambda a, b: a == "Rgba" and b == "Hsla")
t("c48.to_rgba", "let _: Color<[u8; 4], {1}> = c48::<{0}>().to_rgba();", [C4, C4], lambda a, b: a == "Hsla" and b == "Rgba")
t("c4f.to_hsl (drop alpha)", "let _: Color<[f32; 3], {1}> = c4f::<{0}>().to_hsl();", [C4, CS], lambda a, b: a == "Hsla" and b == "Hsl")
t("c4f.to_color4", "let _ = c4f::<{0}>().to_color4();", [C4], lambda a: a == "Rgba")
t("c48.to_rgba_u32", "let _ = c48::<{0}>().to_rgba_u32();", [C4], lambda a: a == "Rgba")
t("c4f.lerp", "let _ = c4f::<{0}>().lerp(&c4f::<{1}>(), 0.5);", [C4, C4], eq)
t("c4f.lerp(to_hsla) (never)", "let _ = c4f::<Rgba>().lerp(&c4f::<Rgba>().to_hsla(), 0.5);", [[""]], lambda a: False)
t("cf.to_rgba tag", "let _: Color<[f32; 4], {1}> = cf::<{0}>().to_rgba();", [CS, C4], lambda a, b: a == "Rgb" and b == "Rgba")
# no operator arithmetic on colours at all (only the Affine / Linear methods, which check the colour space): every spelling is a misuse
# (only pairs of DIFFERENT spaces are generated: the pinned tree happens to have no colour operators at all, but same-space
# operators would be no misuse if they existed)
def _pairs(al, fn, op): return [f"{fn}::<{a}>() {op} {fn}::<{b}>()" for a in al for b in al if a != b]
t("colorf + colorf of another space (never)", "let _ = {0};", [_pairs(CS, "cf", "+")], lambda a: False)
t("colorf - colorf of another space (never)", "let _ = {0};", [_pairs(CS, "cf", "-")], lambda a: False)
t("c4f + c4f of another space (never)", "let _ = {0};", [_pairs(C4, "c4f", "+")], lambda a: False)
t("c4f - c4f of another space (never)", "let _ = {0};", [_pairs(C4, "c4f", "-")], lambda a: False)
t("colorf + vec3 (never)", "let _ = cf::<Rgb>().add(&v3::<{0}>());", [B], lambda a: False)
# --- render(): vertex shader output must be a projective vertex; viewport matrix must be NDC->screen --------
RENDER = '''let vs = |v: Vertex3<f32, {0}>, m: &Mat4x4<{1}>| vertex({2}, v.attrib);
    let fs = |f: Frag<f32>| -> Option<Color4> {{ None }};
    let sh = retrofire_core::render::shader::Shader::new(vs, fs);
    let mut tgt = Buf2::<u32>::new((4, 4));
    let verts: [Vertex3<f32, {0}>; 0] = [];
    let tris: [Tri<usize>; 0] = [];
    let m: Mat4x4<{1}> = Mat4x4::identity();
    render(tris, verts, &sh, &m, {3}, &mut tgt, &Context::default());'''
POS = ["m.apply(&v.pos)", "v.pos", "v.pos.to_vec()"]
MAPS = ["RealToProj<BA>", "RealToProj<BB>", "RealToReal<3, BA, BB>"]
VPS = ["viewport(pt2(0, 0)..pt2(4, 4))", "Mat4x4::<NdcToScreen>::identity()", "Mat4x4::<ViewToProj>::identity()", "m4::<BA, BB>()",
       # right destination (screen space), wrong source space
       "m4::<World, retrofire_core::render::Screen>()", "m4::<BA, retrofire_core::render::Screen>()"]
def render_ok(basis, mp, pos, vp):
    if pos != "m.apply(&v.pos)":
        return False  # output position would not be a ProjVec4
    if not mp.startswith("RealToProj"):
        return False  # apply() of a real map gives a Vec3, and takes a Vec3
    if mp != f"RealToProj<{basis}>":
        return False
    return vp in VPS[:2]
t("render shader/viewport types", RENDER, [B, MAPS, POS, VPS], render_ok)
# the fragment shader's result: an 8-bit RGBA colour (or None) - never a colour tagged with another space
# (judged: colours of another SPACE; whether float or 3-channel RGB colours convert is not a tagging question and not asked)
FSOUT = ["c48::<Rgba>()", "Some(c48::<Rgba>())", "None::<Color4>", "c4f::<Hsla>()", "c48::<Hsla>()", "Some(c48::<Hsla>())", "Some(c4f::<Hsla>())"]
RENDER_FS = '''let vs = |v: Vertex3<f32, BA>, m: &Mat4x4<RealToProj<BA>>| vertex(m.apply(&v.pos), v.attrib);
    let fs = |_f: Frag<f32>| {0};
    let sh = retrofire_core::render::shader::Shader::new(vs, fs);
    let mut tgt = Buf2::<u32>::new((4, 4));
    let verts: [Vertex3<f32, BA>; 0] = [];
    let tris: [Tri<usize>; 0] = [];
    let m: Mat4x4<RealToProj<BA>> = Mat4x4::identity();
    render(tris, verts, &sh, &m, viewport(pt2(0, 0)..pt2(4, 4)), &mut tgt, &Context::default());'''
t("fragment shader output colour", RENDER_FS, [FSOUT], lambda o: o in FSOUT[:3])

# --- entry points that PRODUCE points and vectors: samplers, curves, interpolation ----------------------------------------
# (a value produced as a vector where a point is meant - or the reverse - makes "point + point" and friends compile one step
# later: every producer is pinned to the kind and basis of what it yields)
RNG = "let mut rng = retrofire_core::math::rand::DefaultRng::default(); use retrofire_core::math::rand::*; "
KIND3 = ["Point3", "Vec3"]
KIND2 = ["Point2", "Vec2"]
t("Uniform(pt3..pt3).sample kind/basis", RNG + "let _: {2}<{1}> = Uniform(p3::<{0}>()..p3::<{0}>()).sample(&mut rng);", [B, B, KIND3], lambda a, b, k: a == b and k == "Point3")
t("Uniform(vec3..vec3).sample kind/basis", RNG + "let _: {2}<{1}> = Uniform(v3::<{0}>()..v3::<{0}>()).sample(&mut rng);", [B, B, KIND3], lambda a, b, k: a == b and k == "Vec3")
t("Uniform(pt2..pt2).sample kind/basis", RNG + "let _: {2}<{1}> = Uniform(p2::<{0}>()..p2::<{0}>()).sample(&mut rng);", [B, B, KIND2], lambda a, b, k: a == b and k == "Point2")
t("Uniform(vec2..vec2).sample kind/basis", RNG + "let _: {2}<{1}> = Uniform(v2::<{0}>()..v2::<{0}>()).sample(&mut rng);", [B, B, KIND2], lambda a, b, k: a == b and k == "Vec2")
t("pt3 + Uniform(pt3..pt3).sample (never)", RNG + "let _ = p3::<{0}>() + Uniform(p3::<{0}>()..p3::<{0}>()).sample(&mut rng);", [B], lambda a: False)
t("pt3 + Uniform(vec3..vec3).sample", RNG + "let _ = p3::<{0}>() + Uniform(v3::<{1}>()..v3::<{1}>()).sample(&mut rng);", [B, B], eq)
t("pt3 - Uniform(pt3..pt3).sample", RNG + "let _: Vec3<{1}> = p3::<{0}>() - Uniform(p3::<{0}>()..p3::<{0}>()).sample(&mut rng);", [B, B], eq)
t("Uniform(pt3..vec3) (never)", RNG + "let _ = Uniform(p3::<{0}>()..v3::<{0}>());", [B], lambda a: False)
t("Uniform(pt3<A>..pt3<B>) bases", RNG + "let _ = Uniform(p3::<{0}>()..p3::<{1}>()).sample(&mut rng);", [B, B], eq)
t("unit-shape samplers: kind", RNG + "let _: {1} = {0}.sample(&mut rng);", [["UnitCircle", "VectorsOnUnitDisk", "PointsOnUnitDisk"], KIND2], lambda d, k: (k == "Point2") == d.startswith("Points"))
t("unit-volume samplers: kind", RNG + "let _: {1} = {0}.sample(&mut rng);", [["UnitSphere", "VectorsInUnitBall", "PointsInUnitBall"], KIND3], lambda d, k: (k == "Point3") == d.startswith("Points"))
t("pt2 + PointsOnUnitDisk.sample (never)", RNG + "let _ = pt2::<f32, ()>(0.0, 0.0) + PointsOnUnitDisk.sample(&mut rng);", [[""]], lambda a: False)
BEZ = "use retrofire_core::math::spline::*; "
t("CubicBezier<pt3>.eval kind/basis", BEZ + "let _: {2}<{1}> = CubicBezier([p3::<{0}>(); 4]).{3}(0.5);", [B, B, KIND3, ["eval", "fast_eval"]], lambda a, b, k, f: a == b and k == "Point3")
t("CubicBezier<pt3>.tangent kind/basis", BEZ + "let _: {2}<{1}> = CubicBezier([p3::<{0}>(); 4]).tangent(0.5);", [B, B, KIND3], lambda a, b, k: a == b and k == "Vec3")
t("CubicBezier<vec3>.eval kind/basis", BEZ + "let _: {2}<{1}> = CubicBezier([v3::<{0}>(); 4]).eval(0.5);", [B, B, KIND3], lambda a, b, k: a == b and k == "Vec3")
t("CubicBezier mixed control points (never)", BEZ + "let _ = CubicBezier([p3::<{0}>(), p3::<{1}>(), p3::<{0}>(), p3::<{0}>()]);", [B, B], eq)
t("BezierSpline<pt2>.eval kind/basis", BEZ + "let _: {2}<{1}> = BezierSpline::new(&[p2::<{0}>(); 4]).eval(0.5);", [B, B, KIND2], lambda a, b, k: a == b and k == "Point2")
t("BezierSpline<pt2>.tangent kind/basis", BEZ + "let _: {2}<{1}> = BezierSpline::new(&[p2::<{0}>(); 4]).tangent(0.5);", [B, B, KIND2], lambda a, b, k: a == b and k == "Vec2")
t("BezierSpline<pt2>.approximate item kind", BEZ + "let _: Vec<{2}<{1}>> = BezierSpline::new(&[p2::<{0}>(); 4]).approximate(|_| true);", [B, B, KIND2], lambda a, b, k: a == b and k == "Point2")
t("pt3.lerp result kind", "let _: {2}<{1}> = p3::<{0}>().lerp(&p3::<{0}>(), 0.5);", [B, B, KIND3], lambda a, b, k: a == b and k == "Point3")
t("vec3.lerp result kind", "let _: {2}<{1}> = v3::<{0}>().lerp(&v3::<{0}>(), 0.5);", [B, B, KIND3], lambda a, b, k: a == b and k == "Vec3")
t("pt3 + vec3 result kind", "let _: {2}<{1}> = p3::<{0}>() + v3::<{0}>();", [B, B, KIND3], lambda a, b, k: a == b and k == "Point3")
t("pt3.vary_to item kind", "let _: Vec<{2}<{1}>> = p3::<{0}>().vary_to(p3::<{0}>(), 3).collect();", [B, B, KIND3], lambda a, b, k: a == b and k == "Point3")
# --- user-defined maps: the Compose contract holds for every implementor, not only for the built-in map types ----------------
MIRROR = '''#[derive(Copy, Clone, Debug, Default)] struct Mirror;
    impl retrofire_core::math::mat::LinearMap for Mirror {{ type Source = Real<3, {0}>; type Dest = Real<3, {1}>; }}
    impl retrofire_core::math::mat::Compose<RealToReal<3, {2}, {3}>> for Mirror {{ type Result = RealToReal<3, {4}, {5}>; }}'''
t("impl Compose for a user-defined map", MIRROR, [B, B, B, B, B, B], lambda s, d, s2, d2, rs, rd: d2 == s and rs == s2 and rd == d)
MIRROR2 = '''#[derive(Copy, Clone, Debug, Default)] struct Mirror;
    impl retrofire_core::math::mat::LinearMap for Mirror {{ type Source = Real<3, {0}>; type Dest = Real<3, {1}>; }}
    impl retrofire_core::math::mat::Compose<Mirror> for RealToReal<3, {2}, {3}> {{ type Result = RealToReal<3, {0}, {3}>; }}'''
t("impl Compose<user map> for a built-in map", MIRROR2, [B, B, B, B], lambda s, d, s2, d2: s2 == d)

# --- component accessors: only the components a type has (a 2-D point has no depth, an HSL colour no red channel) -------------
ACC = ["x", "y", "z"]
t("pt2 accessor", "let _ = p2::<{0}>().{1}();", [B, ACC], lambda b, a: a != "z")
t("pt3 accessor", "let _ = p3::<{0}>().{1}();", [B, ACC], lambda b, a: True)
t("vec2 accessor", "let _ = v2::<{0}>().{1}();", [B, ACC], lambda b, a: a != "z")
t("vec3 accessor", "let _ = v3::<{0}>().{1}();", [B, ACC], lambda b, a: True)
t("pt2u accessor", "let _ = retrofire_core::math::point::pt2::<u32, ()>(1, 2).{0}();", [ACC], lambda a: a != "z")
# (LinRgb is left out: whether linear RGB colours get r/g/b accessors is not a tagging question)
CACC = ["r", "g", "b", "h", "s", "l"]
t("colour3 accessor by space", "let _ = cf::<{0}>().{1}();", [["Rgb", "Hsl"], CACC], lambda sp, a: (a in "rgb") == (sp == "Rgb"))
t("colour3 u8 accessor by space", "let _ = c8::<{0}>().{1}();", [["Rgb", "Hsl"], CACC], lambda sp, a: (a in "rgb") == (sp == "Rgb"))
t("colour4 accessor by space", "let _ = c4f::<{0}>().{1}();", [C4, CACC + ["a"]], lambda sp, a: a == "a" or ((a in "rgb") == (sp == "Rgba")))
t("colour4 u8 accessor by space", "let _ = c48::<{0}>().{1}();", [C4, CACC + ["a"]], lambda sp, a: a == "a" or ((a in "rgb") == (sp == "Rgba")))


def programs():
    out = []
    for (name, fmt, alph, judge) in T:
        for combo in itertools.product(*alph):
            good = bool(judge(*combo))
            body = fmt.format(*combo)
            out.append({"template": name, "tags": list(combo), "good": good, "body": body})
    return out


def crate_source(progs, prefix):
    """returns (source, [(first_line, last_line, index)])"""
    lines = PRELUDE.split("\n")
    ranges = []
    for i, p in enumerate(progs):
        start = len(lines) + 1
        lines.append(f"pub fn {prefix}_{i:05}() {{")
        for l in p["body"].split("\n"):
            lines.append("    " + l)
        lines.append("}")
        ranges.append((start, len(lines), i))
    return "\n".join(lines) + "\n", ranges


if __name__ == "__main__":
    ps = programs()
    print(len(ps), "programs;", sum(p["good"] for p in ps), "good;", len(T), "templates")
