#!/bin/bash
# compile a bin, show only harness errors/warnings
cd /verif/harness && cargo build --offline --profile ${2:-verif} -p ${3:-vh} --bin $1 ${4:-} 2>&1 | awk '/^(error|warning)/{p=1} /^warning: hiding a lifetime/{p=0} /generated [0-9]+ warning/{p=0} p' | grep -v "^$" | head -${LINES_MAX:-70}
