//! Abort reporter: allocation failure (and other aborts) kill the process without unwinding, so the
//! input being processed by the aborting thread is kept in a fixed per-thread slot and printed from a
//! SIGABRT handler. The driver then re-executes that one input in a subprocess to obtain a verdict.
use std::cell::Cell;
use std::sync::atomic::{AtomicUsize, Ordering};

const SLOTS: usize = 256;
const CAP: usize = 2048;
static mut BUF: [[u8; CAP]; SLOTS] = [[0; CAP]; SLOTS];
static LEN: [AtomicUsize; SLOTS] = [const { AtomicUsize::new(0) }; SLOTS];
static NEXT: AtomicUsize = AtomicUsize::new(0);
thread_local! { static SLOT: Cell<usize> = const { Cell::new(usize::MAX) }; }

extern "C" {
    fn signal(signum: i32, handler: usize) -> usize;
    fn write(fd: i32, buf: *const u8, n: usize) -> isize;
    fn _exit(code: i32) -> !;
}

fn slot() -> usize {
    SLOT.with(|s| {
        if s.get() == usize::MAX { s.set(NEXT.fetch_add(1, Ordering::Relaxed) % SLOTS); }
        s.get()
    })
}

/// Remember the input the current thread is about to hand to the code under test.
#[inline]
pub fn set(bytes: &[u8]) {
    let i = slot();
    let n = bytes.len().min(CAP);
    unsafe { std::ptr::copy_nonoverlapping(bytes.as_ptr(), (std::ptr::addr_of_mut!(BUF) as *mut u8).add(i * CAP), n); }
    LEN[i].store(if bytes.len() > CAP { 0 } else { n + 1 }, Ordering::Release);
}

extern "C" fn on_abort(_sig: i32) {
    let i = SLOT.with(|s| s.get());
    unsafe {
        let msg = b"\nABORTED-INFLIGHT ";
        write(2, msg.as_ptr(), msg.len());
        if i != usize::MAX {
            let n = LEN[i].load(Ordering::Acquire);
            if n > 0 {
                let hex = b"0123456789abcdef";
                for k in 0..n - 1 { let b = *(std::ptr::addr_of!(BUF) as *const u8).add(i * CAP + k); let o = [hex[(b >> 4) as usize], hex[(b & 15) as usize]]; write(2, o.as_ptr(), 2); }
            }
        }
        write(2, b"\n".as_ptr(), 1);
        _exit(3)
    }
}

pub fn install() {
    unsafe { signal(6, on_abort as *const () as usize); } // SIGABRT
}
