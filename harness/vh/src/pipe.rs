//! Shared rendering-pipeline harness: scenes in clip space, attribute-smuggling shader,
//! sentinel-filled targets of every kind, the three front doors, and an independent f64
//! per-pixel reference renderer.
use crate::caught;
use re::geom::{vertex, Tri, Vertex};
use re::math::color::{rgba, Color4};
use re::math::mat::{viewport, Mat4x4, RealToProj, RealToReal};
use re::math::pt2;
use re::render::clip::{view_frustum, ClipVec, ClipVert};
use re::render::raster::Frag;
use re::render::shader::{FragmentShader, VertexShader};
use re::render::{render, Batch, Camera, Context, Framebuf, Stats, Target, World};
use re::util::buf::Buf2;
use std::cell::Cell;
use std::rc::Rc;

pub type V4 = [f32; 4];

#[derive(Clone, Debug, PartialEq)]
pub struct STri { pub v: [V4; 3], pub a: [f32; 3] }

#[derive(Clone, Debug)]
pub struct Scene { pub tris: Vec<STri>, pub bw: u32, pub bh: u32, pub vp: (u32, u32, u32, u32) }

#[derive(Clone, Copy, Debug, PartialEq, Eq, Hash)]
pub enum Discard { Never, Always, Parity }

pub type Vtx = Vertex<ClipVec, f32>;

/// Identity vertex shader on clip-space vertices; fragment shader packs the (perspective-corrected)
/// attribute's bit pattern into the colour so the harness can recover it exactly from the colour buffer.
#[derive(Clone)]
pub struct AttrShader { pub discard: Discard, pub invocations: Rc<Cell<u64>> }
impl AttrShader { pub fn new(discard: Discard) -> Self { AttrShader { discard, invocations: Rc::new(Cell::new(0)) } } }
impl VertexShader<Vtx, ()> for AttrShader { type Output = Vtx; fn shade_vertex(&self, v: Vtx, _: ()) -> Vtx { v } }
impl<'a, B> VertexShader<Vtx, (&'a Mat4x4<RealToProj<B>>, ())> for AttrShader { type Output = Vtx; fn shade_vertex(&self, v: Vtx, _: (&'a Mat4x4<RealToProj<B>>, ())) -> Vtx { v } }
impl FragmentShader<f32> for AttrShader {
    fn shade_fragment(&self, f: Frag<f32>) -> Option<Color4> {
        self.invocations.set(self.invocations.get() + 1);
        let keep = match self.discard { Discard::Never => true, Discard::Always => false, Discard::Parity => ((f.pos.x() as i64 + f.pos.y() as i64) & 1) == 0 };
        keep.then(|| { let [a, b, c, d] = f.var.to_bits().to_be_bytes(); rgba(a, b, c, d) })
    }
}
/// The scalar attribute can travel through the pipeline wrapped in different varying types: the vertex shader wraps
/// it, clipper and rasterizer interpolate the wrapped value, the fragment shader unwraps it.
pub trait Carrier: re::math::Vary + re::math::Lerp + Clone + 'static { fn wrap(a: f32) -> Self; fn unwrap(&self) -> f32; }
impl Carrier for f32 { fn wrap(a: f32) -> Self { a } fn unwrap(&self) -> f32 { *self } }
impl Carrier for re::math::Point2 { fn wrap(a: f32) -> Self { pt2(a, 1.0 - a) } fn unwrap(&self) -> f32 { self.x() } }
impl Carrier for re::math::Vec3 { fn wrap(a: f32) -> Self { re::math::vec3(0.5, a, -a) } fn unwrap(&self) -> f32 { self.y() } }
impl Carrier for re::math::color::Color4f { fn wrap(a: f32) -> Self { rgba(0.25, 0.5, 1.0, a) } fn unwrap(&self) -> f32 { self.0[3] } }
impl Carrier for (re::math::Vec2, f32) { fn wrap(a: f32) -> Self { (re::math::vec2(1.0, 2.0), a) } fn unwrap(&self) -> f32 { self.1 } }
impl Carrier for re::math::Angle { fn wrap(a: f32) -> Self { re::math::rads(a) } fn unwrap(&self) -> f32 { self.to_rads() } }
#[derive(Clone, Copy, Debug, PartialEq, Eq, Hash)]
pub enum VaryKind { F32, Point2, Vec3, Color4f, Tuple, Angle }
pub const VARY_KINDS: [VaryKind; 6] = [VaryKind::F32, VaryKind::Point2, VaryKind::Vec3, VaryKind::Color4f, VaryKind::Tuple, VaryKind::Angle];

/// `AttrShader` with the attribute wrapped in carrier type `V` between the two shader stages.
#[derive(Clone)]
pub struct WrapShader<V> { pub inner: AttrShader, pub _v: std::marker::PhantomData<V> }
impl<V: Carrier> VertexShader<Vtx, ()> for WrapShader<V> { type Output = Vertex<ClipVec, V>; fn shade_vertex(&self, v: Vtx, _: ()) -> Self::Output { vertex(v.pos, V::wrap(v.attrib)) } }
impl<'a, B, V: Carrier> VertexShader<Vtx, (&'a Mat4x4<RealToProj<B>>, ())> for WrapShader<V> { type Output = Vertex<ClipVec, V>; fn shade_vertex(&self, v: Vtx, _: (&'a Mat4x4<RealToProj<B>>, ())) -> Self::Output { vertex(v.pos, V::wrap(v.attrib)) } }
impl<V: Carrier> FragmentShader<V> for WrapShader<V> {
    fn shade_fragment(&self, f: Frag<V>) -> Option<Color4> { self.inner.shade_fragment(Frag { pos: f.pos, var: f.var.unwrap() }) }
}

/// colour-buffer word -> attribute value written by `AttrShader`
pub fn unpack(word: u32) -> f32 { f32::from_bits(word.rotate_left(8)) }

pub const fn color_sentinel(idx: usize) -> u32 { 0xC3A5_0000 | (idx as u32 & 0xFFFF) }
pub fn depth_sentinel(idx: usize) -> f32 { (idx as f32 + 1.0) * 1e-9 }

#[derive(Clone, Copy, Debug, PartialEq, Eq, Hash)]
pub enum TargetKind { Owned, SubView, ColorOnly, /** colour-only target that is a strided sub-view of a larger buffer */ ColorOnlySub }
#[derive(Clone, Copy, Debug, PartialEq, Eq, Hash)]
pub enum Door { Render, Batch, Camera }

pub struct Rendered {
    pub color: Vec<u32>,
    /// None for colour-only targets
    pub depth: Option<Vec<f32>>,
    pub stats: Stats,
    pub invocations: u64,
    /// sentinel margin of the parent buffers intact (SubView targets)
    pub parent_intact: bool,
}

pub fn geometry(scene: &Scene) -> (Vec<Tri<usize>>, Vec<Vtx>) {
    let mut faces = vec![]; let mut verts = vec![];
    for (i, t) in scene.tris.iter().enumerate() {
        // (corners of one triangle that are bit-identical in position and attribute share one vertex: the face then has a
        // repeated index, as the stitching triangles of a strip do)
        let same = |a: usize, b: usize| t.v[a].map(f32::to_bits) == t.v[b].map(f32::to_bits) && t.a[a].to_bits() == t.a[b].to_bits();
        let idx = [3 * i, if same(1, 0) { 3 * i } else { 3 * i + 1 }, if same(2, 0) { 3 * i } else if same(2, 1) { 3 * i + 1 } else { 3 * i + 2 }];
        faces.push(Tri(idx));
        for k in 0..3 { verts.push(vertex(ClipVec::from(t.v[k]), t.a[k])); }
    }
    (faces, verts)
}

fn through_door<T: Target, V: Carrier>(door: Door, scene: &Scene, faces: &[Tri<usize>], verts: &[Vtx], sh: &WrapShader<V>, target: &mut T, ctx: &Context) {
    let (l, t, r, b) = scene.vp;
    let vp = viewport(pt2(l, t)..pt2(r, b));
    match door {
        Door::Render => render(faces, verts, sh, (), vp, target, ctx),
        Door::Batch => {
            let b = Batch::new().faces(faces).vertices(verts).uniform(()).viewport(vp);
            // which history a scene gets is decided by a hash of its first vertices (every history for about a third of the scenes
            // of every shape, size and viewport): 0 = none (the setters in one of eight orders), 1 = the same geometry rendered
            // twice, 2 = other geometry rendered first, then replaced
            let hsh = verts.iter().take(3).flat_map(|v| v.pos.0).fold(faces.len() as u32, |a, c| a.wrapping_mul(31).wrapping_add(c.to_bits() >> 13).rotate_left(5));
            let mode = hsh % 3;
            if mode != 0 {
                // history: the batch has already rendered once - into a scratch colour buffer, under a scratch context and
                // with another shader instance - before it is pointed at the real target ("a batch can be freely reused")
                let mut scratch: Buf2<u32> = Buf2::new((scene.bw, scene.bh));
                let sctx = Context { face_cull: None, ..Context::default() };
                let warm = WrapShader::<V> { inner: AttrShader::new(Discard::Never), _v: std::marker::PhantomData };
                // ... and with other geometry: a single face over six scratch vertices, replaced afterwards
                let wv: Vec<Vtx> = (0..6).map(|k| vertex(ClipVec::from([[-0.5f32, -0.5, 0.0, 1.0], [0.5, -0.5, 0.0, 1.0], [0.0, 0.5, 0.0, 1.0]][k % 3]), 0.5)).collect();
                if mode == 1 {
                    // ... the SAME geometry: rendered into the scratch target first, then - nothing set again but shader, target
                    // and context - into the real one (rendering may not use anything up)
                    let mut b1 = b.shader(warm).target(&mut scratch).context(&sctx);
                    b1.render();
                    return b1.shader(sh.clone()).target(target).context(ctx).render();
                }
                let mut b1 = b.faces([Tri([3usize, 4, 5])]).vertices(&wv[..]).shader(warm).target(&mut scratch).context(&sctx);
                b1.render();
                b1.faces(faces).vertices(verts).shader(sh.clone()).target(target).context(ctx).render()
            } else {
                // no history: the seven setters in one of eight orders (each setter must leave what the others have set alone;
                // every setter but the shader, which needs the vertex and uniform types, is first in one order; most are last in one), and the geometry also by way of mesh()-less
                // re-setting: faces or vertices set twice, the first time with something else
                drop(b);
                macro_rules! chain {
                    ($b:expr;) => { $b };
                    ($b:expr; F $($r:ident)*) => { chain!($b.faces(faces); $($r)*) };
                    ($b:expr; V $($r:ident)*) => { chain!($b.vertices(verts); $($r)*) };
                    ($b:expr; U $($r:ident)*) => { chain!($b.uniform(()); $($r)*) };
                    ($b:expr; P $($r:ident)*) => { chain!($b.viewport(vp); $($r)*) };
                    ($b:expr; S $($r:ident)*) => { chain!($b.shader(sh.clone()); $($r)*) };
                    ($b:expr; T $($r:ident)*) => { chain!($b.target(&mut *target); $($r)*) };
                    ($b:expr; C $($r:ident)*) => { chain!($b.context(ctx); $($r)*) };
                    // decoys, overwritten by a later setter of the same kind
                    ($b:expr; f $($r:ident)*) => { chain!($b.faces([Tri([0usize, 0, 0]); 2]); $($r)*) };
                    ($b:expr; p $($r:ident)*) => { chain!($b.viewport(viewport(pt2(0u32, 0)..pt2(1, 1))); $($r)*) };
                }
                match hsh / 3 % 8 {
                    0 => chain!(Batch::new(); F V U P S T C).render(),
                    1 => chain!(Batch::new(); C T P U V S F).render(),
                    2 => chain!(Batch::new(); V F T C P U S).render(),
                    3 => chain!(Batch::new(); U V S C F T P).render(),
                    4 => chain!(Batch::new(); P U C V S F T).render(),
                    5 => chain!(Batch::new(); T P F V C U S).render(),
                    6 => chain!(Batch::new(); V U S C T P F).render(),
                    _ => chain!(Batch::new(); f p V U S T C F P).render(),
                }
            }
        }
        Door::Camera => {
            // through the public builder: frame = buffer size, viewport = requested rectangle, identity view and projection
            // both builder orders occur (by parity of the viewport origin): mode() then viewport(), and viewport() then mode()
            let ident = Mat4x4::<RealToReal<3, World, re::render::View>>::identity();
            let mut cam = if l <= r && t <= b && (l + t) % 2 == 1 { Camera::new((scene.bw, scene.bh)).viewport((l..r, t..b)).mode(ident) } else { let c = Camera::new((scene.bw, scene.bh)).mode(ident); if l <= r && t <= b { c.viewport((l..r, t..b)) } else { c } };
            if !(l <= r && t <= b) { cam.viewport = vp; }
            // a camera put together field by field (all fields are public): the viewport matrix is what render() goes by,
            // the recorded dimensions are whatever the literal says - here the Default, (0, 0)
            if l <= r && t <= b && (l * 3 + t + r) % 4 == 2 { cam = Camera { mode: ident, dims: (0, 0), project: Mat4x4::identity(), viewport: vp }; }
            cam.project = Mat4x4::identity();
            let to_world: Mat4x4<RealToReal<3, World, World>> = Mat4x4::identity();
            // (this door also goes through the library's closure-based Shader wrapper instead of a hand-written shader type)
            let (vs_sh, fs_sh) = (sh.clone(), sh.clone());
            let wrapped = re::render::shader::Shader::new(move |v: Vtx, u: (&Mat4x4<RealToProj<World>>, ())| VertexShader::shade_vertex(&vs_sh, v, u), move |f: Frag<V>| fs_sh.shade_fragment(f));
            cam.render(faces, verts, &to_world, &wrapped, (), target, ctx)
        }
    }
}

/// Render `scene` (optionally only the triangles in `subset`, in that order) into fresh sentinel-filled buffers.
/// `prior`: buffers from an earlier call to continue from (same target kind Owned only).
pub fn render_scene(scene: &Scene, order: Option<&[usize]>, door: Door, kind: TargetKind, ctx: &Context, discard: Discard, prior: Option<(&[u32], &[f32])>) -> Result<Rendered, String> {
    render_scene_as::<f32>(scene, order, door, kind, ctx, discard, prior)
}
pub fn render_scene_vary(vary: VaryKind, scene: &Scene, order: Option<&[usize]>, door: Door, kind: TargetKind, ctx: &Context, discard: Discard, prior: Option<(&[u32], &[f32])>) -> Result<Rendered, String> {
    match vary {
        VaryKind::F32 => render_scene_as::<f32>(scene, order, door, kind, ctx, discard, prior),
        VaryKind::Point2 => render_scene_as::<re::math::Point2>(scene, order, door, kind, ctx, discard, prior),
        VaryKind::Vec3 => render_scene_as::<re::math::Vec3>(scene, order, door, kind, ctx, discard, prior),
        VaryKind::Color4f => render_scene_as::<re::math::color::Color4f>(scene, order, door, kind, ctx, discard, prior),
        VaryKind::Tuple => render_scene_as::<(re::math::Vec2, f32)>(scene, order, door, kind, ctx, discard, prior),
        VaryKind::Angle => render_scene_as::<re::math::Angle>(scene, order, door, kind, ctx, discard, prior),
    }
}
fn render_scene_as<V: Carrier>(scene: &Scene, order: Option<&[usize]>, door: Door, kind: TargetKind, ctx: &Context, discard: Discard, prior: Option<(&[u32], &[f32])>) -> Result<Rendered, String> {
    let (bw, bh) = (scene.bw, scene.bh);
    let n = (bw * bh) as usize;
    let sub = match order { Some(o) => Scene { tris: o.iter().map(|&i| scene.tris[i].clone()).collect(), ..scene.clone() }, None => scene.clone() };
    let (faces, verts) = geometry(&sub);
    let sh = WrapShader::<V> { inner: AttrShader::new(discard), _v: std::marker::PhantomData };
    let before = ctx.stats.borrow().clone();
    let init_c: Vec<u32> = match prior { Some((c, _)) => c.to_vec(), None => (0..n).map(color_sentinel).collect() };
    let init_d: Vec<f32> = match prior { Some((_, d)) => d.to_vec(), None => (0..n).map(depth_sentinel).collect() };
    let (color, depth, parent_intact) = match kind {
        TargetKind::Owned => {
            let mut fb = Framebuf { color_buf: Buf2::new_from((bw, bh), init_c), depth_buf: Buf2::new_from((bw, bh), init_d) };
            caught(|| through_door(door, &sub, &faces, &verts, &sh, &mut fb, ctx))?;
            (fb.color_buf.data().to_vec(), Some(fb.depth_buf.data().to_vec()), true)
        }
        TargetKind::ColorOnly => {
            let mut cb = Buf2::new_from((bw, bh), init_c);
            caught(|| through_door(door, &sub, &faces, &verts, &sh, &mut cb, ctx))?;
            (cb.data().to_vec(), None, true)
        }
        TargetKind::ColorOnlySub => {
            let (pw, ph) = (bw + 3, bh + 2);
            let mut pc: Buf2<u32> = Buf2::new_with((pw, ph), |x, y| 0x7E57_0000 | (y * pw + x));
            for y in 0..bh { for x in 0..bw { pc[[x + 2, y + 1]] = init_c[(y * bw + x) as usize]; } }
            {
                let mut view = pc.slice_mut((2..2 + bw, 1..1 + bh));
                caught(|| through_door(door, &sub, &faces, &verts, &sh, &mut view, ctx))?;
            }
            let mut intact = true;
            let mut c = vec![];
            for y in 0..ph { for x in 0..pw {
                if x >= 2 && x < 2 + bw && y >= 1 && y < 1 + bh { c.push(pc[[x, y]]); }
                else if pc[[x, y]] != (0x7E57_0000 | (y * pw + x)) { intact = false; }
            }}
            (c, None, intact)
        }
        TargetKind::SubView => {
            // strided views into larger sentinel-filled parents, offset (2,1), margins right/bottom
            let (pw, ph) = (bw + 3, bh + 2);
            let mut pc: Buf2<u32> = Buf2::new_with((pw, ph), |x, y| 0x7E57_0000 | (y * pw + x));
            let mut pd: Buf2<f32> = Buf2::new_with((pw, ph), |x, y| -1.0 - (y * pw + x) as f32);
            for y in 0..bh { for x in 0..bw { pc[[x + 2, y + 1]] = init_c[(y * bw + x) as usize]; pd[[x + 2, y + 1]] = init_d[(y * bw + x) as usize]; } }
            {
                let mut fb = Framebuf { color_buf: pc.slice_mut((2..2 + bw, 1..1 + bh)), depth_buf: pd.slice_mut((2..2 + bw, 1..1 + bh)) };
                caught(|| through_door(door, &sub, &faces, &verts, &sh, &mut fb, ctx))?;
            }
            let mut intact = true;
            let (mut c, mut d) = (vec![], vec![]);
            for y in 0..ph { for x in 0..pw {
                if x >= 2 && x < 2 + bw && y >= 1 && y < 1 + bh { c.push(pc[[x, y]]); d.push(pd[[x, y]]); }
                else if pc[[x, y]] != (0x7E57_0000 | (y * pw + x)) || pd[[x, y]] != -1.0 - (y * pw + x) as f32 { intact = false; }
            }}
            (c, Some(d), intact)
        }
    };
    let after = ctx.stats.borrow().clone();
    let mut stats = Stats::new();
    stats.calls = after.calls - before.calls;
    stats.prims.i = after.prims.i - before.prims.i; stats.prims.o = after.prims.o - before.prims.o;
    stats.verts.i = after.verts.i - before.verts.i; stats.verts.o = after.verts.o - before.verts.o;
    stats.frags.i = after.frags.i - before.frags.i; stats.frags.o = after.frags.o - before.frags.o;
    Ok(Rendered { color, depth, stats, invocations: sh.inner.invocations.get(), parent_intact })
}

// ------------------------------------------------------------------ reference renderer

#[derive(Clone, Debug, PartialEq)]
pub enum Truth { Outside, Inside { tri: usize, attr: f64, invw: f64 }, Ambiguous(&'static str) }

/// Visible candidates of the scene at screen position (px,py): (triangle, attr, 1/w), plus a flag
/// telling that some triangle is seen (nearly) edge-on there.
pub fn candidates(scene: &Scene, px: f64, py: f64) -> (Vec<(usize, f64, f64)>, bool) {
    let (l, t, r, b) = scene.vp;
    let nx = (px - l as f64) / (r as f64 - l as f64) * 2.0 - 1.0;
    let ny = (py - t as f64) / (b as f64 - t as f64) * 2.0 - 1.0;
    let mut out = vec![];
    let edge_on = false;
    for (ti, tr) in scene.tris.iter().enumerate() {
        if clip_degenerate(&tr.v).is_some() { continue; } // no interior; its segment is masked separately
        let v: [[f64; 4]; 3] = tr.v.map(|p| p.map(|c| c as f64));
        let r0 = [v[0][0] - nx * v[0][3], v[1][0] - nx * v[1][3], v[2][0] - nx * v[2][3]];
        let r1 = [v[0][1] - ny * v[0][3], v[1][1] - ny * v[1][3], v[2][1] - ny * v[2][3]];
        // solve r0.l = 0, r1.l = 0, sum l = 1: l is proportional to r0 x r1
        let c = [r0[1] * r1[2] - r0[2] * r1[1], r0[2] * r1[0] - r0[0] * r1[2], r0[0] * r1[1] - r0[1] * r1[0]];
        let s = c[0] + c[1] + c[2];
        let mag = c.iter().fold(0.0f64, |m, x| m.max(x.abs()));
        let scale = r0.iter().chain(r1.iter()).fold(0.0f64, |m, x| m.max(x.abs()));
        // the two equations are dependent here: the triangle projects to a line (or point) through this position
        if mag <= 1e-12 * scale * scale { continue; }
        // viewing ray parallel to the triangle's plane: the triangle projects to a sliver/segment whose
        // neighbourhood is masked via the silhouette segments; away from it the triangle does not cover the pixel
        if s.abs() <= 1e-9 * mag { continue; }
        let lam = [c[0] / s, c[1] / s, c[2] / s];
        let w = lam[0] * v[0][3] + lam[1] * v[1][3] + lam[2] * v[2][3];
        let z = lam[0] * v[0][2] + lam[1] * v[1][2] + lam[2] * v[2][2];
        if lam.iter().all(|x| *x > 0.0) && w > 0.0 && z >= -w && z <= w {
            let attr = lam[0] * tr.a[0] as f64 + lam[1] * tr.a[1] as f64 + lam[2] * tr.a[2] as f64;
            out.push((ti, attr, 1.0 / w));
        }
    }
    out.sort_by(|a, b| b.2.total_cmp(&a.2));
    (out, edge_on)
}

fn seg_dist(p: [f64; 2], a: [f64; 2], b: [f64; 2]) -> f64 {
    let (dx, dy) = (b[0] - a[0], b[1] - a[1]);
    let l2 = dx * dx + dy * dy;
    let t = if l2 == 0.0 { 0.0 } else { (((p[0] - a[0]) * dx + (p[1] - a[1]) * dy) / l2).clamp(0.0, 1.0) };
    ((p[0] - a[0] - t * dx).powi(2) + (p[1] - a[1] - t * dy).powi(2)).sqrt()
}

/// Screen-space segments of the internal fan edges the clipper creates (public clip API; used for masking only).
pub fn fan_edges(scene: &Scene) -> Vec<([f64; 2], [f64; 2])> {
    let (l, t, r, b) = scene.vp;
    let mut segs = vec![];
    for tr in &scene.tris {
        let tri = Tri(std::array::from_fn::<_, 3, _>(|k| ClipVert::new(vertex(ClipVec::from(tr.v[k]), tr.a[k]))));
        let mut out = vec![];
        if caught(|| view_frustum::clip(std::slice::from_ref(&tri), &mut out)).is_err() { continue; }
        if out.len() < 2 { continue; }
        for Tri(vs) in &out {
            let sp: Vec<[f64; 2]> = vs.iter().map(|cv| { let [x, y, _, w] = cv.pos.0.map(|c| c as f64); [l as f64 + (x / w + 1.0) / 2.0 * (r as f64 - l as f64), t as f64 + (y / w + 1.0) / 2.0 * (b as f64 - t as f64)] }).collect();
            for k in 0..3 { segs.push((sp[k], sp[(k + 1) % 3])); }
        }
    }
    segs
}

/// plane distances (positive = outside): near, far, left, right, bottom, top
pub fn plane_dists(p: &[f64; 4]) -> [f64; 6] { let [x, y, z, w] = *p; [-z - w, z - w, -x - w, x - w, -y - w, y - w] }

/// Exact visible part of a clip-space triangle as a polygon in the barycentric chart (u,v) = (l1,l2),
/// by brute-force vertex enumeration over the nine bounding lines (not Sutherland-Hodgman).
pub fn visible_polygon(t: &[V4; 3]) -> Vec<[f64; 2]> {
    // (homogeneous coordinates: normalise the common magnitude, so that the tolerances below are relative)
    let m = t.iter().flatten().fold(0.0f64, |m, x| m.max(x.abs() as f64)).max(1e-300);
    let v: [[f64; 4]; 3] = t.map(|p| p.map(|c| c as f64 / m));
    let d: [[f64; 6]; 3] = [plane_dists(&v[0]), plane_dists(&v[1]), plane_dists(&v[2])];
    let mut g: Vec<[f64; 3]> = vec![[1.0, -1.0, -1.0], [0.0, 1.0, 0.0], [0.0, 0.0, 1.0]];
    for i in 0..6 { g.push([-d[0][i], -(d[1][i] - d[0][i]), -(d[2][i] - d[0][i])]); }
    let scale = d.iter().flatten().fold(1.0f64, |m, x| m.max(x.abs()));
    let mut pts: Vec<[f64; 2]> = vec![];
    for j in 0..g.len() { for k in j + 1..g.len() {
        let det = g[j][1] * g[k][2] - g[j][2] * g[k][1];
        if det.abs() < 1e-14 * scale * scale { continue; }
        let u = (-g[j][0] * g[k][2] + g[k][0] * g[j][2]) / det;
        let w = (-g[j][1] * g[k][0] + g[k][1] * g[j][0]) / det;
        if g.iter().all(|c| c[0] + c[1] * u + c[2] * w >= -1e-11 * scale) { pts.push([u, w]); }
    }}
    if pts.len() < 3 { return vec![]; }
    let c = [pts.iter().map(|p| p[0]).sum::<f64>() / pts.len() as f64, pts.iter().map(|p| p[1]).sum::<f64>() / pts.len() as f64];
    pts.sort_by(|a, b| (a[1] - c[1]).atan2(a[0] - c[0]).total_cmp(&(b[1] - c[1]).atan2(b[0] - c[0])));
    pts.dedup_by(|a, b| (a[0] - b[0]).abs() < 1e-12 && (a[1] - b[1]).abs() < 1e-12);
    pts
}

fn tt(s: &Scene) -> f64 { s.vp.1 as f64 }
fn hh(s: &Scene) -> f64 { s.vp.3 as f64 - s.vp.1 as f64 }
/// If the three clip-space vertices are collinear (or coincide), returns the two extreme ones.
pub fn clip_degenerate(t: &[V4; 3]) -> Option<([f64; 4], [f64; 4])> {
    let v: [[f64; 4]; 3] = t.map(|p| p.map(|c| c as f64));
    let sub = |a: [f64; 4], b: [f64; 4]| [a[0] - b[0], a[1] - b[1], a[2] - b[2], a[3] - b[3]];
    let (e1, e2) = (sub(v[1], v[0]), sub(v[2], v[0]));
    let scale = e1.iter().chain(e2.iter()).fold(0.0f64, |m, x| m.max(x.abs()));
    // all 2x2 minors of [e1; e2] vanish <=> collinear
    for a in 0..4 { for b in a + 1..4 { if (e1[a] * e2[b] - e1[b] * e2[a]).abs() > 1e-12 * scale * scale { return None; } } }
    let n = |a: [f64; 4]| a.iter().map(|x| x * x).sum::<f64>();
    let (d01, d02, d12) = (n(e1), n(e2), n(sub(v[2], v[1])));
    Some(if d01 >= d02 && d01 >= d12 { (v[0], v[1]) } else if d02 >= d12 { (v[0], v[2]) } else { (v[1], v[2]) })
}

/// The exact visible part of one triangle: screen-space polygon (vertex order follows the triangle's own
/// vertex order, so its signed area is the on-screen winding of what is seen) and the range of w over it.
pub fn visible_screen_polygon(t: &[V4; 3], vp: (u32, u32, u32, u32)) -> Option<(Vec<[f64; 2]>, (f64, f64))> {
    if clip_degenerate(t).is_some() { return None; }
    let (l, tp, r, b) = vp;
    let poly = visible_polygon(t);
    if poly.len() < 3 { return None; }
    let v: [[f64; 4]; 3] = t.map(|p| p.map(|c| c as f64));
    let mut out = vec![];
    let (mut w0, mut w1) = (f64::MAX, f64::MIN);
    for uv in &poly {
        let lam = [1.0 - uv[0] - uv[1], uv[0], uv[1]];
        let p: Vec<f64> = (0..4).map(|c| (0..3).map(|k| lam[k] * v[k][c]).sum()).collect();
        if p[3] <= 1e-12 { return None; }
        w0 = w0.min(p[3]); w1 = w1.max(p[3]);
        out.push([l as f64 + (p[0] / p[3] + 1.0) / 2.0 * (r as f64 - l as f64), tp as f64 + (p[1] / p[3] + 1.0) / 2.0 * (b as f64 - tp as f64)]);
    }
    Some((out, (w0, w1)))
}
pub fn polygon_area(p: &[[f64; 2]]) -> f64 { (0..p.len()).map(|k| { let (a, b) = (p[k], p[(k + 1) % p.len()]); a[0] * b[1] - a[1] * b[0] }).sum::<f64>() / 2.0 }

/// Screen-space boundary segments of each triangle's exact visible part.
fn silhouette_edges(scene: &Scene) -> Vec<([f64; 2], [f64; 2])> {
    let (l, t, r, b) = scene.vp;
    let mut segs = vec![];
    for tr in &scene.tris {
        if let Some((a, b)) = clip_degenerate(&tr.v) {
            // zero-area triangle: the visible part of its segment, by 1-D clipping of the parameter interval
            let (da, db) = (plane_dists(&a), plane_dists(&b));
            let (mut t0, mut t1) = (0.0f64, 1.0f64);
            for i in 0..6 { let (p, q) = (da[i], db[i] - da[i]); if q.abs() < 1e-300 { if p > 0.0 { t0 = 2.0; } } else if q > 0.0 { t1 = t1.min(-p / q); } else { t0 = t0.max(-p / q); } }
            if t0 <= t1 {
                let pt = |t: f64| -> Option<[f64; 2]> { let p: Vec<f64> = (0..4).map(|c| a[c] + t * (b[c] - a[c])).collect(); if p[3] <= 1e-12 { None } else { Some([l as f64 + (p[0] / p[3] + 1.0) / 2.0 * (r as f64 - l as f64), t as f64 * 0.0 + tt(scene) + (p[1] / p[3] + 1.0) / 2.0 * hh(scene)]) } };
                if let (Some(p), Some(q)) = (pt(t0), pt(t1)) { segs.push((p, q)); }
            }
            continue;
        }
        let poly = visible_polygon(&tr.v);
        let v: [[f64; 4]; 3] = tr.v.map(|p| p.map(|c| c as f64));
        let sp: Vec<Option<[f64; 2]>> = poly.iter().map(|uv| {
            let lam = [1.0 - uv[0] - uv[1], uv[0], uv[1]];
            let p: Vec<f64> = (0..4).map(|c| (0..3).map(|k| lam[k] * v[k][c]).sum()).collect();
            if p[3] <= 1e-12 { None } else { Some([l as f64 + (p[0] / p[3] + 1.0) / 2.0 * (r as f64 - l as f64), t as f64 + (p[1] / p[3] + 1.0) / 2.0 * (b as f64 - t as f64)]) }
        }).collect();
        for k in 0..sp.len() { if let (Some(a), Some(b)) = (sp[k], sp[(k + 1) % sp.len()]) { segs.push((a, b)); } }
    }
    segs
}

pub struct Oracle<'a> { pub scene: &'a Scene, fan: Vec<([f64; 2], [f64; 2])>, sil: Vec<([f64; 2], [f64; 2])> }
impl<'a> Oracle<'a> {
    pub fn new(scene: &'a Scene) -> Self { Oracle { scene, fan: fan_edges(scene), sil: silhouette_edges(scene) } }
    /// Ground truth for pixel (i,j), with the ambiguity mask of the property statement
    /// (slightly widened: 0.025 px instead of 0.02).
    pub fn pixel(&self, i: u32, j: u32) -> Truth {
        let (cx, cy) = (i as f64 + 0.5, j as f64 + 0.5);
        let (l, t, r, b) = self.scene.vp;
        if cx < l.min(r) as f64 || cx > l.max(r) as f64 || cy < t.min(b) as f64 || cy > t.max(b) as f64 { return Truth::Outside; }
        // projected edges of visible parts (silhouettes and frustum-plane crossings), exact polygons
        for (a, b) in &self.sil { if seg_dist([cx, cy], *a, *b) < 0.025 { return Truth::Ambiguous("edge"); } }
        for (a, b) in &self.fan { if seg_dist([cx, cy], *a, *b) < 0.025 { return Truth::Ambiguous("fan-edge"); } }
        let (c0, e0) = candidates(self.scene, cx, cy);
        if e0 { return Truth::Ambiguous("edge-on"); }
        match c0.len() {
            0 => Truth::Outside,
            1 => Truth::Inside { tri: c0[0].0, attr: c0[0].1, invw: c0[0].2 },
            _ => { if (c0[0].2 - c0[1].2).abs() < 1e-3 * c0[0].2 { Truth::Ambiguous("depth-tie") } else { Truth::Inside { tri: c0[0].0, attr: c0[0].1, invw: c0[0].2 } } }
        }
    }
}
