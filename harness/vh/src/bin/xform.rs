//! C09 (transform algebra) and C08 (projection / viewport / camera geometry).
use re::geom::{vertex, Tri, Vertex, Vertex3};
use re::math::angle::{degs, Angle};
use re::math::color::{rgba, Color4};
use re::math::mat::{orient_y, orient_z, orthographic, perspective, rotate_x, rotate_y, rotate_z, scale, translate, viewport, Mat3x3, Mat4x4, RealToProj, RealToReal};
use re::math::{pt2, pt3, vec2, vec3, Point3, Vec3};
use re::render::cam::{Camera, FirstPerson, Mode};
use re::render::clip::ClipVec;
use re::render::raster::Frag;
use re::render::shader::{FragmentShader, VertexShader};
use re::render::{Context, Framebuf, View, World};
use re::util::buf::Buf2;
use vlib::*;

type M4 = Mat4x4<RealToReal<3>>;
type D4 = [[f64; 4]; 4];

fn d4(m: &M4) -> D4 { m.0.map(|r| r.map(|x| x as f64)) }
fn mul(a: &D4, b: &D4) -> D4 { let mut c = [[0.0; 4]; 4]; for i in 0..4 { for j in 0..4 { for k in 0..4 { c[i][j] += a[i][k] * b[k][j]; } } } c }
fn apply_d(a: &D4, v: [f64; 3]) -> [f64; 3] { let p = [v[0], v[1], v[2], 1.0]; [0, 1, 2].map(|i| (0..4).map(|k| a[i][k] * p[k]).sum()) }
fn det3(a: &D4) -> f64 { a[0][0] * (a[1][1] * a[2][2] - a[1][2] * a[2][1]) - a[0][1] * (a[1][0] * a[2][2] - a[1][2] * a[2][0]) + a[0][2] * (a[1][0] * a[2][1] - a[1][1] * a[2][0]) }
/// cofactor inverse of the affine matrix (linear 3x3 part + translation), f64
fn inv_affine(a: &D4) -> Option<D4> {
    let d = det3(a);
    if d == 0.0 { return None; }
    let mut r = [[0.0; 4]; 4];
    let c = |i: usize, j: usize| { let (i1, i2, j1, j2) = ((i + 1) % 3, (i + 2) % 3, (j + 1) % 3, (j + 2) % 3); a[i1][j1] * a[i2][j2] - a[i1][j2] * a[i2][j1] };
    for i in 0..3 { for j in 0..3 { r[j][i] = c(i, j) / d; } }
    for i in 0..3 { r[i][3] = -(0..3).map(|k| r[i][k] * a[k][3]).sum::<f64>(); }
    r[3][3] = 1.0;
    Some(r)
}
fn fro3(a: &D4) -> f64 { (0..3).flat_map(|i| (0..3).map(move |j| (i, j))).map(|(i, j)| a[i][j] * a[i][j]).sum::<f64>().sqrt() }

#[derive(Clone)]
struct Gen { name: String, m: M4, rotation: bool }

fn generators() -> Vec<Gen> {
    let mut g: Vec<Gen> = vec![];
    let mut push = |name: String, m: M4, rotation: bool| g.push(Gen { name, m, rotation });
    for t in [vec3(1.0, 2.0, 3.0), vec3(-1000.0, 0.0, 0.5), vec3(300.0, -400.0, 500.0)] { push(format!("translate{:?}", t.0), translate(t), false); }
    for s in [vec3(2.0, 2.0, 2.0), vec3(1.0, -2.0, 0.5), vec3(-1.0, -1.0, -1.0), vec3(1e-2, 1.0, 1e1), vec3(0.05, 0.05, 0.05), vec3(1e-4, 1e-4, 1e-4), vec3(300.0, 300.0, 300.0)] { push(format!("scale{:?}", s.0), scale(s), false); }
    for a in [0.0f32, 30.0, 90.0, 180.0, 270.0, -45.0, 1.0, 1e4, 120.0, 90.001, -89.99, 86445.0, -123456.7] {
        push(format!("rotate_x({a})"), rotate_x(degs(a)), true);
        push(format!("rotate_y({a})"), rotate_y(degs(a)), true);
        push(format!("rotate_z({a})"), rotate_z(degs(a)), true);
    }
    let n = |v: Vec3| v.normalize();
    for (ny, x) in [(vec3(0.0, 0.0, 1.0), vec3(1.0, 0.0, 0.0)), (n(vec3(1.0, 2.0, 3.0)), vec3(1.0, 0.0, 0.0)), (n(vec3(-1.0, 1.0, 0.5)), n(vec3(0.3, 0.1, 1.0)))] {
        push(format!("orient_y({:?},{:?})", ny.0, x.0), orient_y(ny, x), true);
        push(format!("orient_z({:?},{:?})", ny.0, x.0), orient_z(ny, x), true);
    }
    // permutation and shear bases (force row exchanges in every column)
    push("basis(perm yzx)".into(), M4::from_basis(vec3(0.0, 1.0, 0.0), vec3(0.0, 0.0, 1.0), vec3(1.0, 0.0, 0.0)), false);
    push("basis(perm zxy)".into(), M4::from_basis(vec3(0.0, 0.0, 1.0), vec3(1.0, 0.0, 0.0), vec3(0.0, 1.0, 0.0)), false);
    push("basis(swap xy)".into(), M4::from_basis(vec3(0.0, 1.0, 0.0), vec3(1.0, 0.0, 0.0), vec3(0.0, 0.0, 1.0)), false);
    push("basis(shear)".into(), M4::from_basis(vec3(1.0, 0.0, 0.0), vec3(0.5, 1.0, 0.0), vec3(-0.25, 2.0, 1.0)), false);
    // near-rigid maps: M^T M within 1e-2 of the identity, yet the transpose is not the inverse
    push("scale[1.004, 0.997, 1.002]".into(), scale(vec3(1.004, 0.997, 1.002)), false);
    push("basis(shear 0.008)".into(), M4::from_basis(vec3(1.0, 0.008, 0.0), vec3(0.0, 1.0, -0.006), vec3(0.004, 0.0, 1.0)), false);
    push("translate[0.004, -0.003, 0.002]".into(), translate(vec3(0.004, -0.003, 0.002)), false);
    push("basis(neg diag zero)".into(), M4::from_basis(vec3(0.0, -2.0, 0.0), vec3(-1.0, 0.0, 3.0), vec3(0.0, 0.5, -1.0)), false);
    g
}

/// A second, small alphabet for the ends of the exponent range: uniform scalings from 1e-36 to 1e18 (squares and cubes of the
/// elements leave f32's range; the elements themselves are ordinary normal floats) with rotations, a shear and a permutation.
fn scale_generators() -> Vec<Gen> {
    let mut g: Vec<Gen> = vec![];
    for s in [1e-36f32, 1e-30, 1e-25, 3e-24, 2e-23, 1e-20, 1e-12, 1e12, 1e18] { g.push(Gen { name: format!("scale[{s:e} x3]"), m: scale(vec3(s, s, s)), rotation: false }); }
    for a in [30.0f32, 90.0, -45.0, 200.0] {
        g.push(Gen { name: format!("rotate_x({a})"), m: rotate_x(degs(a)), rotation: true });
        g.push(Gen { name: format!("rotate_y({a})"), m: rotate_y(degs(a)), rotation: true });
        g.push(Gen { name: format!("rotate_z({a})"), m: rotate_z(degs(a)), rotation: true });
    }
    g.push(Gen { name: "basis(perm yzx)".into(), m: M4::from_basis(vec3(0.0, 1.0, 0.0), vec3(0.0, 0.0, 1.0), vec3(1.0, 0.0, 0.0)), rotation: false });
    g.push(Gen { name: "basis(shear)".into(), m: M4::from_basis(vec3(1.0, 0.0, 0.0), vec3(0.5, 1.0, 0.0), vec3(-0.25, 2.0, 1.0)), rotation: false });
    g.push(Gen { name: "translate[1,2,3]".into(), m: translate(vec3(1.0, 2.0, 3.0)), rotation: false });
    g
}

fn probes() -> Vec<[f32; 3]> {
    let mut p = vec![];
    for x in [-1.0f32, 0.0, 2.5] { for y in [-3.0f32, 0.0, 1.0] { for z in [-0.5f32, 0.0, 7.0] { p.push([x, y, z]); } } }
    p
}

fn check_word(word: &[usize], gens: &[Gen], r: &mut Report) { check_word_in(word, gens, "word", r) }

fn check_word_in(word: &[usize], gens: &[Gen], kind: &str, r: &mut Report) {
    r.eval();
    let names: Vec<&str> = word.iter().map(|&i| gens[i].name.as_str()).collect();
    let key = |cl: &str| format!("{cl}|{}", names.join(" . "));
    let case = || obj! {"kind" => kind, "word" => word.to_vec()};
    // product = g[0] . g[1] . g[2]  (compose: apply rightmost first)
    let mut m: M4 = gens[word[0]].m;
    let mut md = d4(&m);
    for &i in &word[1..] {
        let b = &gens[i].m;
        let composed = m.compose(b);
        let then = b.then(&m);
        if composed.0 != then.0 { r.violation(key("then-vs-compose"), format!("b.then(a) != a.compose(b)"), case()); return; }
        // apply(compose(A,B), v) = A(B v)
        let (ad, bd) = (d4(&m), d4(b));
        for p in probes() {
            let got = composed.apply(&vec3(p[0], p[1], p[2])).0;
            let gotp = composed.apply_pt(&pt3(p[0], p[1], p[2])).0;
            let inner = b.apply(&vec3(p[0], p[1], p[2]));
            let seq = m.apply(&inner).0;
            let want = apply_d(&ad, apply_d(&bd, p.map(|x| x as f64)));
            let mag = want.iter().fold(1.0f64, |a, x| a.max(x.abs())).max(ad.iter().flatten().chain(bd.iter().flatten()).fold(0.0, |a: f64, x| a.max(x.abs())));
            for k in 0..3 {
                r.margin("compose-apply", (got[k] as f64 - want[k]).abs().max((seq[k] as f64 - want[k]).abs()), 1e-5 * mag);
                if (got[k] as f64 - want[k]).abs() > 1e-5 * mag || (seq[k] as f64 - want[k]).abs() > 1e-5 * mag || gotp[k] != got[k] {
                    r.violation(key("compose-apply"), format!("probe {p:?}: compose(A,B).apply = {got:?}, A.apply(B.apply) = {seq:?}, apply_pt = {gotp:?}, f64 A(Bv) = {want:?}"), case());
                    return;
                }
            }
        }
        // determinant multiplicative
        let (da, db, dab) = (m.determinant() as f64, b.determinant() as f64, composed.determinant() as f64);
        let had = |m: &D4| (0..3).map(|i| (0..3).map(|j| m[i][j] * m[i][j]).sum::<f64>().sqrt()).product::<f64>();
        // (a product below f32's normal range underflows to a subnormal or to zero: that is the number format, not the determinant)
        if (dab - da * db).abs() > 1e-4 * (da * db).abs() + 64.0 * f32::EPSILON as f64 * had(&ad) * had(&bd) + 2.0 * f32::MIN_POSITIVE as f64 { r.violation(key("det-multiplicative"), format!("det(AB) = {dab}, det A * det B = {}", da * db), case()); return; }
        m = composed;
        md = mul(&md, &bd);
    }
    let mf = d4(&m);
    // the word followed by a projection: then() / compose() with a projective matrix, applied to points, equals the
    // projection of the transformed point - all four homogeneous components
    {
        let mv: Mat4x4<RealToReal<3, World, View>> = m.to();
        let projs: [(&str, Mat4x4<RealToProj<View>>); 3] = [("perspective(1,1,0.1..100)", perspective(1.0, 1.0, 0.1..100.0)), ("perspective(2,1.5,1..10)", perspective(2.0, 1.5, 1.0..10.0)), ("orthographic", orthographic(pt3(-2.0, -1.0, 0.5), pt3(3.0, 1.0, 8.0)))];
        for (pn, proj) in &projs {
            let (pm, pc) = (mv.then(proj), proj.compose(&mv));
            if pm.0 != pc.0 { r.violation(key("then-vs-compose"), format!("real.then({pn}) != {pn}.compose(real)"), case()); return; }
            let pd: D4 = proj.0.map(|row| row.map(|x| x as f64));
            let full = mul(&pd, &mf);
            for p in probes() {
                let got = pm.apply(&pt3::<f32, World>(p[0], p[1], p[2])).0;
                let seq = proj.apply(&mv.apply_pt(&pt3::<f32, World>(p[0], p[1], p[2]))).0;
                let h = [p[0] as f64, p[1] as f64, p[2] as f64, 1.0];
                let want: [f64; 4] = std::array::from_fn(|i| (0..4).map(|k| full[i][k] * h[k]).sum());
                let mag = want.iter().fold(1.0f64, |a, x| a.max(x.abs())).max(mf.iter().flatten().chain(pd.iter().flatten()).fold(0.0, |a: f64, x| a.max(x.abs())));
                for k in 0..4 {
                    r.margin("proj-compose-apply", (got[k] as f64 - want[k]).abs().max((seq[k] as f64 - want[k]).abs()), 1e-5 * mag);
                    if (got[k] as f64 - want[k]).abs() > 1e-5 * mag || (seq[k] as f64 - want[k]).abs() > 1e-5 * mag { r.violation(key("proj-compose-apply"), format!("{pn}, probe {p:?}: (word then projection).apply = {got:?}, projection.apply(word.apply_pt) = {seq:?}, f64 = {want:?}"), case()); return; }
                }
            }
        }
    }
    // determinant vs f64 cofactor determinant of the linear part
    let dref = det3(&mf);
    let had: f64 = (0..3).map(|i| (0..3).map(|j| mf[i][j] * mf[i][j]).sum::<f64>().sqrt()).product();
    r.margin("determinant", ((m.determinant() as f64) - dref).abs(), 1e-5 * dref.abs() + 16.0 * f32::EPSILON as f64 * had);
    // (a determinant beyond f32's range is inf: the number format, not the function)
    if dref.abs() < 3e38 && ((m.determinant() as f64) - dref).abs() > 1e-5 * dref.abs() + 16.0 * f32::EPSILON as f64 * had + 2.0 * f32::MIN_POSITIVE as f64 { r.violation(key("determinant"), format!("determinant() = {}, f64 = {dref}", m.determinant()), case()); return; }
    let Some(invd) = inv_affine(&mf) else { r.h("singular-skipped"); return; };
    let cond = fro3(&mf) * fro3(&invd) / 3.0;
    if cond > 1e3 { r.h("cond>1e3-skipped"); return; }
    // the library's own debug assertion rejects |det| <= EPSILON although the matrix may be perfectly conditioned
    let inv = match caught(|| m.inverse()) {
        Ok(i) => i,
        Err(p) => { r.violation(key(if dref.abs() <= 1.2e-7 { "inverse-panic-small-det" } else { "inverse-panic" }), format!("inverse() of a matrix with cond~{cond:.1} det={dref:.3e} panicked: {p}"), case()); return; }
    };
    let id = d4(&inv);
    let tol = 2e-5 * cond.max(1.0);
    for (nm, prod, (a, b)) in [("M.inv", mul(&mf, &id), (&mf, &id)), ("inv.M", mul(&id, &mf), (&id, &mf))] {
        for i in 0..4 { for j in 0..4 {
            let e = if i == j { 1.0 } else { 0.0 };
            // rounding of the f32 inverse is relative to the magnitude of the cancelling terms (large translations)
            // backward-stable bound: entries of the f32 inverse are accurate relative to their row's magnitude
            // (the linear 3x3 block on its own: both factors are affine, so the translation column never enters these sums and a
            // large translation does not loosen them)
            let kk = if i < 3 && j < 3 { 3 } else { 4 };
            let s: f64 = 4.0 * (0..kk).map(|k| a[i][k].abs()).fold(0.0, f64::max) * (0..kk).map(|k| b[k][j].abs()).fold(0.0, f64::max);
            let tol = tol.max(16.0 * f32::EPSILON as f64 * cond.max(1.0) * s);
            r.margin("inverse", (prod[i][j] - e).abs(), tol);
            if !((prod[i][j] - e).abs() <= tol) {
                let pivot0 = mf[0][0] == 0.0;
                r.violation(key(if pivot0 { "inverse|zero-leading-pivot" } else { "inverse" }), format!("{nm}[{i}][{j}] = {} (cond~{cond:.1}); M = {:?}; inverse() = {:?}", prod[i][j], m.0, inv.0), case());
                return;
            }
        }}
    }
    // composition through the typed API as well
    let round = m.compose(&inv);
    let big = mf.iter().flatten().chain(id.iter().flatten()).fold(1.0f64, |m, x| m.max(x.abs()));
    if round.0.iter().flatten().zip(M4::identity().0.iter().flatten()).any(|(a, b)| !((a - b).abs() as f64 <= tol.max(64.0 * f32::EPSILON as f64 * cond.max(1.0) * big * big))) { r.violation(key("inverse-compose"), "m.compose(&m.inverse()) is not the identity".into(), case()); return; }
    r.nontrivial();
    if word.len() == 1 && gens[word[0]].rotation {
        // rotations: lengths, handedness, transpose = inverse
        let t = m.transpose();
        r.margin("rotation-det", (dref - 1.0).abs(), 4e-6);
        if (dref - 1.0).abs() > 4e-6 { r.violation(key("rotation-det"), format!("det = {dref}"), case()); return; }
        for a in 0..3 { for b in 0..3 { let d: f64 = (0..3).map(|k| mf[k][a] * mf[k][b]).sum(); r.margin("rotation-orthonormal", (d - if a == b { 1.0 } else { 0.0 }).abs(), 4e-6); if (d - if a == b { 1.0 } else { 0.0 }).abs() > 4e-6 { r.violation(key("rotation-orthonormal"), format!("columns {a},{b} have dot product {d}"), case()); return; } } }
        for i in 0..4 { for j in 0..4 { r.margin("rotation-transpose", (t.0[i][j] - inv.0[i][j]).abs() as f64, 1e-5); if (t.0[i][j] - inv.0[i][j]).abs() > 1e-5 { r.violation(key("rotation-transpose"), format!("transpose != inverse at [{i}][{j}]: {} vs {}", t.0[i][j], inv.0[i][j]), case()); return; } } }
        for p in probes() {
            let v = vec3(p[0], p[1], p[2]);
            let w = m.apply(&v);
            r.margin("rotation-length", (w.len() - v.len()).abs() as f64, 1e-5 * (1.0 + v.len() as f64));
            if ((w.len() - v.len()).abs() as f64) > 1e-5 * (1.0 + v.len() as f64) { r.violation(key("rotation-length"), format!("|R v| = {} but |v| = {}", w.len(), v.len()), case()); return; }
        }
    }
}

fn check_constructors(r: &mut Report) {
    // defining effects (conventions as documented / asserted by the repository's own tests)
    // angles k*7.5 degrees within +-1 turn, and the same plus 50, -240 and 3000 whole turns; the reference is
    // f64 trigonometry of the f32 angle actually stored
    for k in (-48..=48).chain((-48..=48).step_by(3).flat_map(|k| [k + 48 * 50, k - 48 * 240, k + 48 * 3000])) {
        let a = k as f32 * 7.5;
        let ar = degs(a).to_rads() as f64;
        let (s, c) = (ar.sin(), ar.cos());
        for p in probes() {
            r.eval();
            let (x, y, z) = (p[0] as f64, p[1] as f64, p[2] as f64);
            let cases: [(&str, M4, [f64; 3]); 3] = [
                ("rotate_x", rotate_x(degs(a)), [x, y * c + z * s, -y * s + z * c]),
                ("rotate_y", rotate_y(degs(a)), [x * c - z * s, y, x * s + z * c]),
                ("rotate_z", rotate_z(degs(a)), [x * c + y * s, -x * s + y * c, z]),
            ];
            for (nm, m, want) in cases {
                let got = m.apply_pt(&pt3(p[0], p[1], p[2])).0;
                r.margin("ctor-rotate", (0..3).map(|i| (got[i] as f64 - want[i]).abs()).fold(0.0, f64::max), 1e-5 * 10.0);
                if (0..3).any(|i| (got[i] as f64 - want[i]).abs() > 1e-5 * 10.0) { r.violation(format!("ctor|{nm}({a})|{p:?}"), format!("{nm}({a} deg) maps {p:?} to {got:?}, expected {want:?}"), obj! {"kind" => "ctor"}); }
            }
        }
    }
    for p in probes() {
        r.eval();
        let t = vec3(1.5, -2.0, 1000.0);
        let s = vec3(2.0, -0.5, 3.0);
        let got = translate(t).apply_pt(&pt3(p[0], p[1], p[2])).0;
        if got != [p[0] + 1.5, p[1] - 2.0, p[2] + 1000.0] { r.violation(format!("ctor|translate|{p:?}"), format!("translate maps {p:?} to {got:?}"), obj! {"kind" => "ctor"}); }
        let got = scale(s).apply(&vec3(p[0], p[1], p[2])).0;
        if got != [p[0] * 2.0, p[1] * -0.5, p[2] * 3.0] { r.violation(format!("ctor|scale|{p:?}"), format!("scale maps {p:?} to {got:?}"), obj! {"kind" => "ctor"}); }
        let (i, j, k) = (vec3(1.0, 2.0, 3.0), vec3(0.0, -1.0, 0.5), vec3(4.0, 0.0, 1.0));
        let got = M4::from_basis(i, j, k).apply(&vec3(p[0], p[1], p[2])).0;
        let want = [0, 1, 2].map(|n| p[0] * i.0[n] + p[1] * j.0[n] + p[2] * k.0[n]);
        if (0..3).any(|n| (got[n] - want[n]).abs() > 1e-4) { r.violation(format!("ctor|from_basis|{p:?}"), format!("from_basis maps {p:?} to {got:?}, expected {want:?}"), obj! {"kind" => "ctor"}); }
    }
    // orient_y / orient_z: axis goes to the new axis, basis orthonormal and right-handed, third axis orthogonal to x
    let dirs: [Vec3; 6] = [vec3(0.0, 1.0, 0.0), vec3(0.0, 0.0, 1.0), vec3(1.0, 2.0, 3.0).normalize(), vec3(-1.0, 1.0, 0.5).normalize(), vec3(0.6, 0.0, -0.8), vec3(-0.48, 0.6, 0.64)];
    let xs = [vec3(1.0, 0.0, 0.0), vec3(0.3, 0.1, 1.0).normalize(), vec3(0.0, 0.6, 0.8), vec3(-0.7071068, 0.7071068, 0.0)];
    // (the second argument only hints at a direction: its length - 2e-4 .. 50 - must not matter)
    // (... nor the length of the first: for a primary axis of length L the basis is orthogonal, the primary axis is mapped
    // onto it and the other two axes have unit length)
    for d0 in dirs { for x0 in xs { for (hs, ds) in [(1.0f32, 1.0f32), (2e-4, 1.0), (3e-3, 1.0), (50.0, 1.0), (1.0, 20.0), (1.0, 100.0), (3e-3, 57.3), (1.0, 0.05)] {
        if (d0.dot(&x0).abs()) > 0.95 { continue; }
        let d = vec3(d0.x() * ds, d0.y() * ds, d0.z() * ds);
        let x = vec3(x0.x() * hs, x0.y() * hs, x0.z() * hs);
        for which in ["orient_y", "orient_z"] {
            r.eval();
            let m = match caught(|| if which == "orient_y" { orient_y(d, x) } else { orient_z(d, x) }) { Ok(m) => m, Err(p) => { r.violation(format!("ctor|{which}|panic|{:?}|{:?}", d.0, x.0), format!("{which}({:?}, {:?}) panicked: {p}", d.0, x.0), obj! {"kind" => "ctor"}); continue; } };
            let md = d4(&m);
            let col = |j: usize| [md[0][j], md[1][j], md[2][j]];
            let (main, other) = if which == "orient_y" { (col(1), col(2)) } else { (col(2), col(1)) };
            let dot = |a: [f64; 3], b: [f64; 3]| a[0] * b[0] + a[1] * b[1] + a[2] * b[2];
            let dd = [d.x() as f64, d.y() as f64, d.z() as f64];
            let xd = [x.x() as f64, x.y() as f64, x.z() as f64];
            let mut bad = vec![];
            let l = ds as f64;
            if (0..3).any(|i| (main[i] - dd[i]).abs() > 1e-5 * l) { bad.push("axis-not-mapped"); }
            // columns mutually orthogonal; the primary axis and the one derived from it have length L, the remaining one is a unit vector
            let len = |c: [f64; 3]| dot(c, c).sqrt();
            for a in 0..3 { for b in 0..3 { if a != b && dot(col(a), col(b)).abs() > 1e-4 * len(col(a)) * len(col(b)) { bad.push("not-orthonormal"); } } }
            if (len(main) - l).abs() > 1e-4 * l || (len(other) - 1.0).abs() > 1e-4 || (len(col(0)) - l).abs() > 1e-4 * l { bad.push("not-orthonormal"); }
            if (det3(&md) / (l * l) - 1.0).abs() > 1e-4 { bad.push("det-not-1"); }
            if dot(other, xd).abs() > 1e-4 * hs as f64 || dot(other, dd).abs() > 1e-4 * l { bad.push("other-axis-not-orthogonal-to-x"); }
            bad.dedup();
            if !bad.is_empty() { r.violation(format!("ctor|{which}|{}|{:?}|{:?}", bad.join("+"), d.0, x.0), format!("{which}({:?}, {:?}) = {:?}: {bad:?}", d.0, x.0, m.0), obj! {"kind" => "ctor"}); } else { r.nontrivial(); }
        }
    }}}
    // 3x3 matrices (2-D maps): compose/then/apply/apply_pt/transpose against f64
    type M3 = Mat3x3<RealToReal<2>>;
    let lits: Vec<M3> = vec![
        M3::new([[1.0, 0.0, 2.0], [0.0, 1.0, -3.0], [0.0, 0.0, 1.0]]),
        M3::new([[-1.0, 0.0, 0.0], [0.0, 2.0, 0.0], [0.0, 0.0, 1.0]]),
        M3::new([[0.0, 1.0, 0.0], [-1.0, 0.0, 0.0], [0.0, 0.0, 1.0]]),
        M3::new([[1.0, 0.5, 7.0], [0.25, 1.0, 0.0], [0.0, 0.0, 1.0]]),
        M3::new([[0.8660254, 0.5, 1.0], [-0.5, 0.8660254, -1.0], [0.0, 0.0, 1.0]]),
    ];
    for a in &lits { for b in &lits {
        r.eval();
        let ab = a.compose(b);
        if ab.0 != b.then(a).0 { r.violation("mat3|then-vs-compose".into(), "then != compose swapped (3x3)".into(), obj! {"kind" => "ctor"}); }
        for p in [[0.0f32, 0.0], [1.0, -2.0], [-3.5, 4.0], [100.0, 0.25]] {
            let got = ab.apply(&vec2(p[0], p[1])).0;
            let gotp = ab.apply_pt(&pt2(p[0], p[1])).0;
            let seq = a.apply(&b.apply(&vec2(p[0], p[1]))).0;
            let f = |m: &M3, v: [f64; 2]| [0, 1].map(|i| m.0[i][0] as f64 * v[0] + m.0[i][1] as f64 * v[1] + m.0[i][2] as f64);
            let want = f(a, f(b, [p[0] as f64, p[1] as f64]));
            if (0..2).any(|i| (got[i] as f64 - want[i]).abs() > 1e-3 || (seq[i] as f64 - want[i]).abs() > 1e-3 || gotp[i] != got[i]) { r.violation(format!("mat3|compose-apply|{p:?}"), format!("3x3 compose/apply: {got:?} {seq:?} want {want:?}"), obj! {"kind" => "ctor"}); }
        }
        let t = a.transpose();
        for i in 0..3 { for j in 0..3 { if t.0[i][j] != a.0[j][i] { r.violation("mat3|transpose".into(), "transpose wrong".into(), obj! {"kind" => "ctor"}); } } }
    }}
}

fn run_algebra(cfg: &Cfg) -> ! {
    let gens = generators();
    let n = gens.len() as u64;
    let mut rep = Report::new();
    rep.set("generators", n);
    let maxlen = if cfg.quick() { 3 } else { 4 };
    for len in 1..=maxlen {
        rep.merge(par_range(cfg, n.pow(len), |mut i, r| {
            let mut w = vec![];
            for _ in 0..len { w.push((i % n) as usize); i /= n; }
            check_word(&w, &gens, r);
        }));
    }
    // the extreme-scale alphabet: all words of length <= 3 with exactly one scaling (two would leave the float range)
    let gens2 = scale_generators();
    let n2 = gens2.len() as u64;
    for len in 2..=3u32 {
        rep.merge(par_range(cfg, n2.pow(len), |mut i, r| {
            let mut w = vec![];
            for _ in 0..len { w.push((i % n2) as usize); i /= n2; }
            if w.iter().filter(|&&k| k < 9).count() != 1 { return; }
            check_word_in(&w, &gens2, "word-scale", r);
        }));
    }
    let mut r = Report::new();
    check_constructors(&mut r);
    rep.merge(r);
    rep.sample(0, || obj! {"word" => "rotate_z(90) . scale[1,-2,0.5] . translate[-1000,0,0.5]", "probe" => vec![-1.0f32, -3.0, 7.0]});
    rep.sample(1, || obj! {"generators" => gens.iter().map(|g| g.name.clone()).collect::<Vec<_>>()});
    rep.finish(cfg, "exploration",
        "all words of length <= L (quick 2, thorough 3) over a generator alphabet of translations, (non-)uniform/negative scalings, rotations about each axis by 12 angles incl. multiples of 90 degrees, 90.001, -89.99, 240 turns + 45 degrees and -123456.7 degrees, orient_y/orient_z on non-perpendicular inputs, permutation/shear bases; per word: then == compose swapped (bit-exact), the word followed by each of three projections (then/compose with a projective matrix, all four homogeneous components vs f64), compose.apply == sequential application == f64 product on 27 probes, determinant vs f64 cofactors and multiplicativity, and for cond <= 1e3 inverse*M and M*inverse == I within 2e-5*cond (f64 evaluation of the f32 matrices); rotations: det 1 and orthonormal columns within 4e-6, transpose == inverse within 1e-5, lengths preserved within 1e-5; constructor defining effects on a probe lattice; 3x3 compose/apply/transpose on literal matrices. non-trivial = invertible well-conditioned word fully judged.",
        &["condition estimated as ||A||_F ||A^-1||_F / 3 on the linear part in f64", "apply() on Vec3 translates (documented behaviour), so vector effects are judged as implemented for points"])
}

// ------------------------------------------------------------------ C08

struct Sh;
impl<'a, B> VertexShader<Vertex3<(), B>, (&'a Mat4x4<RealToProj<B>>, ())> for Sh {
    type Output = Vertex<ClipVec, ()>;
    fn shade_vertex(&self, v: Vertex3<(), B>, (m, _): (&'a Mat4x4<RealToProj<B>>, ())) -> Self::Output { vertex(m.apply(&v.pos), ()) }
}
impl FragmentShader<()> for Sh {
    fn shade_fragment(&self, _: Frag<()>) -> Option<Color4> { Some(rgba(1, 2, 3, 4)) }
}

fn in_clip(c: [f32; 4], eps: f64) -> Option<bool> {
    // None when within the eps band of a plane
    let (x, y, z, w) = (c[0] as f64, c[1] as f64, c[2] as f64, c[3] as f64);
    let ds = [w - x, w + x, w - y, w + y, w - z, w + z, w];
    let scale = ds.iter().fold(1e-30f64, |a, d| a.max(d.abs())).max(w.abs());
    if ds.iter().any(|d| d.abs() <= eps * scale) { return None; }
    Some(ds.iter().all(|d| *d > 0.0))
}

fn check_perspective(i: u64, r: &mut Report) {
    let focals = [0.25f32, 0.5, 1.0, 2.0, 8.0];
    let aspects = [0.5f32, 1.0, 4.0 / 3.0, 2.35];
    // (indices beyond the 80 base combinations re-use the tables with a fractional perturbation below)
    let nf = [(0.1f32, 100.0f32), (1.0, 2.0), (1.0, 1000.0), (0.01, 10.0)];
    let (f, a, (near, far)) = if i < 80 { (focals[(i % 5) as usize], aspects[(i / 5 % 4) as usize], nf[(i / 20 % 4) as usize]) } else {
        // thorough tier: 12 x 10 x 10 further parameter values off the natural ones
        let j = i - 80;
        let f2 = [0.05f32, 0.1, 0.37, 0.70710677, 1.0000001, 1.3, 1.7320508, 3.7, 5.671, 11.4, 50.0, 100.0];
        let a2 = [0.2f32, 0.5625, 0.75, 1.0000001, 1.25, 1.6, 1.7777778, 2.0, 3.2, 5.0];
        let n2 = [(0.1f32, 0.2f32), (1e-3, 1.0), (0.5, 500.0), (1.0, 1.01), (1e-6, 1e-3), (10.0, 1e4), (0.3, 7.7), (100.0, 110.0), (1e3, 1e6), (0.25, 250.0)];
        (f2[(j % 12) as usize], a2[(j / 12 % 10) as usize], n2[(j / 120 % 10) as usize])
    };
    let m = perspective(f, a, near..far);
    let key = |cl: &str, p: [f64; 3]| format!("{cl}|focal={f}|aspect={a}|{near}..{far}|{p:?}");
    let case = || obj! {"kind" => "persp", "i" => i};
    // probe lattice in normalised frustum coordinates: (u, v) in units of the half extents at depth z
    let lat = [-1.5f64, -1.0, -1.0 + 2e-4, -0.5, 0.0, 0.5, 1.0 - 2e-4, 1.0, 1.5];
    let zs = [near as f64 * 0.5, near as f64 * (1.0 - 2e-4), near as f64, near as f64 * (1.0 + 2e-4), (near as f64 + far as f64) / 2.0, far as f64 * (1.0 - 2e-4), far as f64, far as f64 * (1.0 + 2e-4), far as f64 * 2.0, -(near as f64), 0.0];
    let mut prev_zw: Option<(f64, f64)> = None;
    for &z in &zs { for &u in &lat { for &v in &lat {
        r.eval();
        let (x, y) = (u * z / f as f64, v * z / (f as f64 * a as f64));
        let c = m.apply(&pt3::<f32, View>(x as f32, y as f32, z as f32)).0;
        // geometric truth (strictly inside / outside, band exempt)
        let marg = 1e-4;
        let ds = [1.0 - u.abs(), 1.0 - v.abs(), (z - near as f64) / near as f64, (far as f64 - z) / far as f64];
        let geo = if z <= 0.0 { Some(false) } else if ds.iter().any(|d| d.abs() <= marg) { None } else { Some(ds.iter().all(|d| *d > 0.0)) };
        let clip = in_clip(c, 1e-5);
        if let (Some(g), Some(k)) = (geo, clip) {
            if g != k { r.violation(key("persp-inside", [x, y, z]), format!("view point ({x},{y},{z}) is {} the frustum but clip coords {c:?} are {} the clip volume", if g { "inside" } else { "outside" }, if k { "inside" } else { "outside" }), case()); }
            else { r.nontrivial(); }
        }
        if u == 0.0 && v == 0.0 && z > 0.0 {
            let zw = c[2] as f64 / c[3] as f64;
            if (z - near as f64).abs() < 1e-12 && (zw + 1.0).abs() > 1e-4 { r.violation(key("persp-near", [x, y, z]), format!("near plane maps to z/w = {zw}"), case()); }
            if (z - far as f64).abs() < 1e-12 && (zw - 1.0).abs() > 1e-4 { r.violation(key("persp-far", [x, y, z]), format!("far plane maps to z/w = {zw}"), case()); }
            if let Some((pz, pzw)) = prev_zw { if z > pz * (1.0 + 1e-3) && !(zw > pzw) && z <= far as f64 * 2.0 && pz >= near as f64 * 0.5 { r.violation(key("persp-monotone", [x, y, z]), format!("depth order not preserved: z {pz}->{z} but z/w {pzw}->{zw}"), case()); } }
            prev_zw = Some((z, zw));
            if (c[3] as f64 - z).abs() > 1e-5 * z.abs() { r.violation(key("persp-w", [x, y, z]), format!("w = {} for view depth {z}", c[3]), case()); }
        }
    }}}
}

fn check_ortho(i: u64, r: &mut Report) {
    let boxes = [([-1.0f32, -1.0, -1.0], [1.0f32, 1.0, 1.0]), ([-20.0, 0.0, 0.01], [100.0, 50.0, 100.0]), ([0.0, 0.0, 1.0], [1e-2, 10.0, 1000.0]), ([-5.0, -7.0, -3.0], [-1.0, -2.0, -0.5]),
        // a scene measured in micrometres, a depth slab 1.5e-6 thick, a box at the scale of 1e-12, and one of 1e9
        ([-1e-6, -1e-6, 0.0], [1e-6, 1e-6, 2e-6]), ([-1.0, -1.0, 0.0], [1.0, 1.0, 1.5e-6]), ([-3e-12, 1e-12, 1e-12], [-1e-12, 2e-12, 4e-12]), ([-1e9, -2e9, 1e8], [3e9, 1e9, 5e9])];
    const NB: u64 = 8;
    let (lo, hi) = if i < NB { boxes[i as usize] } else { let i = i - (NB - 4);
        // thorough tier: every combination of 6 x-extents, 6 y-extents, 6 depth ranges (thin, wide, far from the origin, negative)
        let ext = [(-1.0f32, 1.0f32), (0.37, 0.41), (-1000.0, 2000.0), (-7.3, -7.1), (1e-3, 2e-3), (5.0, 5.5)];
        let dep = [(0.1f32, 100.0f32), (1.0, 1.001), (-50.0, 50.0), (1e-3, 1.0), (250.0, 1000.0), (-3.0, -1.0)];
        let j = (i - 4) as usize;
        let (x, y, z) = (ext[j % 6], ext[j / 6 % 6], dep[j / 36 % 6]);
        ([x.0, y.0, z.0], [x.1, y.1, z.1])
    };
    let m = orthographic(pt3(lo[0], lo[1], lo[2]), pt3(hi[0], hi[1], hi[2]));
    let lat = [-1.5f64, -1.0, -1.0 + 2e-4, 0.0, 0.3, 1.0 - 2e-4, 1.0, 1.5];
    let mut prev: Option<f64> = None;
    for &w in &lat { for &u in &lat { for &v in &lat {
        r.eval();
        let p = [0, 1, 2].map(|k| { let (l, h) = (lo[k] as f64, hi[k] as f64); (l + h) / 2.0 + [u, v, w][k] * (h - l) / 2.0 });
        let c = m.apply(&pt3::<f32, View>(p[0] as f32, p[1] as f32, p[2] as f32)).0;
        // f32 resolution of a normalised coordinate: the offset term (h+l)/(h-l) of the matrix is rounded at its own magnitude,
        // and so is the input coordinate - a box far from the origin relative to its extent is resolved that much more coarsely
        let cond: [f64; 3] = [0, 1, 2].map(|k| (lo[k].abs() as f64 + hi[k].abs() as f64) / (hi[k] as f64 - lo[k] as f64));
        let ds = [1.0 - u.abs(), 1.0 - v.abs(), 1.0 - w.abs()];
        let geo = if (0..3).any(|k| ds[k].abs() <= 1e-4 + 4e-7 * cond[k]) { None } else { Some(ds.iter().all(|d| *d > 0.0)) };
        if let (Some(g), Some(k)) = (geo, in_clip(c, 1e-5)) {
            if g != k { r.violation(format!("ortho-inside|box{}|{p:?}", i % 4), format!("point {p:?} {} box but clip {c:?} {}", if g { "inside" } else { "outside" }, if k { "inside" } else { "outside" }), obj! {"kind" => "ortho", "i" => i}); } else { r.nontrivial(); }
        }
        if u == 0.0 && v == 0.0 {
            let zw = c[2] as f64 / c[3] as f64;
            if (zw - w).abs() > 1e-4 + 4e-7 * cond[2] { r.violation(format!("ortho-depth|box{}|{p:?}", i % 4), format!("depth fraction {w} maps to z/w {zw}"), obj! {"kind" => "ortho", "i" => i}); }
            if let Some(pz) = prev { if !(zw > pz) && w > -1.5 { r.violation(format!("ortho-monotone|box{}", i % 4), "depth order not preserved".into(), obj! {"kind" => "ortho", "i" => i}); } }
            prev = Some(zw);
        }
    }}}
}

fn check_viewport(l: u32, t: u32, rr: u32, b: u32, r: &mut Report) {
    r.eval();
    let case = || obj! {"kind" => "viewport", "rect" => vec![l, t, rr, b]};
    let m = match caught(|| viewport(pt2(l, t)..pt2(rr, b))) { Ok(m) => m, Err(p) => { r.violation(format!("viewport-panic|{l},{t},{rr},{b}"), format!("viewport({l},{t})..({rr},{b}) panicked: {p}"), case()); return; } };
    for (nx, ny, nz) in [(-1.0f32, -1.0f32, 0.25f32), (1.0, 1.0, 0.5), (0.0, 0.0, 1.0), (-1.0, 1.0, 0.0), (0.5, -0.25, 0.75), (1.0, -1.0, 2.0)] {
        let got = m.apply_pt(&pt3(nx, ny, nz)).0;
        let want = [l as f64 + (nx as f64 + 1.0) / 2.0 * (rr as f64 - l as f64), t as f64 + (ny as f64 + 1.0) / 2.0 * (b as f64 - t as f64), nz as f64];
        r.margin("viewport", (0..3).map(|k| (got[k] as f64 - want[k]).abs() / (1.0 + want[k].abs())).fold(0.0, f64::max), 2e-6);
        if (0..3).any(|k| (got[k] as f64 - want[k]).abs() > 2e-6 * (1.0 + want[k].abs())) {
            let odd = if rr < l || b < t { "mirrored" } else if (rr - l) % 2 == 1 || (b - t) % 2 == 1 { "odd-size" } else { "even-size" };
            r.violation(format!("viewport|{odd}|{l},{t},{rr},{b}|ndc=({nx},{ny})"), format!("viewport({l},{t})..({rr},{b}) maps NDC ({nx},{ny},{nz}) to {got:?}, expected {want:?}"), case());
            return;
        }
    }
    r.nontrivial();
}

/// Camera: pinhole prediction vs pixels lit by a tiny triangle; drawing confined to viewport ∩ frame.
fn check_camera(i: u64, r: &mut Report) {
    let dims = [(8u32, 8u32), (16, 9), (5, 7), (33, 21)][(i % 4) as usize];
    let rects = [(0u32, 0u32, 100u32, 100u32), (1, 2, 7, 6), (3, 0, 40, 5), (0, 3, 4, 30), (2, 2, 3, 3)];
    // sixth choice: viewport() is never called - Camera::new(dims) alone must cover the whole frame
    let default_vp = i / 4 % 6 == 5;
    let (l, t, rr, b) = if default_vp { (0, 0, dims.0, dims.1) } else { rects[(i / 4 % 6) as usize] };
    let focal = [0.5f32, 1.0, 2.0][(i / 24 % 3) as usize];
    let ortho = (i / 72) % 2 == 1;
    let pidx = i / 144 % 10;
    // builder order: 0 = viewport, then projection; 1 = projection, then viewport (judged for the orthographic box, whose
    // meaning does not depend on the frame's aspect ratio)
    let proj_first = i / 1440 == 1;
    if proj_first && (!ortho || default_vp) { return; }
    r.eval();
    let case = || obj! {"kind" => "camera", "i" => i};
    // effective rectangle
    let (el, et, er, eb) = (l.min(dims.0), t.min(dims.1), rr.min(dims.0), b.min(dims.1));
    if el >= er || et >= eb { return; }
    let (vw, vh) = ((er - el) as f64, (eb - et) as f64);
    let cam = match caught(|| {
        let c = Camera::new(dims).mode(translate(vec3(0.5, -0.25, 1.0)).to::<RealToReal<3, World, View>>());
        if proj_first { c.orthographic(pt3(-2.0, -1.5, 0.5)..pt3(2.0, 1.5, 50.0)).viewport((l..rr, t..b)) } else {
            let c = if default_vp { c } else { c.viewport((l..rr, t..b)) };
            if ortho { c.orthographic(pt3(-2.0, -1.5, 0.5)..pt3(2.0, 1.5, 50.0)) } else { c.perspective(focal, 0.5..50.0) }
        }
    }) { Ok(c) => c, Err(p) => { r.violation(format!("camera-setup-panic|{dims:?}|{l},{t},{rr},{b}"), p, case()); return; } };
    // world probe points -> view = world + (0.5,-0.25,1)
    let probes: Vec<[f32; 3]> = vec![[0.0, 0.0, 2.0], [-0.5, 0.25, 1.0], [0.3, 0.2, 3.0], [-1.2, 0.9, 4.0], [1.0, -0.8, 2.5], [0.0, 0.0, 0.2], [5.0, 0.0, 1.0], [0.1, -0.1, 60.0], [0.1, 0.1, -3.0], [-0.45, 0.3, 0.6]];
    let w = probes[(pidx as usize) % probes.len()];
    let view = [w[0] as f64 + 0.5, w[1] as f64 - 0.25, w[2] as f64 + 1.0];
    // pinhole prediction
    let (px, py, depth, visible) = if ortho {
        let (nx, ny) = (view[0] / 2.0, view[1] / 1.5);
        (el as f64 + (nx + 1.0) / 2.0 * vw, et as f64 + (ny + 1.0) / 2.0 * vh, 1.0, nx.abs() < 1.0 && ny.abs() < 1.0 && view[2] > 0.5 && view[2] < 50.0)
    } else {
        let fpx = focal as f64 * vw / 2.0;
        (el as f64 + vw / 2.0 + fpx * view[0] / view[2], et as f64 + vh / 2.0 + fpx * view[1] / view[2], 1.0 / view[2], view[2] > 0.5 && view[2] < 50.0)
    };
    // matrix path
    let clip = cam.world_to_project().apply(&pt3::<f32, World>(w[0], w[1], w[2])).0;
    if clip[3] > 0.0 && visible {
        let ndc = [clip[0] / clip[3], clip[1] / clip[3], 1.0 / clip[3]];
        let s = cam.viewport.apply_pt(&pt3(ndc[0], ndc[1], ndc[2])).0;
        r.margin("camera-matrix", ((s[0] as f64 - px).abs() / (1.0 + vw)).max((s[1] as f64 - py).abs() / (1.0 + vh)).max((s[2] as f64 - depth).abs() / depth), 1e-5);
        if (s[0] as f64 - px).abs() > 1e-5 * (1.0 + vw) || (s[1] as f64 - py).abs() > 1e-5 * (1.0 + vh) || (s[2] as f64 - depth).abs() > 1e-5 * depth {
            r.violation(format!("camera-matrix|{}|{dims:?}|{l},{t},{rr},{b}|focal={focal}|{w:?}", if ortho { "ortho" } else { "persp" }), format!("world {w:?} -> screen {s:?}, pinhole predicts ({px},{py}) depth {depth}"), case());
            return;
        }
    }
    // render a tiny triangle around the point (half a pixel at its depth) and find lit pixels
    // triangle 2.4 px wide and high in screen space: its inscribed circle (r = 0.74 px) always contains a pixel centre
    let (ex, ey) = if ortho { ((1.2 * 4.0 / vw) as f32, (1.2 * 3.0 / vh) as f32) } else { let e = (1.2 * view[2] / (focal as f64 * vw / 2.0)) as f32; (e, e) };
    let verts = [vertex(pt3::<f32, World>(w[0] - ex, w[1] - ey, w[2]), ()), vertex(pt3(w[0] + ex, w[1] - ey, w[2]), ()), vertex(pt3(w[0], w[1] + ey, w[2]), ())];
    let mut fb = Framebuf { color_buf: Buf2::<u32>::new_from(dims, std::iter::repeat(0xDEADBEEFu32)), depth_buf: Buf2::<f32>::new_from(dims, std::iter::repeat(0.0f32)) };
    let ctx = Context { face_cull: None, depth_test: None, ..Context::default() };
    let to_world: Mat4x4<RealToReal<3, World, World>> = Mat4x4::identity();
    if let Err(p) = caught(|| cam.render([Tri([0, 1, 2])], verts, &to_world, &Sh, (), &mut fb, &ctx)) {
        r.violation(format!("camera-render-panic|{dims:?}|{l},{t},{rr},{b}|{w:?}"), format!("Camera::render panicked: {p}"), case());
        return;
    }
    let mut lit = vec![];
    for y in 0..dims.1 { for x in 0..dims.0 { if fb.color_buf[[x, y]] != 0xDEADBEEF { lit.push((x, y)); } } }
    for &(x, y) in &lit {
        if x < el || x >= er || y < et || y >= eb { r.violation(format!("camera-outside-viewport|{dims:?}|{l},{t},{rr},{b}|{w:?}"), format!("pixel ({x},{y}) lit outside viewport∩frame [{el},{er})x[{et},{eb})"), case()); return; }
        if (x as f64 + 0.5 - px).abs() > 2.5 || (y as f64 + 0.5 - py).abs() > 2.5 { r.violation(format!("camera-pixel|{dims:?}|{l},{t},{rr},{b}|focal={focal}|{w:?}"), format!("lit pixel ({x},{y}) is far from the pinhole prediction ({px:.2},{py:.2})"), case()); return; }
    }
    let expect_lit = visible && px > el as f64 + 1.5 && px < er as f64 - 1.5 && py > et as f64 + 1.5 && py < eb as f64 - 1.5 && (ortho || (view[2] - 1.2 * view[2] / (focal as f64 * vw / 2.0) * 0.0 > 0.5));
    if expect_lit && lit.is_empty() { r.violation(format!("camera-nothing-drawn|{dims:?}|{l},{t},{rr},{b}|focal={focal}|{w:?}"), format!("visible point predicted at ({px:.2},{py:.2}) lit no pixel"), case()); return; }
    if !visible && !lit.is_empty() && (view[2] < 0.4 || view[2] > 55.0) { r.violation(format!("camera-invisible-drawn|{dims:?}|{w:?}"), format!("point outside the depth range lit {lit:?}"), case()); return; }
    if !lit.is_empty() { r.nontrivial(); }
}

/// Viewports whose intersection with the frame is empty (entirely beyond the right or bottom edge, or empty as
/// requested): setting one up and rendering through it must not panic and must leave the frame alone.
fn check_camera_empty_viewport(i: u64, r: &mut Report) {
    r.eval();
    let dims = [(8u32, 8u32), (16, 9), (5, 7)][(i % 3) as usize];
    let (l, t, rr, b) = [(10u32, 2u32, 20u32, 6u32), (2, 12, 6, 20), (20, 20, 30, 30), (3, 3, 3, 6), (2, 5, 6, 5), (16, 0, 17, 4), (0, 9, 4, 12),
        // requests that are empty because their bounds are reversed, with the smaller bound inside the frame (a mirrored viewport
        // would light pixels there)
        (4, 1, 2, 5), (1, 5, 4, 2), (5, 5, 1, 1), (20, 1, 3, 5), (1, 30, 4, 2)][(i / 3 % 12) as usize];
    let ortho = i / 36 % 2 == 1;
    if l.min(dims.0) < rr.min(dims.0) && t.min(dims.1) < b.min(dims.1) { r.h("empty-viewport:not-empty-on-this-frame"); return; }
    let case = || obj! {"kind" => "camera-empty", "i" => i};
    let tag = format!("{dims:?}|{l},{t},{rr},{b}|{}", if ortho { "ortho" } else { "persp" });
    // (the perspective projection is set up before the viewport: perspective() derives the aspect ratio from the current
    // viewport and asserts that it is positive, so a perspective projection cannot be requested for an empty one)
    let cam = match caught(|| { let c = Camera::new(dims).mode(Mat4x4::<RealToReal<3, World, View>>::identity()); if ortho { c.viewport((l..rr, t..b)).orthographic(pt3(-2.0, -1.5, 0.5)..pt3(2.0, 1.5, 50.0)) } else { c.perspective(1.0, 0.5..50.0).viewport((l..rr, t..b)) } }) {
        Ok(c) => c, Err(p) => { r.violation(format!("camera-setup-panic|empty|{tag}"), format!("setting up a camera whose viewport ({l}..{rr}, {t}..{b}) misses the {dims:?} frame panicked: {p}"), case()); return; } };
    let verts = [vertex(pt3::<f32, World>(-1.0, -1.0, 2.0), ()), vertex(pt3(1.5, -1.0, 2.0), ()), vertex(pt3(0.0, 1.2, 2.0), ())];
    let mut fb = Framebuf { color_buf: Buf2::<u32>::new_from(dims, std::iter::repeat(0xDEADBEEFu32)), depth_buf: Buf2::<f32>::new_from(dims, std::iter::repeat(0.0f32)) };
    let ctx = Context { face_cull: None, depth_test: None, ..Context::default() };
    let to_world: Mat4x4<RealToReal<3, World, World>> = Mat4x4::identity();
    if let Err(p) = caught(|| cam.render([Tri([0, 1, 2])], verts, &to_world, &Sh, (), &mut fb, &ctx)) { r.violation(format!("camera-render-panic|empty|{tag}"), format!("Camera::render through a viewport ({l}..{rr}, {t}..{b}) that misses the {dims:?} frame panicked: {p}"), case()); return; }
    for y in 0..dims.1 { for x in 0..dims.0 { if fb.color_buf[[x, y]] != 0xDEADBEEF { r.violation(format!("camera-outside-viewport|empty|{tag}"), format!("pixel ({x},{y}) lit although the viewport ({l}..{rr}, {t}..{b}) does not meet the {dims:?} frame"), case()); return; } } }
    r.nontrivial();
}

/// azimuths: -180..180 in 15-degree steps, then four beyond half a turn (rotate_to must wrap them, not clamp)
fn fp_az(i: u64) -> f32 { let k = i / 54 % 29; if k < 25 { k as f32 * 15.0 - 180.0 } else { [270.0f32, -200.0, 540.0, 725.0][(k - 25) as usize] } }

/// Camera::viewport accepts every range form; whatever the spelling, the result is the request intersected with the frame.
fn check_camera_range_forms(i: u64, r: &mut Report) {
    r.eval();
    const NF: u64 = 17;
    let dims = [(8u32, 8u32), (16, 9), (5, 7), (640, 480)][(i % 4) as usize];
    let form = i / 4 % NF;
    // builder order: the viewport set after the mode (as the demos do) or before it
    let mode_last = i / (4 * NF) == 1;
    let ident = || Mat4x4::<RealToReal<3, World, View>>::identity();
    macro_rules! mk { ($vp:expr) => { caught(|| if mode_last { Camera::new(dims).viewport($vp).mode(ident()) } else { Camera::new(dims).mode(ident()).viewport($vp) }) } }
    use re::util::rect::Rect;
    use std::ops::Bound;
    // (the camera with the requested form, the explicit rectangle it means)
    let (cam, name, rect): (Result<_, String>, &str, (u32, u32, u32, u32)) = match form {
        0 => (mk!((..6u32, 2u32..5)), "(..6, 2..5)", (0, 2, 6, 5)),
        1 => (mk!((1u32..6, ..=3u32)), "(1..6, ..=3)", (1, 0, 6, 4)),
        2 => (mk!((.., ..)), "(.., ..)", (0, 0, u32::MAX, u32::MAX)),
        3 => (mk!(..), "..", (0, 0, u32::MAX, u32::MAX)),
        4 => (mk!((2u32.., 1u32..)), "(2.., 1..)", (2, 1, u32::MAX, u32::MAX)),
        5 => (mk!((..600u32, 3u32..460)), "(..600, 3..460)", (0, 3, 600, 460)),
        6 => (mk!((0u32..=4, 1u32..=2)), "(0..=4, 1..=2)", (0, 1, 5, 3)),
        // corner-pair form, also with the right edge numerically left of... smaller than the top edge (r < t)
        7 => (mk!(vec2(1u32, 2)..vec2(5, 4)), "vec2(1,2)..vec2(5,4)", (1, 2, 5, 4)),
        8 => (mk!(vec2(1u32, 4)..vec2(3, 7)), "vec2(1,4)..vec2(3,7)", (1, 4, 3, 7)),
        9 => (mk!(vec2(10u32, 300)..vec2(200, 400)), "vec2(10,300)..vec2(200,400)", (10, 300, 200, 400)),
        10 => (mk!(vec2(0u32, 5)..vec2(4, 6)), "vec2(0,5)..vec2(4,6)", (0, 5, 4, 6)),
        // literal rectangles, partly unbounded
        11 => (mk!(Rect { left: Some(1u32), top: Some(2), right: Some(7), bottom: None }), "Rect{1,2,7,-}", (1, 2, 7, u32::MAX)),
        12 => (mk!(Rect { left: None, top: Some(3u32), right: Some(3), bottom: Some(6) }), "Rect{-,3,3,6}", (0, 3, 3, 6)),
        // inclusive ends at u32::MAX: no half-open equivalent, yet a perfectly good request for "everything to the right / below"
        13 => (mk!((1u32..=u32::MAX, 2u32..=u32::MAX)), "(1..=MAX, 2..=MAX)", (1, 2, u32::MAX, u32::MAX)),
        // bounds spelled with std::ops::Bound, exclusive starts included (no range syntax produces those)
        14 => (mk!(((Bound::Excluded(0u32), Bound::Excluded(5u32)), (Bound::Excluded(1u32), Bound::Included(3u32)))), "((Excl 0, Excl 5), (Excl 1, Incl 3))", (1, 2, 5, 4)),
        15 => (mk!(((Bound::Included(2u32), Bound::Unbounded), (Bound::Excluded(0u32), Bound::Excluded(4u32)))), "((Incl 2, Unbounded), (Excl 0, Excl 4))", (2, 1, u32::MAX, 4)),
        _ => (mk!((3u32..5, 1u32..4)), "(3..5, 1..4)", (3, 1, 5, 4)),
    };
    let name = &format!("{name}{}", if mode_last { " before mode()" } else { "" });
    let case = || obj! {"kind" => "camera-forms", "i" => i};
    let cam = match cam { Ok(c) => c, Err(p) => { r.violation(format!("camera-setup-panic|{dims:?}|{name}"), format!("Camera::viewport({name}) on a {dims:?} frame panicked: {p}"), case()); return; } };
    let (el, et, er, eb) = (rect.0.min(dims.0), rect.1.min(dims.1), rect.2.min(dims.0), rect.3.min(dims.1));
    // (where the request misses this frame nothing can be drawn, whatever the matrix: see check_camera_empty_viewport)
    if el >= er || et >= eb { r.h("forms:request-misses-the-frame"); return; }
    for (nx, ny) in [(-1.0f32, -1.0f32), (1.0, 1.0), (0.0, 0.5)] {
        let s = cam.viewport.apply_pt(&pt3(nx, ny, 1.0)).0;
        let want = [el as f64 + (nx as f64 + 1.0) / 2.0 * (er as f64 - el as f64), et as f64 + (ny as f64 + 1.0) / 2.0 * (eb as f64 - et as f64)];
        if (s[0] as f64 - want[0]).abs() > 1e-5 * (1.0 + want[0]) || (s[1] as f64 - want[1]).abs() > 1e-5 * (1.0 + want[1]) { r.violation(format!("camera-matrix|forms|{dims:?}|{name}"), format!("Camera::viewport({name}) on a {dims:?} frame maps NDC ({nx},{ny}) to {s:?}, expected {want:?} (rectangle {el},{et}..{er},{eb})"), case()); return; }
    }
    if cam.dims != (er - el, eb - et) { r.violation(format!("camera-dims|forms|{dims:?}|{name}"), format!("Camera::viewport({name}) on a {dims:?} frame has dims {:?}, expected {:?}", cam.dims, (er - el, eb - et)), case()); return; }
    r.nontrivial();
}

/// A viewport set twice (a window resized, a split screen re-laid out): the second request, like the first, is confined to the
/// frame the camera was created for - not to whatever the first request left.
fn check_camera_viewport_twice(i: u64, r: &mut Report) {
    r.eval();
    let dims = (100u32, 100u32);
    let rects = [(20u32, 20u32, 80u32, 80u32), (10, 10, 90, 90), (50, 50, 100, 100), (0, 0, 100, 100), (0, 0, 40, 30), (30, 60, 150, 140)];
    let (first, second) = (rects[(i % 6) as usize], rects[(i / 6) as usize]);
    let case = || obj! {"kind" => "camera-twice", "i" => i};
    let cam = match caught(|| Camera::new(dims).mode(Mat4x4::<RealToReal<3, World, View>>::identity()).viewport((first.0..first.2, first.1..first.3)).viewport((second.0..second.2, second.1..second.3))) { Ok(c) => c, Err(p) => { r.violation(format!("camera-setup-panic|twice|{first:?}|{second:?}"), p, case()); return; } };
    let (el, et, er, eb) = (second.0.min(dims.0), second.1.min(dims.1), second.2.min(dims.0), second.3.min(dims.1));
    let mut bad = cam.dims != (er - el, eb - et);
    for (nx, ny) in [(-1.0f32, -1.0f32), (1.0, 1.0)] {
        let s = cam.viewport.apply_pt(&pt3(nx, ny, 1.0)).0;
        let want = [el as f64 + (nx as f64 + 1.0) / 2.0 * (er as f64 - el as f64), et as f64 + (ny as f64 + 1.0) / 2.0 * (eb as f64 - et as f64)];
        if (s[0] as f64 - want[0]).abs() > 1e-4 || (s[1] as f64 - want[1]).abs() > 1e-4 { bad = true; }
    }
    if bad {
        let c0 = cam.viewport.apply_pt(&pt3(-1.0, -1.0, 1.0)).0; let c1 = cam.viewport.apply_pt(&pt3(1.0, 1.0, 1.0)).0;
        r.violation(format!("camera-viewport-twice|first {first:?}|second {second:?}"), format!("Camera::new({dims:?}).viewport({first:?}).viewport({second:?}): the viewport is ({},{})..({},{}) with dims {:?}, expected the second request within the frame: ({el},{et})..({er},{eb})", c0[0], c0[1], c1[0], c1[1], cam.dims), case());
        return;
    }
    r.nontrivial();
}

fn check_first_person(i: u64, r: &mut Report) {
    r.eval();
    let case = || obj! {"kind" => "fp", "i" => i};
    let pl = [-2.0f32, 0.0, 3.5];
    let pos: Vec3 = vec3(pl[(i % 3) as usize], pl[(i / 3 % 3) as usize], pl[(i / 9 % 3) as usize]);
    let mode = i / 27 % 2;
    let mut fp = FirstPerson::new();
    fp.pos = pos.to();
    // histories: the operation under test is preceded by 0..2 earlier operations (rotate, rotate_to, look_at, translate)
    let pre = (i / 12528) % 6;
    let pre_desc = ["", "rotate_to(40,-20);", "look_at(pos+(1,2,-3));", "rotate(-100,35);rotate(30,10);8xrotate(30,0);", "translate(1,1,1);look_at(pos+(0,-1,0.01));", "rotate_to(179,89);"][pre as usize];
    match pre {
        1 => fp.rotate_to(degs(40.0), degs(-20.0)),
        2 => fp.look_at(vec3(fp.pos.x() + 1.0, fp.pos.y() + 2.0, fp.pos.z() - 3.0)),
        3 => { fp.rotate(degs(-100.0), degs(35.0)); fp.rotate(degs(30.0), degs(10.0)); for _ in 0..8 { fp.rotate(degs(30.0), degs(0.0)); } }
        4 => { fp.translate(vec3(1.0, 1.0, 1.0)); fp.pos = pos.to(); fp.look_at(vec3(fp.pos.x(), fp.pos.y() - 1.0, fp.pos.z() + 0.01)); }
        5 => fp.rotate_to(degs(179.0), degs(89.0)),
        _ => {}
    }
    let desc;
    if mode == 0 {
        let az = fp_az(i);
        let alt = [0.0f32, 30.0, -30.0, 89.0, -89.0, 90.0, -90.0, 45.0][(i / 1566 % 8) as usize];
        // history 3 reaches the heading by eight relative 30-degree turns (passing half a turn on the way), the others directly
        if pre == 3 { fp.rotate_to(degs(az - 240.0), degs(alt)); for _ in 0..8 { fp.rotate(degs(30.0), degs(0.0)); } } else { fp.rotate_to(degs(az), degs(alt)); }
        desc = format!("{pre_desc}pos={:?}|az={az}|alt={alt}", pos.0);
    } else {
        let dirs = [[1.0f32, 0.0, 0.0], [-1.0, 0.0, 0.0], [0.0, 0.0, 1.0], [0.0, 0.0, -1.0], [0.0, 1.0, 0.0], [0.0, -1.0, 0.0], [1.0, 1.0, 1.0], [-1.0, 2.0, -0.5], [0.3, -0.7, 0.2], [-2.0, -0.1, 5.0], [1e-3, 1.0, 0.0], [0.0, 0.5, -2.0], [3e-3, -1.0, 1e-3], [0.02, 1.0, -0.01], [-0.1, 1.0, 0.05], [0.5, 3.0, 0.5]];
        let d = dirs[(i / 54 % 16) as usize];
        let dist = [1.0f32, 7.5][(i / 864 % 2) as usize];
        let target: Vec3 = vec3(pos.x() + d[0] * dist, pos.y() + d[1] * dist, pos.z() + d[2] * dist);
        fp.look_at(target.to());
        desc = format!("{pre_desc}pos={:?}|look_at={:?}", pos.0, target.0);
        // target must land on the positive depth axis
        let m = fp.world_to_view();
        let v = m.apply_pt(&pt3::<f32, World>(target.x(), target.y(), target.z())).0;
        let dl = (d[0] * d[0] + d[1] * d[1] + d[2] * d[2]).sqrt() * dist;
        // f32 accuracy: a few ulps of the coordinates involved (|pos| <= 6, distance <= 13)
        let tol = 1e-5 * dl as f64 + 4e-6 * (1.0 + pos.len() as f64);
        r.margin("fp-look-at", (v[0].abs() as f64).max(v[1].abs() as f64).max((v[2] - dl).abs() as f64), tol);
        if (v[0].abs() as f64) > tol || (v[1].abs() as f64) > tol || ((v[2] - dl).abs() as f64) > tol {
            let vertical = d[0].abs() < 1e-2 && d[2].abs() < 1e-2;
            r.violation(format!("fp-look-at|{}|{desc}", if vertical { "vertical" } else { "general" }), format!("look-at target maps to view {v:?}, expected (0,0,{dl})"), case());
            return;
        }
    }
    let m = match caught(|| fp.world_to_view()) { Ok(m) => m, Err(p) => { r.violation(format!("fp-panic|{desc}"), p, case()); return; } };
    let md: D4 = m.0.map(|row| row.map(|x| x as f64));
    // rigid: det +1, columns orthonormal; pos -> origin
    let o = m.apply_pt(&pt3::<f32, World>(pos.x(), pos.y(), pos.z())).0;
    r.margin("fp-origin", o.iter().fold(0.0f32, |m, c| m.max(c.abs())) as f64, 2e-6 * (1.0 + pos.len()) as f64);
    if o.iter().any(|c| c.abs() > 2e-6 * (1.0 + pos.len())) { r.violation(format!("fp-origin|{desc}"), format!("camera position maps to {o:?}"), case()); return; }
    let det = det3(&md);
    r.margin("fp-rigid-det", (det - 1.0).abs(), 1e-5);
    let mut ortho_ok = (det - 1.0).abs() <= 1e-5;
    for a in 0..3 { for b in 0..3 { let d: f64 = (0..3).map(|k| md[k][a] * md[k][b]).sum(); if (d - if a == b { 1.0 } else { 0.0 }).abs() > 1e-5 { ortho_ok = false; } } }
    if !ortho_ok {
        let alt = fp.heading.alt().to_degs();
        r.violation(format!("fp-rigid|{}|{desc}", if alt.abs() > 89.5 { "straight-up-down" } else { "general" }), format!("world_to_view is not rigid: det {det}, matrix {:?}", m.0), case());
        return;
    }
    // rotate_to(az, alt): the direction az/alt names (azimuth from +x towards +z, altitude towards +y; harness-side f64
    // trigonometry, not to_cart) maps onto the positive depth axis
    if mode == 0 {
        let az = (fp_az(i) as f64).to_radians();
        let alt = ([0.0f64, 30.0, -30.0, 89.0, -89.0, 90.0, -90.0, 45.0][(i / 1566 % 8) as usize]).to_radians();
        let dir = [az.cos() * alt.cos(), alt.sin(), az.sin() * alt.cos()];
        let q = [pos.x() as f64 + 2.0 * dir[0], pos.y() as f64 + 2.0 * dir[1], pos.z() as f64 + 2.0 * dir[2]];
        let got = apply_d(&md, q);
        let tol = 2e-5 + 4e-6 * (1.0 + pos.len() as f64);
        r.margin("fp-heading-direction", got[0].abs().max(got[1].abs()).max((got[2] - 2.0).abs()), tol);
        if got[0].abs() > tol || got[1].abs() > tol || (got[2] - 2.0).abs() > tol { r.violation(format!("fp-heading-direction|{desc}"), format!("the point 2 units along the requested heading maps to view {got:?}, expected (0,0,2)"), case()); return; }
    }
    // no roll: the camera's right axis (first row of the rotation) is horizontal and perpendicular to the requested azimuth,
    // right = up x (cos az, 0, sin az) = (sin az, 0, -cos az) - at every altitude, straight up and down included, where the
    // azimuth is all that is left to fix the orientation about the view axis
    if mode == 0 {
        let az = (fp_az(i) as f64).to_radians();
        let want = [az.sin(), 0.0, -az.cos()];
        let e = (0..3).map(|k| (md[0][k] - want[k]).abs()).fold(0.0, f64::max);
        r.margin("fp-right-axis", e, 1e-4);
        if e > 1e-4 { let alt = fp.heading.alt().to_degs(); r.violation(format!("fp-right-axis|{}|{desc}", if alt.abs() > 89.5 { "straight-up-down" } else { "general" }), format!("the camera's right axis is {:?}, expected {want:?} (world up x horizontal heading)", [md[0][0], md[0][1], md[0][2]]), case()); return; }
    }
    // forward direction of the heading maps to +z
    let f = fp.heading.to_cart();
    let fv = m.apply_pt(&pt3::<f32, World>(pos.x() + f.x() * 2.0, pos.y() + f.y() * 2.0, pos.z() + f.z() * 2.0)).0;
    r.margin("fp-forward", (fv[0].abs().max(fv[1].abs()).max((fv[2] - 2.0).abs())) as f64, 3e-5);
    if fv[0].abs() > 3e-5 || fv[1].abs() > 3e-5 || (fv[2] - 2.0).abs() > 3e-5 { r.violation(format!("fp-forward|{desc}"), format!("pos + 2*heading maps to {fv:?}, expected (0,0,2)"), case()); return; }
    // translate: displacement along the camera's horizontal heading (z), right (x) and world up (y)
    let alt = fp.heading.alt().to_degs();
    // (axes: from the view matrix where the heading has a horizontal component; from the requested azimuth - harness-side
    // trigonometry - for rotate_to headings at any altitude, straight up and down included. Only a look_at straight up or
    // down leaves the horizontal heading undefined.)
    if alt.abs() < 89.5 || mode == 0 {
        // camera axes in world space = rows of the rotation part
        let (right, fwd_h) = if alt.abs() < 89.5 {
            let fwd = [md[2][0], md[2][1], md[2][2]];
            let hl = (fwd[0] * fwd[0] + fwd[2] * fwd[2]).sqrt();
            ([md[0][0], md[0][1], md[0][2]], [fwd[0] / hl, 0.0, fwd[2] / hl])
        } else { let az = (fp_az(i) as f64).to_radians(); ([az.sin(), 0.0, -az.cos()], [az.cos(), 0.0, az.sin()]) };
        for delta in [[1.0f32, 0.0, 0.0], [0.0, 1.0, 0.0], [0.0, 0.0, 1.0], [0.5, -2.0, 3.0]] {
            let mut g = fp;
            g.translate(vec3(delta[0], delta[1], delta[2]));
            let moved = [g.pos.x() as f64 - pos.x() as f64, g.pos.y() as f64 - pos.y() as f64, g.pos.z() as f64 - pos.z() as f64];
            let want = [0, 1, 2].map(|k| delta[0] as f64 * right[k] + delta[1] as f64 * [0.0, 1.0, 0.0][k] + delta[2] as f64 * fwd_h[k]);
            r.margin("fp-translate", (0..3).map(|k| (moved[k] - want[k]).abs()).fold(0.0, f64::max), 5e-5);
            if (0..3).any(|k| (moved[k] - want[k]).abs() > 5e-5) {
                r.violation(format!("fp-translate|{}|{desc}|delta={delta:?}", if alt.abs() > 1.0 { "pitched" } else { "level" }), format!("translate({delta:?}) moved the camera by {moved:?}, expected {want:?} (right {right:?}, horizontal forward {fwd_h:?}, up (0,1,0))"), case());
                return;
            }
            if g.heading.0 != fp.heading.0 { r.violation(format!("fp-translate-heading|{desc}"), "translate changed the heading".into(), case()); return; }
        }
    }
    r.nontrivial();
}

/// look_at over target distances from zero to the ends of the exponent range: whatever the distance, the view transform stays
/// rigid and takes the camera to the origin (a target at the camera itself names no direction, but is no reason for a
/// degenerate matrix); for distances whose square stays within f32 range the target lands on the positive depth axis.
fn check_fp_look_at_scale(i: u64, r: &mut Report) {
    r.eval();
    let case = || obj! {"kind" => "fp-scale", "i" => i};
    let dirs = [[1.0f32, 0.0, 0.0], [0.0, 0.0, -1.0], [0.0, 1.0, 0.0], [1.0, 1.0, 0.0], [-0.6, 0.3, 0.8], [0.25, -1.0, 0.5], [-1.0, -1.0, -1.0]];
    let dists = [0.0f32, 1e-38, 1e-30, 1e-22, 3e-20, 1e-15, 1e-9, 1e-4, 1e4, 1e9, 1e15, 1.5e19, 1e25, 3e37];
    let d = dirs[(i % 7) as usize];
    let dist = dists[(i / 7 % 14) as usize];
    // the camera at the origin, so that target - position is exactly the offset (and once away from it, for the distances
    // that survive the addition)
    let pos: Vec3 = if i / 98 == 0 { vec3(0.0, 0.0, 0.0) } else { vec3(-2.0, 0.0, 3.5) };
    let pre = i / 196;
    let mut fp = FirstPerson::new();
    fp.pos = pos.to();
    if pre == 1 { fp.rotate_to(degs(40.0), degs(-20.0)); }
    let target: Vec3 = vec3(pos.x() + d[0] * dist, pos.y() + d[1] * dist, pos.z() + d[2] * dist);
    let desc = format!("pos={:?}|dir={d:?}|dist={dist:e}{}", pos.0, if pre == 1 { "|after rotate_to(40,-20)" } else { "" });
    let class = if dist == 0.0 { "target-at-camera" } else if dist < 1e-18 { "tiny" } else if dist > 1e18 { "huge" } else { "moderate" };
    if let Err(p) = caught(|| fp.look_at(target.to())) { r.violation(format!("fp-look-at-scale|{class}|panic|{desc}"), format!("look_at({:?}) from {:?} panicked: {p}", target.0, pos.0), case()); return; }
    let m = match caught(|| fp.world_to_view()) { Ok(m) => m, Err(p) => { r.violation(format!("fp-look-at-scale|{class}|panic|{desc}"), format!("world_to_view after look_at({:?}) from {:?} panicked: {p}", target.0, pos.0), case()); return; } };
    let md: D4 = m.0.map(|row| row.map(|x| x as f64));
    let det = det3(&md);
    let mut ok = (det - 1.0).abs() <= 1e-5;
    for a in 0..3 { for b in 0..3 { let dd: f64 = (0..3).map(|k| md[k][a] * md[k][b]).sum(); if !((dd - if a == b { 1.0 } else { 0.0 }).abs() <= 1e-5) { ok = false; } } }
    let o = m.apply_pt(&pt3::<f32, World>(pos.x(), pos.y(), pos.z())).0;
    if !ok || o.iter().any(|c| !(c.abs() <= 2e-6 * (1.0 + pos.len()))) {
        r.violation(format!("fp-look-at-scale|{class}|rigid|{desc}"), format!("after look_at({:?}) from {:?} the view transform is not rigid or misplaces the camera: det {det}, camera -> {o:?}, matrix {:?}", target.0, pos.0, m.0), case());
        return;
    }
    // the direction: only where the offset survives the addition to the position and its squared length is a normal float
    let off = [target.x() - pos.x(), target.y() - pos.y(), target.z() - pos.z()];
    let ol = (off.iter().map(|c| (*c as f64) * (*c as f64)).sum::<f64>()).sqrt();
    let exact = (0..3).all(|k| ((off[k] as f64) - (d[k] as f64) * (dist as f64)).abs() <= 1e-6 * ol);
    if class == "moderate" && exact && ol > 0.0 {
        let got = apply_d(&md, [target.x() as f64, target.y() as f64, target.z() as f64]);
        let tol = 2e-5 * ol + 4e-6 * (pos.len() as f64);
        r.margin("fp-look-at-scale", got[0].abs().max(got[1].abs()).max((got[2] - ol).abs()) / ol.max(1e-300), tol / ol.max(1e-300));
        if got[0].abs() > tol || got[1].abs() > tol || (got[2] - ol).abs() > tol {
            r.violation(format!("fp-look-at-scale|{class}|direction|{desc}"), format!("look-at target {:?} maps to view {got:?}, expected (0,0,{ol})", target.0), case());
            return;
        }
        r.nontrivial();
    } else { r.h("fp-look-at-scale:rigidity-only"); }
}

/// Small steps are steps: a displacement of any magnitude moves the camera by that displacement along its axes - one step of
/// 1e-3 .. 1e-30 from the origin, and four thousand steps of 5e-7 (a slow dolly), which add up.
fn check_fp_translate_small(i: u64, r: &mut Report) {
    r.eval();
    let case = || obj! {"kind" => "fp-small", "i" => i};
    let az = [0.0f32, 30.0, 135.0, -90.0][(i % 4) as usize];
    let mag = [1e-3f32, 1e-5, 9e-7, 5e-7, 1e-9, 1e-20, 1e-30][(i / 4 % 7) as usize];
    let dir = [[1.0f32, 0.0, 0.0], [0.0, 1.0, 0.0], [0.0, 0.0, 1.0], [0.6, -0.8, 0.5]][(i / 28 % 4) as usize];
    let steps = if i / 112 == 1 { 4000 } else { 1 };
    let mut fp = FirstPerson::new();
    fp.rotate_to(degs(az), degs(0.0));
    let a = (az as f64).to_radians();
    let (right, fwd) = ([a.sin(), 0.0, -a.cos()], [a.cos(), 0.0, a.sin()]);
    for _ in 0..steps { fp.translate(vec3(dir[0] * mag, dir[1] * mag, dir[2] * mag)); }
    let moved = [fp.pos.x() as f64, fp.pos.y() as f64, fp.pos.z() as f64];
    let d = dir.map(|c| c as f64 * mag as f64 * steps as f64);
    let want = [0, 1, 2].map(|k| d[0] * right[k] + d[1] * [0.0, 1.0, 0.0][k] + d[2] * fwd[k]);
    let len = (d[0] * d[0] + d[1] * d[1] + d[2] * d[2]).sqrt();
    let tol = if steps == 1 { 1e-5 * len } else { 1e-3 * len };
    if (0..3).any(|k| !((moved[k] - want[k]).abs() <= tol)) {
        r.violation(format!("fp-translate|small|az={az}|step={mag:e}x{steps}|dir={dir:?}"), format!("{steps} translate step(s) of {mag:e} x {dir:?} from the origin at azimuth {az}: the camera moved by {moved:?}, expected {want:?}"), case());
        return;
    }
    r.nontrivial();
}

fn run_proj(cfg: &Cfg) -> ! {
    let mut rep = Report::new();
    rep.merge(par_range(cfg, if cfg.quick() { 80 } else { 80 + 1200 }, check_perspective));
    rep.merge(par_range(cfg, if cfg.quick() { 8 } else { 8 + 216 }, check_ortho));
    let mut rects = vec![];
    for l in 0..=6u32 { for rr in l + 1..=7 { for t in 0..=6u32 { for b in t + 1..=7 { rects.push((l, t, rr, b)); } } } }
    rects.extend([(20, 10, 620, 470), (0, 0, 101, 75), (3, 4, 324, 205), (0, 0, 1, 1), (10, 10, 11, 4000)]);
    // mirrored rectangles (end before start on one or both axes: the y-up idiom pt2(0,h)..pt2(w,0))
    rects.extend([(0, 480, 640, 0), (640, 0, 0, 480), (640, 480, 0, 0), (7, 2, 3, 5), (3, 5, 7, 2), (5, 5, 2, 1), (0, 7, 8, 0), (101, 75, 0, 0)]);
    rep.merge(par_range(cfg, rects.len() as u64, |i, r| { let (l, t, rr, b) = rects[i as usize]; check_viewport(l, t, rr, b, r); }));
    rep.merge(par_range(cfg, 144 * 10 * 2, check_camera));
    rep.merge(par_range(cfg, 4 * 17 * 2, check_camera_range_forms));
    rep.merge(par_range(cfg, 72, check_camera_empty_viewport));
    rep.merge(par_range(cfg, 36, check_camera_viewport_twice));
    // FirstPerson::default() is FirstPerson::new(): same view transform, also after a translate (nothing resets the heading)
    {
        rep.eval();
        let (d, n) = (FirstPerson::default(), FirstPerson::new());
        let same = |a: &FirstPerson, b: &FirstPerson| caught(|| a.world_to_view().0) == caught(|| b.world_to_view().0) && caught(|| a.world_to_view()).is_ok();
        let (mut d2, mut n2) = (d, n);
        d2.translate(vec3(1.0, 2.0, 3.0)); n2.translate(vec3(1.0, 2.0, 3.0));
        if !same(&d, &n) || !same(&d2, &n2) { rep.violation("fp-default|".into(), format!("FirstPerson::default().world_to_view() = {:?} but FirstPerson::new().world_to_view() = {:?}", caught(|| d.world_to_view().0), caught(|| n.world_to_view().0)), obj! {"kind" => "fp-default"}); } else { rep.nontrivial(); }
    }
    rep.merge(par_range(cfg, 54 * 29 * 8 * 6, check_first_person));
    rep.merge(par_range(cfg, 7 * 14 * 2 * 2, check_fp_look_at_scale));
    rep.merge(par_range(cfg, 4 * 7 * 4 * 2, check_fp_translate_small));
    let _: Angle = degs(0.0);
    let _: Option<Point3> = None;
    let _ = <FirstPerson as Mode>::world_to_view;
    rep.sample(0, || obj! {"perspective" => "focal 2, aspect 2.35, near..far 0.01..10, probe (u,v,z) = (1-2e-4, -1.5, far)", "viewport" => vec![3, 4, 324, 205], "camera" => "frame 5x7, requested (3..40, 0..5), focal 1, world point (-1.2,0.9,4)", "first_person" => "pos (-2,0,3.5), az 165, alt 90; look_at straight down; translate (0.5,-2,3)"});
    rep.finish(cfg, "exploration",
        "perspective: 5 focal x 4 aspect x 4 near/far x a 9x9x11 probe lattice in frustum coordinates (inside, on every face, +-2e-4 off, behind the eye): inside iff inside the clip volume, near/far to -1/+1, monotone depth, w = depth; orthographic boxes likewise; viewport: all rectangles with corners in 0..7 plus large/odd ones and rectangles mirrored on one or both axes map the NDC square onto the rectangle; camera: 4 frame sizes x (5 requested rectangles, partly outside the frame | no viewport() call at all = whole frame) x 3 focal ratios x perspective/orthographic x 10 world points (orthographic also with the projection set before the viewport): matrix path vs pinhole pixel/depth, and a rendered half-pixel triangle lights only pixels near the prediction and inside viewport∩frame; first person: 6 operation histories (fresh; after rotate_to; after look_at; after two relative rotations; after translate+look_at; after a near-vertical rotate_to) x 27 positions x (29 azimuths incl. 270, -200, 540, 725 degrees x 8 altitudes incl. +-90 | 16 look-at directions incl. straight up/down and 0.06-6 degrees off vertical x 2 distances): rigid (det +1, orthonormal), position to origin, heading/target onto +z, translate displaces along right / up / horizontal forward. non-trivial = case fully judged with a decisive (non-band) outcome.",
        &["probe bands: 1e-4 relative around frustum faces are exempt", "pinhole model: pixel = centre + focal*W/2 * (x/z, y/z), depth 1/z, as documented for perspective() and viewport()"])
}

fn main() {
    silence_panics();
    let cfg = Cfg::from_args(|s| if s == "algebra" { "C09".into() } else { "C08".into() });
    if cfg.replay.is_some() {
        let gens = generators();
        replay_main(&cfg, |c, r| {
            let i = c.get("i").and_then(|j| j.as_u64()).unwrap_or(0);
            match c.get("kind").and_then(|j| j.as_str()).unwrap_or("") {
                "word" => { let w: Vec<usize> = c.get("word").unwrap().as_arr().unwrap().iter().map(|x| x.as_u64().unwrap() as usize).collect(); check_word(&w, &gens, r) }
                "word-scale" => { let w: Vec<usize> = c.get("word").unwrap().as_arr().unwrap().iter().map(|x| x.as_u64().unwrap() as usize).collect(); check_word_in(&w, &scale_generators(), "word-scale", r) }
                "ctor" => check_constructors(r),
                "persp" => check_perspective(i, r),
                "ortho" => check_ortho(i, r),
                "viewport" => { let v: Vec<u32> = c.get("rect").unwrap().as_arr().unwrap().iter().map(|x| x.as_u64().unwrap() as u32).collect(); check_viewport(v[0], v[1], v[2], v[3], r) }
                "camera" => check_camera(i, r),
                "camera-forms" => check_camera_range_forms(i, r),
                "camera-empty" => check_camera_empty_viewport(i, r),
                "fp-default" => { let (d, n) = (FirstPerson::default(), FirstPerson::new()); if caught(|| d.world_to_view().0) != caught(|| n.world_to_view().0) || caught(|| d.world_to_view()).is_err() { r.violation("fp-default|".into(), "FirstPerson::default() differs from new()".into(), J::Null); } }
                "camera-twice" => check_camera_viewport_twice(i, r),
                "fp" => check_first_person(i, r),
                "fp-scale" => check_fp_look_at_scale(i, r),
                "fp-small" => check_fp_translate_small(i, r),
                k => machinery_error(&format!("unknown replay kind {k}")),
            }
        });
    }
    if cfg.part.starts_with("algebra") { run_algebra(&cfg) } else { run_proj(&cfg) }
}
