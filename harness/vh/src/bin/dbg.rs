use re::util::buf::{Buf2, Slice2, AsSlice2};
use vlib::caught;
fn main() {
    vlib::silence_panics();
    let b = Buf2::<i32>::new_from((4, 4), 0..);
    for (l, t, r, bb) in [(2u32, 0u32, 2u32, 3u32), (0, 2, 3, 2), (4, 0, 4, 4), (0, 4, 4, 4), (4, 4, 4, 4), (1, 1, 1, 1), (0, 0, 0, 0), (4, 1, 4, 2), (1, 4, 2, 4)] {
        let res = caught(|| { let s = b.slice((l..r, t..bb)); (s.width(), s.height()) });
        println!("4x4.slice(({l}..{r}, {t}..{bb})) -> {res:?}");
    }
    for (w, h) in [(0u32, 0u32), (0, 3), (3, 0)] {
        println!("Buf2::new(({w},{h})) -> {:?}", caught(|| Buf2::<i32>::new((w, h)).dims()));
        println!("Slice2::new(({w},{h}), {w}, &[]) -> {:?}", caught(|| Slice2::<i32>::new((w, h), w, &[]).dims()));
        println!("Buf2::new(({w},{h})).as_slice2() -> {:?}", caught(|| Buf2::<i32>::new((w, h)).as_slice2().dims()));
        println!("Buf2::new(({w},{h})).slice(..) -> {:?}", caught(|| { let b = Buf2::<i32>::new((w, h)); let s = b.slice((0..w, 0..h)); s.dims() }));
    }
    let z = b.slice((1..1, 0..4));
    println!("zero-width 0x4 view: slice((0..0, 1..3)) -> {:?}", caught(|| z.slice((0..0, 1..3)).dims()));
    let z = b.slice((0..4, 2..2));
    println!("zero-height 4x0 view: slice((1..3, 0..0)) -> {:?}", caught(|| z.slice((1..3, 0..0)).dims()));
}
