//! C12 — texture samplers: boundary-coordinate lattices (and all 2^32 bit patterns per axis in
//! the thorough tier) against floor/mod/clamp arithmetic in i64/f64.
use re::render::tex::{uv, SamplerClamp, SamplerOnce, SamplerRepeatPot, Texture};
use re::util::buf::Buf2;
use vlib::*;

#[derive(Clone, Copy, Debug, PartialEq)]
enum Kind { Repeat, Clamp, Once }

/// expected texel index along one axis, or None = "any in-range texel, just do not panic"
fn expect_axis(kind: Kind, c: f32, size: u32) -> Option<Option<u32>> {
    // outer None: coordinate outside the sampler's domain (not judged at all)
    match kind {
        Kind::Repeat => {
            if c.is_finite() && c.abs() < 2147483648.0 { Some(Some(((c as f64).floor() as i64).rem_euclid(size as i64) as u32)) } else { Some(None) }
        }
        Kind::Clamp => {
            if c.is_nan() { Some(None) } else { Some(Some((c as f64).clamp(0.0, size as f64 - 1.0).floor() as u32)) }
        }
        Kind::Once => {
            if c >= 0.0 && c < size as f32 { Some(Some(c as u32)) } else { None }
        }
    }
}

struct TexCase<'a> { w: u32, h: u32, ox: u32, oy: u32, borrowed: bool, nested: bool, parent: &'a Buf2<(u32, u32)>, owned: Option<&'a Texture<Buf2<(u32, u32)>>> }

fn sample_one(tc: &TexCase, kind: Kind, rel: bool, u: f32, v: f32, r: &mut Report) {
    let (w, h) = (tc.w, tc.h);
    // absolute coordinates the sampler will see
    let (au, av) = if rel { (w as f32 * u, h as f32 * v) } else { (u, v) };
    let (eu, ev) = match (expect_axis(kind, au, w), expect_axis(kind, av, h)) { (Some(a), Some(b)) => (a, b), _ => return };
    r.eval();
    let run = |r: &mut Report, got: Result<(u32, u32), String>| {
        let case = obj! {"kind" => format!("{kind:?}"), "rel" => rel, "w" => w, "h" => h, "ox" => tc.ox, "oy" => tc.oy, "borrowed" => tc.borrowed, "nested" => tc.nested, "u" => fbits(u), "v" => fbits(v)};
        let cls = |c: f32| if c.is_nan() { "nan" } else if c.is_infinite() { "inf" } else if c < 0.0 && c.fract() == 0.0 { "neg-int" } else if c < 0.0 { "neg" } else if c.fract() == 0.0 { "int" } else { "pos" };
        let key_tail = format!("{kind:?}|{}|{}x{}@{},{}{}|u={u:e}|v={v:e}", if rel { "rel" } else { "abs" }, w, h, tc.ox, tc.oy, if tc.nested { "(nested)" } else { "" });
        match got {
            Err(p) => r.violation(format!("tex-panic|{}|{}|{key_tail}", cls(au), cls(av)), format!("{kind:?} sampler on {w}x{h} texture at ({u:e},{v:e}){} panicked: {p}", if rel { " (relative)" } else { "" }), case),
            Ok((gx, gy)) => {
                // texel values encode parent coordinates
                let (tx, ty) = (gx.wrapping_sub(tc.ox), gy.wrapping_sub(tc.oy));
                let in_range = tx < w && ty < h;
                let ok = in_range && eu.map_or(true, |e| e == tx) && ev.map_or(true, |e| e == ty);
                if !ok {
                    r.violation(format!("tex-addr|{}|{}|{key_tail}", cls(au), cls(av)), format!("{kind:?} sampler on {w}x{h} texture at ({u:e},{v:e}){} -> texel ({tx},{ty}), expected ({eu:?},{ev:?}) (None = any in-range)", if rel { " (relative)" } else { "" }), case);
                } else if au < 0.0 || av < 0.0 || au >= w as f32 || av >= h as f32 { r.nontrivial(); }
            }
        }
    };
    macro_rules! go { ($tex:expr) => {{
        let tex = &$tex;
        let got = match kind {
            Kind::Repeat => { let s = SamplerRepeatPot::new(tex); caught(|| if rel { s.sample(tex, uv(u, v)) } else { s.sample_abs(tex, uv(u, v)) }) }
            Kind::Clamp => caught(|| if rel { SamplerClamp.sample(tex, uv(u, v)) } else { SamplerClamp.sample_abs(tex, uv(u, v)) }),
            Kind::Once => caught(|| if rel { SamplerOnce.sample(tex, uv(u, v)) } else { SamplerOnce.sample_abs(tex, uv(u, v)) }),
        };
        run(r, got);
    }}; }
    if tc.borrowed && tc.nested {
        // a sub-rectangle of a sub-rectangle that is narrower than its parent (atlas page -> sprite)
        let f = if tc.ox >= 1 && tc.oy >= 1 { 1 } else { 0 };
        let page = tc.parent.slice((f..f + 15, f..f + 15));
        go!(Texture::from(page.slice((tc.ox - f..tc.ox - f + w, tc.oy - f..tc.oy - f + h))));
    } else if tc.borrowed {
        go!(Texture::from(tc.parent.slice((tc.ox..tc.ox + w, tc.oy..tc.oy + h))));
    } else if let Some(t) = tc.owned {
        go!(*t);
    } else {
        go!(Texture::from(Buf2::new_with((w, h), |x, y| (x + tc.ox, y + tc.oy))));
    }
}

fn lattice(maxw: u32) -> Vec<f32> {
    let mut v: Vec<f32> = vec![];
    let up = |x: f32| f32::from_bits(if x > 0.0 { x.to_bits() + 1 } else if x < 0.0 { x.to_bits() - 1 } else { 1 });
    let dn = |x: f32| f32::from_bits(if x > 0.0 { x.to_bits() - 1 } else if x < 0.0 { x.to_bits() + 1 } else { 0x8000_0001 });
    for k in -(2 * maxw as i32 + 1)..=(2 * maxw as i32 + 1) { let k = k as f32; v.extend([k, up(k), dn(k), k + 0.5]); }
    for e in 0..=31 { let p = (2.0f32).powi(e); v.extend([p, -p, up(p), dn(p), up(-p), dn(-p)]); }
    v.extend([2147483520.0, -2147483648.0, 0.0, -0.0, 1e-40, -1e-40, f32::MIN_POSITIVE, -f32::MIN_POSITIVE, f32::MAX, f32::MIN, f32::INFINITY, f32::NEG_INFINITY, f32::NAN, 4294967296.0, -4294967296.0, 1e10, -1e10]);
    // relative coordinates: k/size style fractions
    for k in -8..=16 { v.push(k as f32 / 8.0); v.push(k as f32 / 3.0); v.push(k as f32 / 5.0); }
    v.sort_by(|a, b| a.total_cmp(b));
    v.dedup_by(|a, b| a.to_bits() == b.to_bits());
    v
}

fn replay_case(case: &J, r: &mut Report, parent: &Buf2<(u32, u32)>) {
    let g = |k: &str| case.get(k).and_then(|j| j.as_u64()).unwrap_or(0) as u32;
    let kind = match case.get("kind").and_then(|j| j.as_str()).unwrap_or("") { "Repeat" => Kind::Repeat, "Clamp" => Kind::Clamp, _ => Kind::Once };
    let tc = TexCase { w: g("w"), h: g("h"), ox: g("ox"), oy: g("oy"), borrowed: case.get("borrowed") == Some(&J::Bool(true)), nested: case.get("nested") == Some(&J::Bool(true)), parent, owned: None };
    sample_one(&tc, kind, case.get("rel") == Some(&J::Bool(true)), parse_fbits(case.get("u").unwrap()).unwrap(), parse_fbits(case.get("v").unwrap()).unwrap(), r);
}

fn main() {
    silence_panics();
    let cfg = Cfg::from_args(|_| "C12".into());
    let parent: Buf2<(u32, u32)> = Buf2::new_with((16, 16), |x, y| (x, y));
    if cfg.replay.is_some() { replay_main(&cfg, |c, r| replay_case(c, r, &parent)); }
    let quick = cfg.quick();
    let mut rep = Report::new();
    let pot: Vec<u32> = vec![1, 2, 4, 8, 16];
    let any: Vec<u32> = vec![1, 2, 3, 5, 8];
    let mut lat = lattice(16);
    for big in [255.0f32, 256.0, 257.0, 299.0, 300.0, 301.0, 511.0, 512.0, 513.0, 1023.0, 1024.0, 1025.0, 65535.0, 65536.0] { for d in [0.0f32, 0.5, -1.0] { lat.push(big + d); lat.push(-(big + d)); } }
    lat.sort_by(|a, b| a.total_cmp(b)); lat.dedup_by(|a, b| a.to_bits() == b.to_bits());
    let n = lat.len() as u64;
    rep.set("axis_lattice_size", n);
    // texture cases: (kind, w, h, offset, borrowed)
    let mut cases: Vec<(Kind, u32, u32, u32, u32, bool, bool)> = vec![];
    for kind in [Kind::Repeat, Kind::Clamp, Kind::Once] {
        let sizes = if kind == Kind::Repeat { &pot } else { &any };
        for &w in sizes { for &h in sizes {
            if quick && w != h && !(w == sizes[1] || h == sizes[0] || (w, h) == (sizes[3], sizes[2])) { continue; }
            cases.push((kind, w, h, 0, 0, false, false));
            let offs: Vec<(u32, u32)> = if quick { vec![(1, 3), (16 - w, 16 - h)] } else { vec![(0, 0), (1, 3), (16 - w, 16 - h), (16 - w, 0), (7.min(16 - w), 5.min(16 - h))] };
            for (ox, oy) in offs { let (ox, oy) = (ox.min(16 - w), oy.min(16 - h)); cases.push((kind, w, h, ox, oy, true, false)); if (ox >= 1 && oy >= 1) || (ox + w <= 15 && oy + h <= 15) { cases.push((kind, w, h, ox, oy, true, true)); } }
        }}
    }
    // scale sentinels: sizes beyond 255 (repeat: powers of two; clamp/once: arbitrary); owned only (parent is 16x16)
    for (kind, w, h) in [(Kind::Repeat, 256u32, 2u32), (Kind::Repeat, 2, 1024), (Kind::Repeat, 512, 512), (Kind::Clamp, 300, 2), (Kind::Clamp, 3, 257), (Kind::Once, 300, 3), (Kind::Repeat, 32, 64), (Kind::Repeat, 128, 32), (Kind::Clamp, 33, 17), (Kind::Once, 100, 47), (Kind::Clamp, 1000, 3), (Kind::Clamp, 1001, 2), (Kind::Repeat, 131072, 1), (Kind::Repeat, 2, 131072), (Kind::Repeat, 262144, 2), (Kind::Clamp, 70000, 1)] { cases.push((kind, w, h, 0, 0, false, false)); }
    cases.dedup();
    rep.set("texture_cases", cases.len() as u64);
    let nc = cases.len() as u64;
    // owned textures are built once per case
    let owned: Vec<Option<Texture<Buf2<(u32, u32)>>>> = cases.iter().map(|&(_, w, h, ox, oy, b, _)| if b { None } else { Some(Texture::from(Buf2::new_with((w, h), |x, y| (x + ox, y + oy)))) }).collect();
    // full u x v lattice product per case (absolute), and a thinner product for relative entry points
    rep.merge(par_range(&cfg, nc * n * n, |i, r| {
        let (kind, w, h, ox, oy, borrowed, nested) = cases[(i / (n * n)) as usize];
        let (u, v) = (lat[(i % n) as usize], lat[(i / n % n) as usize]);
        let tc = TexCase { w, h, ox, oy, borrowed, nested, parent: &parent, owned: owned[(i / (n * n)) as usize].as_ref() };
        sample_one(&tc, kind, false, u, v, r);
        if (i % n + i / n % n) % 3 == 0 || (u.abs() <= 2.0 && v.abs() <= 2.0) { sample_one(&tc, kind, true, u, v, r); }
    }));
    // one axis over the first, middle and last 16 floats of every binade (both signs, 2^-3 .. 2^34), the other over a few
    // values, every case and both entry points (the thorough tier below sweeps all 2^32 patterns for six textures)
    {
        let mut bl: Vec<f32> = vec![];
        for e in -3..34 { let (lo, mid, hi) = ((2.0f32).powi(e).to_bits(), ((2.0f32).powi(e) * 1.5).to_bits(), (2.0f32).powi(e + 1).to_bits()); for k in 0..16u32 { for b in [lo + k, mid + k, mid - 1 - k, hi - 1 - k] { let x = f32::from_bits(b); bl.push(x); bl.push(-x); } } }
        let others = [0.5f32, -0.5, 2.0, -3.0];
        let (nb, no) = (bl.len() as u64, others.len() as u64);
        rep.set("binade_axis_values", nb);
        rep.merge(par_range(&cfg, nc * nb * no * 2, |i, r| {
            let ci = (i / (nb * no * 2)) as usize;
            let (kind, w, h, ox, oy, borrowed, nested) = cases[ci];
            let (c, o, swap) = (bl[(i % nb) as usize], others[(i / nb % no) as usize], i / (nb * no) % 2 == 1);
            let tc = TexCase { w, h, ox, oy, borrowed, nested, parent: &parent, owned: owned[ci].as_ref() };
            let (u, v) = if swap { (o, c) } else { (c, o) };
            sample_one(&tc, kind, false, u, v, r);
            if i % 4 == 0 { sample_one(&tc, kind, true, u, v, r); }
        }));
    }
    // huge textures (8-bit texels, value = linear index mod 251): 2^25 texels along one axis - beyond the 2^24 integers f32
    // counts exactly - for all three samplers, and widths f32 cannot represent (2^24 + 1, 2^24 + 3) for clamp and once
    {
        use re::util::buf::Slice2;
        let data: Vec<u8> = (0..(1u32 << 25) + 8).map(|i| (i % 251) as u8).collect();
        let shapes: Vec<(Kind, u32, u32)> = vec![(Kind::Repeat, 1 << 25, 1), (Kind::Repeat, 1, 1 << 25), (Kind::Clamp, 1 << 25, 1), (Kind::Once, 1 << 25, 1), (Kind::Clamp, 16777217, 1), (Kind::Clamp, 16777219, 2), (Kind::Clamp, 1, 16777219), (Kind::Once, 16777219, 1)];
        let cs: Vec<f32> = vec![0.0, 0.5, 1.0, 1000.5, 8388607.5, 16777215.0, 16777216.0, 16777218.0, 16777220.0, 33554430.0, 33554432.0, 33554434.0, 5e7, 1e9, 2147483520.0, -1.0, -2.0, -0.5, -33554432.0, -33554434.0, -1e9, f32::INFINITY, f32::NEG_INFINITY, f32::NAN, f32::MAX];
        let nc = cs.len() as u64;
        rep.merge(par_range(&cfg, shapes.len() as u64 * nc * 2, |i, r| {
            let (kind, w, h) = shapes[(i / (nc * 2)) as usize];
            let (c, other) = (cs[(i % nc) as usize], [0.5f32, 1.5][(i / nc % 2) as usize]);
            let along_x = w > h;
            let (u, v) = if along_x { (c, other) } else { (other, c) };
            let (eu, ev) = match (expect_axis(kind, u, w), expect_axis(kind, v, h)) { (Some(a), Some(b)) => (a, b), _ => return };
            r.eval();
            let tex = Texture::from(Slice2::new((w, h), w, &data[..(w as usize * h as usize).min(data.len())]));
            let got = match kind {
                Kind::Repeat => { let s = SamplerRepeatPot::new(&tex); caught(|| s.sample_abs(&tex, uv(u, v))) }
                Kind::Clamp => caught(|| SamplerClamp.sample_abs(&tex, uv(u, v))),
                Kind::Once => caught(|| SamplerOnce.sample_abs(&tex, uv(u, v))),
            };
            let case = obj! {"kind" => "huge", "sampler" => format!("{kind:?}"), "w" => w, "h" => h, "u" => fbits(u), "v" => fbits(v)};
            let tag = format!("{kind:?}|{w}x{h}|u={u:e}|v={v:e}");
            match got {
                Err(p) => r.violation(format!("tex-panic|huge|{tag}"), format!("{kind:?} sampler on a {w}x{h} texture at ({u:e},{v:e}) panicked: {p}"), case),
                Ok(t) => {
                    // expected texel value where both axes are determined
                    if let (Some(x), Some(y)) = (eu, ev) { let want = ((y as u64 * w as u64 + x as u64) % 251) as u8; if t != want { r.violation(format!("tex-addr|huge|{tag}"), format!("{kind:?} sampler on a {w}x{h} texture at ({u:e},{v:e}) returned the texel value {t}, texel ({x},{y}) holds {want}"), case); } else { r.nontrivial(); } }
                }
            }
        }));
    }
    if !quick {
        // all 2^32 bit patterns on one axis, other axis fixed
        let big: Vec<(Kind, u32, u32)> = vec![(Kind::Repeat, 4, 2), (Kind::Repeat, 1, 1), (Kind::Repeat, 16, 8), (Kind::Clamp, 3, 5), (Kind::Clamp, 1, 1), (Kind::Once, 5, 3)];
        for (kind, w, h) in big {
            let tex = Texture::from(Buf2::new_with((w, h), |x, y| (x, y)));
            let s = if kind == Kind::Repeat { Some(SamplerRepeatPot::new(&tex)) } else { None };
            rep.merge(par_range(&cfg, 1u64 << 32, |i, r| {
                let c = f32::from_bits(i as u32);
                for (axis, other) in [(0, 0.5f32), (0, -0.5), (1, 0.5), (1, h as f32 - 0.5)] {
                    let (u, v) = if axis == 0 { (c, other) } else { (other.max(-0.5).min(w as f32 - 0.5), c) };
                    let (eu, ev) = match (expect_axis(kind, u, w), expect_axis(kind, v, h)) { (Some(a), Some(b)) => (a, b), _ => continue };
                    r.eval();
                    let got = match kind {
                        Kind::Repeat => caught(|| s.as_ref().unwrap().sample_abs(&tex, uv(u, v))),
                        Kind::Clamp => caught(|| SamplerClamp.sample_abs(&tex, uv(u, v))),
                        Kind::Once => caught(|| SamplerOnce.sample_abs(&tex, uv(u, v))),
                    };
                    let ok = matches!(&got, Ok((tx, ty)) if *tx < w && *ty < h && eu.map_or(true, |e| e == *tx) && ev.map_or(true, |e| e == *ty));
                    if !ok {
                        r.violation(format!("tex-addr|sweep|{kind:?}|{w}x{h}|u={u:e}|v={v:e}"), format!("{kind:?} sampler on {w}x{h} at ({u:e},{v:e}) -> {got:?}, expected ({eu:?},{ev:?})"),
                            obj! {"kind" => format!("{kind:?}"), "rel" => false, "w" => w, "h" => h, "ox" => 0u32, "oy" => 0u32, "borrowed" => false, "u" => fbits(u), "v" => fbits(v)});
                    } else if c < 0.0 { r.nontrivial(); }
                }
            }));
        }
    }
    // the repeating sampler must refuse non-power-of-two textures (constructor contract), sanity only
    rep.sample(0, || obj! {"sampler" => "Repeat", "texture" => "4x2 borrowed at (12,14) of 16x16", "uv" => vec![-4.0f32, 2147483520.0]});
    rep.sample(1, || obj! {"sampler" => "Clamp", "texture" => "3x5 owned", "uv" => "NaN, +inf"});
    rep.finish(&cfg, "exploration",
        "textures: sizes {1,2,4,8,16}^2 (repeat) / {1,2,3,5,8}^2 (clamp, once), owned and borrowed sub-rectangles (one level, and nested inside a 15x15 page) of a 16x16 parent whose texels encode their own coordinates; scale sentinels up to 262144 texels per axis; per-axis coordinate lattice (every integer k in [-33,33] with k+-ulp and k+1/2, +-2^e with neighbours for e<=31, 2^31-128, -2^31, +-0, subnormals, f32::MAX/MIN, +-inf, NaN, fractions k/8,k/3,k/5) - full u x v product for the absolute entry point and a stated subset for the relative one; thorough adds all 2^32 bit patterns on one axis for six textures. Oracle: floor/mod/clamp in i64/f64; non-finite or |c|>=2^31 => any in-range texel, no panic. non-trivial = coordinate outside [0,size).",
        &["relative entry points are compared with the absolute oracle applied to the f32 product size*coordinate", "SamplerOnce is only judged for 0 <= c < size (its documented domain)"]);
}
