//! C19 — xorshift64 generator and distributions: every mantissa / low word a sample can consume,
//! GF(2)-solved states for multi-component distributions, bounded orbit exploration.
use re::math::rand::*;
use re::math::{pt2, pt3, vec2, vec3, Point2, Point3, Vec2, Vec3};
use vlib::*;

fn step(s: u64) -> u64 { Xorshift64(s).next_bits() }

fn undo_shl(y: u64, k: u32) -> u64 { let mut x = y; for _ in 0..64 / k + 1 { x = y ^ (x << k); } x }
fn undo_shr(y: u64, k: u32) -> u64 { let mut x = y; for _ in 0..64 / k + 1 { x = y ^ (x >> k); } x }
/// harness-side inverse of the step (x^=x<<13; x^=x>>7; x^=x<<17); validated against the real step.
fn unstep(y: u64) -> u64 { undo_shl(undo_shr(undo_shl(y, 17), 7), 13) }

fn state_for_output(y: u64) -> u64 {
    let s = unstep(y);
    if step(s) != y { machinery_error(&format!("unstep({y:#x}) = {s:#x} does not step back (the step function is no longer the xorshift the harness inverts; bijectivity evidence lost)")); }
    s
}

// ---------------- GF(2) linear algebra over the real step ----------------
/// rows[i] = bitmask of state bits that output bit i depends on, for `steps` applications.
fn output_rows(steps: u32) -> [u64; 64] {
    let mut cols = [0u64; 64];
    for j in 0..64 { let mut s = 1u64 << j; for _ in 0..steps { s = step(s); } cols[j] = s; }
    let mut rows = [0u64; 64];
    for i in 0..64 { for j in 0..64 { if cols[j] >> i & 1 == 1 { rows[i] |= 1 << j; } } }
    rows
}

/// Solve A s = b over GF(2). Returns (particular-solution map as closure data, nullspace basis).
struct Solver { piv_rows: Vec<(u64, Vec<usize>)>, piv_col: Vec<usize>, null: Vec<u64>, neq: usize }
impl Solver {
    /// eqs: list of row masks. Builds reduced echelon form tracking combinations.
    fn new(eqs: &[u64]) -> Solver {
        let n = eqs.len();
        // each row: (mask, combination of original equation indices as bitset over up to 128 eqs)
        let mut rows: Vec<(u64, u128)> = eqs.iter().enumerate().map(|(i, &m)| (m, 1u128 << i)).collect();
        let mut piv_col = vec![];
        let mut r = 0;
        for c in 0..64 {
            if let Some(p) = (r..n).find(|&i| rows[i].0 >> c & 1 == 1) {
                rows.swap(r, p);
                for i in 0..n { if i != r && rows[i].0 >> c & 1 == 1 { let (m, k) = rows[r]; rows[i].0 ^= m; rows[i].1 ^= k; } }
                piv_col.push(c);
                r += 1;
            }
        }
        if r != n { machinery_error(&format!("GF(2) system rank {r} < {n} equations")); }
        let piv_rows = rows.iter().map(|(m, k)| (*m, (0..n).filter(|i| k >> i & 1 == 1).collect())).collect();
        // nullspace: free columns
        let free: Vec<usize> = (0..64).filter(|c| !piv_col.contains(c)).collect();
        let mut null = vec![];
        for &f in &free {
            let mut v = 1u64 << f;
            for (ri, (m, _)) in rows.iter().enumerate() { if m >> f & 1 == 1 { v |= 1 << piv_col[ri]; } }
            null.push(v);
        }
        Solver { piv_rows, piv_col, null, neq: n }
    }
    fn solve(&self, b: u128) -> u64 {
        let mut s = 0u64;
        for (ri, (_, comb)) in self.piv_rows.iter().enumerate() {
            let mut bit = 0;
            for &i in comb { bit ^= (b >> i & 1) as u64; }
            s |= bit << self.piv_col[ri];
        }
        s
    }
}

fn mantissa_of(y: u64) -> u32 { (y >> 41) as u32 }

fn check_f32(m: u32, r: &mut Report, ranges: &[(f32, f32)]) {
    let y = ((m as u64) << 41) | ((m as u64).wrapping_mul(0x9E37_79B9) & ((1 << 41) - 1)) | 1;
    let s = state_for_output(y);
    for &(a, b) in ranges {
        r.eval();
        let mut g = Xorshift64(s);
        let v = Uniform(a..b).sample(&mut g);
        if g.0 != y { machinery_error("sample consumed other than one step"); }
        if !(v >= a && v < b) {
            let side = if v >= b { "at-or-above-end" } else { "below-start" };
            r.violation(format!("uniform-f32-range|{side}|{a}..{b}|m={m:#x}"), format!("Uniform({a}..{b}) with mantissa {m:#x} (state {s:#x}) returned {v}"), obj! {"kind" => "f32", "m" => m, "a" => fbits(a), "b" => fbits(b)});
        } else if m == 0 || m == 0x7FFFFF { r.nontrivial(); }
        // the iterator entry point draws the same value (boundary mantissas and a thinned interior)
        if m < 64 || m > 0x7FFFFF - 64 || m % 4099 == 0 {
            let it = Uniform(a..b).samples(&mut Xorshift64(s)).next();
            if it != Some(v) { r.violation(format!("uniform-f32-samples|{a}..{b}|m={m:#x}"), format!("Uniform({a}..{b}).samples() yields {it:?} first, sample() returns {v} from the same state {s:#x}"), obj! {"kind" => "f32", "m" => m, "a" => fbits(a), "b" => fbits(b)}); }
        }
    }
}

/// Boundary values of the raw 64-bit output: all ones, single bits, runs of ones from either end, and their complements.
fn special_outputs() -> Vec<u64> {
    let mut v = vec![u64::MAX, 1, u64::MAX - 1, 1 << 63, (1 << 63) - 1, (1 << 41) - 1, 1 << 41, !((1u64 << 41) - 1), 0x8000_0000, 0x7FFF_FFFF, 0xFFFF_FFFF, 0x1_0000_0000];
    for k in 0..64 { v.push(1 << k); v.push(!(1u64 << k)); v.push(u64::MAX >> k); v.push(u64::MAX << k); }
    // both 32-bit halves (and all four 16-bit quarters) on boundary words: samplers that split one draw into several coordinates
    let h: [u64; 8] = [0, 1, 0x7FFF_FFFF, 0x8000_0000, 0x8000_0001, 0xFFFF_FFFF, 0x4000_0000, 0xC000_0000];
    for a in h { for b in h { v.push(a << 32 | b); } }
    let q: [u64; 5] = [0, 1, 0x7FFF, 0x8000, 0xFFFF];
    for a in q { for b in q { for c in q { for d in q { v.push(a << 48 | b << 32 | c << 16 | d); } } } }
    v.retain(|x| *x != 0);
    v.sort(); v.dedup();
    v
}

fn check_bernoulli(m: u32, r: &mut Report) {
    let y = ((m as u64) << 41) | 0x1234567;
    check_bernoulli_out(y, r)
}
fn check_bernoulli_out(y: u64, r: &mut Report) {
    let m = mantissa_of(y);
    let s = state_for_output(y);
    for p in [-1.0f32, 0.0, -0.0, 1e-9, 0.5, 1.0, 2.0, f32::INFINITY, f32::NEG_INFINITY] {
        r.eval();
        let got = Bernoulli(p).sample(&mut Xorshift64(s));
        let bad = (p <= 0.0 && got) || (p >= 1.0 && !got);
        if bad { r.violation(format!("bernoulli|p={p}|out={y:#x}"), format!("Bernoulli({p}) on generator output {y:#x} (mantissa {m:#x}) returned {got}"), obj! {"kind" => "bernout", "y" => format!("{y:#x}")}); }
        else if p > 0.0 && p < 1.0 { r.nontrivial(); }
    }
}

/// every scalar distribution on a boundary raw output
fn check_raw_out(y: u64, r: &mut Report) {
    check_bernoulli_out(y, r);
    let s = state_for_output(y);
    for (a, b) in [(0.0f32, 1.0f32), (-1.0, 1.0), (1000.0, 1001.0), (-5.0, -4.999), (0.1, 0.3), (255.0, 256.0)] {
        r.eval();
        let v = Uniform(a..b).sample(&mut Xorshift64(s));
        if !(v >= a && v < b) { r.violation(format!("uniform-f32-range|raw-output|{a}..{b}|out={y:#x}"), format!("Uniform({a}..{b}) on generator output {y:#x} returned {v}"), obj! {"kind" => "rawout", "y" => format!("{y:#x}")}); }
    }
    for (a, b) in [(1i32, 7i32), (-123, 456), (0, 1), (i32::MIN, i32::MIN + 3), (0, i32::MAX), (i32::MIN, -1), (i32::MAX - 2, i32::MAX)] {
        r.eval();
        match caught(|| Uniform(a..b).sample(&mut Xorshift64(s))) {
            Ok(v) if v >= a && v < b => {}
            other => r.violation(format!("uniform-i32-range|raw-output|{a}..{b}|out={y:#x}"), format!("Uniform({a}..{b}) on generator output {y:#x} gave {other:?}"), obj! {"kind" => "rawout", "y" => format!("{y:#x}")}),
        }
    }
}

fn check_i32(lo: u32, r: &mut Report, ranges: &[(i32, i32)]) {
    let y = ((lo as u64).wrapping_mul(0x9E3779B97F4A7C15) & 0xFFFF_FFFF_0000_0000) | lo as u64;
    let s = state_for_output(y);
    for &(a, b) in ranges {
        r.eval();
        match caught(|| Uniform(a..b).sample(&mut Xorshift64(s))) {
            Ok(v) if v >= a && v < b => { if lo as i32 <= 0 { r.nontrivial(); } }
            Ok(v) => r.violation(format!("uniform-i32-range|{a}..{b}|lo={lo:#x}"), format!("Uniform({a}..{b}) with low word {lo:#x} returned {v}"), obj! {"kind" => "i32", "lo" => lo, "a" => a, "b" => b}),
            Err(p) => r.violation(format!("uniform-i32-panic|{a}..{b}|lo={lo:#x}"), format!("Uniform({a}..{b}) with low word {lo:#x} panicked: {p}"), obj! {"kind" => "i32", "lo" => lo, "a" => a, "b" => b}),
        }
    }
}

const BM: [u32; 8] = [0, 1, 0x3FFFFF, 0x400000, 0x400001, 0x7FFFFF, 0x200000, 0x600000];

fn check_2d(s: u64, r: &mut Report, tag: &str) {
    if s == 0 { return; }
    r.eval();
    let case = || obj! {"kind" => "state2d", "s" => format!("{s:#x}")};
    let m = (mantissa_of(step(s)), mantissa_of(step(step(s))));
    match caught(|| UnitCircle.sample(&mut Xorshift64(s))) {
        Ok(v) => {
            let l = ((v.x() as f64).powi(2) + (v.y() as f64).powi(2)).sqrt();
            if !((l - 1.0).abs() <= 1e-3) { r.violation(format!("unit-circle-length|{tag}|m={:#x},{:#x}|s={s:#x}", m.0, m.1), format!("UnitCircle from state {s:#x} (mantissas {m:x?}) returned {v:?} of length {l}"), case()); } else { r.nontrivial(); }
        }
        Err(p) => r.violation(format!("unit-circle-panic|{tag}|m={:#x},{:#x}|s={s:#x}", m.0, m.1), format!("UnitCircle from state {s:#x} (mantissas {m:x?}) panicked: {p}"), case()),
    }
    let (v, p): (Vec2, Point2) = match caught(|| (VectorsOnUnitDisk.sample(&mut Xorshift64(s)), PointsOnUnitDisk.sample(&mut Xorshift64(s)))) { Ok(x) => x, Err(e) => { r.violation(format!("unit-disk-panic|{tag}|s={s:#x}"), format!("disk sampler from state {s:#x} panicked: {e}"), case()); return; } };
    let l2 = (v.x() as f64).powi(2) + (v.y() as f64).powi(2);
    if !(l2 <= 1.0 + 2.5e-7) || p.x() != v.x() || p.y() != v.y() {
        r.violation(format!("unit-disk|{tag}|s={s:#x}"), format!("VectorsOnUnitDisk from {s:#x} returned {v:?} (|v|^2={l2}), PointsOnUnitDisk {p:?}"), case());
    }
}

fn check_3d(s: u64, r: &mut Report, tag: &str) {
    if s == 0 { return; }
    r.eval();
    let case = || obj! {"kind" => "state3d", "s" => format!("{s:#x}")};
    let m = (mantissa_of(step(s)), mantissa_of(step(step(s))), mantissa_of(step(step(step(s)))));
    match caught(|| UnitSphere.sample(&mut Xorshift64(s))) {
        Ok(v) => {
            let l = ((v.x() as f64).powi(2) + (v.y() as f64).powi(2) + (v.z() as f64).powi(2)).sqrt();
            if !((l - 1.0).abs() <= 1e-3) { r.violation(format!("unit-sphere-length|{tag}|m={m:x?}|s={s:#x}"), format!("UnitSphere from state {s:#x} (mantissas {m:x?}) returned {v:?} of length {l}"), case()); } else { r.nontrivial(); }
        }
        Err(p) => r.violation(format!("unit-sphere-panic|{tag}|m={m:x?}|s={s:#x}"), format!("UnitSphere from state {s:#x} (mantissas {m:x?}) panicked: {p}"), case()),
    }
    let (v, p): (Vec3, Point3) = match caught(|| (VectorsInUnitBall.sample(&mut Xorshift64(s)), PointsInUnitBall.sample(&mut Xorshift64(s)))) { Ok(x) => x, Err(e) => { r.violation(format!("unit-ball-panic|{tag}|s={s:#x}"), format!("ball sampler from state {s:#x} panicked: {e}"), case()); return; } };
    let l2 = (v.x() as f64).powi(2) + (v.y() as f64).powi(2) + (v.z() as f64).powi(2);
    if !(l2 <= 1.0 + 2.5e-7) || p.x() != v.x() || p.y() != v.y() || p.z() != v.z() {
        r.violation(format!("unit-ball|{tag}|s={s:#x}"), format!("VectorsInUnitBall from {s:#x} returned {v:?} (|v|^2={l2}), PointsInUnitBall {p:?}"), case());
    }
}

/// composite distributions draw components independently, in order
fn check_composite(s: u64, r: &mut Report) {
    // (a panicking sampler is a violation, not a harness crash)
    let mut inner = Report::new();
    match caught(std::panic::AssertUnwindSafe(|| check_composite_inner(s, &mut inner))) { Ok(()) => r.merge(inner), Err(e) => { r.eval(); r.violation(format!("composite-panic|s={s:#x}"), format!("a composite distribution panicked from state {s:#x}: {e}"), obj! {"kind" => "composite", "s" => format!("{s:#x}")}); } }
}
fn check_composite_inner(s: u64, r: &mut Report) {
    r.eval();
    let mut g = Xorshift64(s);
    let a = Uniform([-1.0f32, 2.0, 10.0]..[1.0, 3.0, 20.0]).sample(&mut g);
    let mut h = Xorshift64(s);
    let e = [Uniform(-1.0f32..1.0).sample(&mut h), Uniform(2.0f32..3.0).sample(&mut h), Uniform(10.0f32..20.0).sample(&mut h)];
    let mut ok = a == e && g.0 == h.0;
    let v3: Vec3 = Uniform(vec3(-1.0, 2.0, 10.0)..vec3(1.0, 3.0, 20.0)).sample(&mut Xorshift64(s));
    let p3: Point3 = Uniform(pt3(-1.0, 2.0, 10.0)..pt3(1.0, 3.0, 20.0)).sample(&mut Xorshift64(s));
    let v2: Vec2 = Uniform(vec2(-1.0, 2.0)..vec2(1.0, 3.0)).sample(&mut Xorshift64(s));
    let p2: Point2 = Uniform(pt2(-1.0, 2.0)..pt2(1.0, 3.0)).sample(&mut Xorshift64(s));
    ok &= v3.0 == e && p3.0 == e && v2.0 == [e[0], e[1]] && p2.0 == [e[0], e[1]];
    // ranges far from zero (the last rounding step can reach the excluded end there): every composite type must give the
    // scalar draws, and every component must lie in its half-open range
    let (lo, hi) = ([1000.0f32, 1e6, -5.0], [1001.0f32, 1e6 + 1.0, -4.999]);
    let mut h5 = Xorshift64(s);
    let eo = [Uniform(lo[0]..hi[0]).sample(&mut h5), Uniform(lo[1]..hi[1]).sample(&mut h5), Uniform(lo[2]..hi[2]).sample(&mut h5)];
    let ao = Uniform(lo..hi).sample(&mut Xorshift64(s));
    let vo: Vec3 = Uniform(vec3(lo[0], lo[1], lo[2])..vec3(hi[0], hi[1], hi[2])).sample(&mut Xorshift64(s));
    let po: Point3 = Uniform(pt3(lo[0], lo[1], lo[2])..pt3(hi[0], hi[1], hi[2])).sample(&mut Xorshift64(s));
    let po2: Point2 = Uniform(pt2(lo[0], lo[2])..pt2(hi[0], hi[2])).sample(&mut Xorshift64(s));
    let in_rng = |v: &[f32], l: &[f32], h: &[f32]| v.iter().zip(l.iter().zip(h)).all(|(x, (a, b))| x >= a && x < b);
    if ao != eo || vo.0 != eo || po.0 != eo || !in_rng(&po.0, &lo, &hi) || !in_rng(&vo.0, &lo, &hi) || !in_rng(&po2.0, &[lo[0], lo[2]], &[hi[0], hi[2]]) {
        r.violation(format!("composite-offset-range|s={s:#x}"), format!("ranges {lo:?}..{hi:?} from state {s:#x}: scalars {eo:?}, array {ao:?}, vector {:?}, point {:?}, point2 {:?}", vo.0, po.0, po2.0), obj! {"kind" => "composite", "s" => format!("{s:#x}")});
        return;
    }
    let ia = Uniform([0i32, -5]..[10, 5]).sample(&mut Xorshift64(s));
    let mut h2 = Xorshift64(s);
    let ie = [Uniform(0..10).sample(&mut h2), Uniform(-5..5).sample(&mut h2)];
    ok &= ia == ie;
    let t = (Uniform(0..10), Bernoulli(0.5)).sample(&mut Xorshift64(s));
    let mut h3 = Xorshift64(s);
    let te = (Uniform(0..10).sample(&mut h3), Bernoulli(0.5).sample(&mut h3));
    ok &= t == te;
    let it: Vec<i32> = Uniform(0..10).samples(&mut Xorshift64(s)).take(3).collect();
    let mut h4 = Xorshift64(s);
    let ite: Vec<i32> = (0..3).map(|_| Uniform(0..10).sample(&mut h4)).collect();
    ok &= it == ite;
    // samples() of every other distribution starts with what sample() returns from the same state
    ok &= Bernoulli(0.5).samples(&mut Xorshift64(s)).next() == Some(Bernoulli(0.5).sample(&mut Xorshift64(s)));
    ok &= UnitCircle.samples(&mut Xorshift64(s)).next().map(|v| v.0) == Some(UnitCircle.sample(&mut Xorshift64(s)).0);
    ok &= VectorsOnUnitDisk.samples(&mut Xorshift64(s)).next().map(|v| v.0) == Some(VectorsOnUnitDisk.sample(&mut Xorshift64(s)).0);
    ok &= UnitSphere.samples(&mut Xorshift64(s)).next().map(|v| v.0) == Some(UnitSphere.sample(&mut Xorshift64(s)).0);
    ok &= VectorsInUnitBall.samples(&mut Xorshift64(s)).next().map(|v| v.0) == Some(VectorsInUnitBall.sample(&mut Xorshift64(s)).0);
    ok &= Uniform([1000.0f32, -5.0]..[1001.0, -4.999]).samples(&mut Xorshift64(s)).next() == Some(Uniform([1000.0f32, -5.0]..[1001.0, -4.999]).sample(&mut Xorshift64(s)));
    // ... and whichever way the iterator is consumed (nth, skip, step_by, last of take), sample k is what k+1 calls of
    // sample() give - for distributions that use several draws per sample, or a varying number of them
    {
        macro_rules! seq { ($d:expr) => {{
            let manual: Vec<_> = { let mut g = Xorshift64(s); (0..5).map(|_| $d.sample(&mut g)).collect() };
            let a = $d.samples(&mut Xorshift64(s)).nth(2);
            let b = $d.samples(&mut Xorshift64(s)).skip(1).next();
            let c: Vec<_> = $d.samples(&mut Xorshift64(s)).step_by(2).take(3).collect();
            let d = $d.samples(&mut Xorshift64(s)).take(4).last();
            a == Some(manual[2].clone()) && b == Some(manual[1].clone()) && c == vec![manual[0].clone(), manual[2].clone(), manual[4].clone()] && d == Some(manual[3].clone())
        }}; }
        // the iterator draws from the caller's generator: afterwards it stands where the same number of sample() calls leave it
        macro_rules! adv { ($d:expr) => {{
            let mut g = Xorshift64(s); for _ in 0..3 { $d.sample(&mut g); }
            let mut h = Xorshift64(s); let n = $d.samples(&mut h).take(3).count();
            let next_ok = $d.sample(&mut h) == $d.sample(&mut g);
            n == 3 && next_ok && h.0 == g.0
        }}; }
        if !(adv!(Uniform(0..10)) && adv!(Uniform(-1.0f32..1.0)) && adv!(Bernoulli(0.5)) && adv!(Uniform([-1.0f32, 2.0]..[1.0, 3.0])) && adv!(UnitCircle) && adv!(VectorsInUnitBall)) {
            r.violation(format!("samples-generator|s={s:#x}"), format!("after samples().take(3) from state {s:#x} the generator is not in the state three sample() calls leave it in"), obj! {"kind" => "composite", "s" => format!("{s:#x}")}); return;
        }
        let okn = seq!(Uniform([-1.0f32, 2.0, 10.0]..[1.0, 3.0, 20.0])) && seq!(Uniform(0..10)) && seq!(Uniform(-1.0f32..1.0)) && seq!(Bernoulli(0.5)) && seq!((Uniform(0..10), Bernoulli(0.5)))
            && seq!(Uniform(vec3::<f32, ()>(-1.0, 2.0, 10.0)..vec3(1.0, 3.0, 20.0))) && seq!(Uniform(pt2::<f32, ()>(-1.0, 2.0)..pt2(1.0, 3.0))) && seq!(UnitCircle) && seq!(VectorsOnUnitDisk) && seq!(UnitSphere) && seq!(VectorsInUnitBall) && seq!(PointsInUnitBall) && seq!(PointsOnUnitDisk);
        if !okn { r.violation(format!("samples-iterator|s={s:#x}"), format!("samples() consumed through nth / skip / step_by / take(..).last() from state {s:#x} does not yield the values of repeated sample() calls"), obj! {"kind" => "composite", "s" => format!("{s:#x}")}); return; }
    }
    if !ok { r.violation(format!("composite|s={s:#x}"), format!("array/vector/point/tuple/iterator draw differs from scalar draws in order from state {s:#x}: array {a:?} vs {e:?}, ints {ia:?} vs {ie:?}, tuple {t:?} vs {te:?}"), obj! {"kind" => "composite", "s" => format!("{s:#x}")}); } else { r.nontrivial(); }
}

fn gf2_mul(a: &[u64; 64], b: &[u64; 64]) -> [u64; 64] {
    // rows representation: (a*b) row i = XOR of b rows j where a[i] bit j set  (apply b first? we only use powers of one matrix)
    let mut c = [0u64; 64];
    for i in 0..64 { let mut acc = 0; let mut m = a[i]; while m != 0 { let j = m.trailing_zeros(); acc ^= b[j as usize]; m &= m - 1; } c[i] = acc; }
    c
}
fn gf2_pow(t: &[u64; 64], mut e: u128) -> [u64; 64] {
    let mut id = [0u64; 64]; for i in 0..64 { id[i] = 1 << i; }
    let mut acc = id; let mut base = *t;
    while e > 0 { if e & 1 == 1 { acc = gf2_mul(&acc, &base); } base = gf2_mul(&base, &base); e >>= 1; }
    acc
}

fn replay_case(case: &J, r: &mut Report) {
    let kind = case.get("kind").and_then(|j| j.as_str()).unwrap_or("");
    let hexs = |k: &str| u64::from_str_radix(case.get(k).and_then(|j| j.as_str()).unwrap_or("0").trim_start_matches("0x"), 16).unwrap_or(0);
    match kind {
        "f32" => check_f32(case.get("m").unwrap().as_u64().unwrap() as u32, r, &[(parse_fbits(case.get("a").unwrap()).unwrap(), parse_fbits(case.get("b").unwrap()).unwrap())]),
        "bern" => check_bernoulli(case.get("m").unwrap().as_u64().unwrap() as u32, r),
        "bernout" => check_bernoulli_out(hexs("y"), r),
        "rawout" => check_raw_out(hexs("y"), r),
        "i32" => check_i32(case.get("lo").unwrap().as_u64().unwrap() as u32, r, &[(case.get("a").unwrap().as_i64().unwrap() as i32, case.get("b").unwrap().as_i64().unwrap() as i32)]),
        "state2d" => check_2d(hexs("s"), r, "replay"),
        "state3d" => check_3d(hexs("s"), r, "replay"),
        "composite" => check_composite(hexs("s"), r),
        "orbit" => { let s = hexs("s"); let n = case.get("n").unwrap().as_u64().unwrap(); orbit(s, n, r); }
        k => machinery_error(&format!("unknown replay kind {k}")),
    }
}

fn orbit(seed: u64, n: u64, r: &mut Report) {
    let mut g = Xorshift64::from_seed(seed);
    let mut g2 = Xorshift64::from_seed(seed);
    let mut prev = seed;
    for k in 1..=n {
        let x = g.next_bits();
        if k <= 4096 { if g2.next_bits() != x { r.violation(format!("determinism|seed={seed:#x}"), "equal seeds gave different streams".into(), obj! {"kind" => "orbit", "s" => format!("{seed:#x}"), "n" => n}); return; } }
        if x == 0 || x == seed || g.0 != x {
            r.violation(format!("orbit|seed={seed:#x}|k={k}"), format!("from seed {seed:#x} step {k} produced {x:#x} (zero state, early cycle, or state != output)"), obj! {"kind" => "orbit", "s" => format!("{seed:#x}"), "n" => n});
            return;
        }
        if k & 0xFFF == 0 && unstep(x) != prev { r.violation(format!("not-injective|seed={seed:#x}|k={k}"), format!("inverse step of {x:#x} is not its predecessor {prev:#x}"), obj! {"kind" => "orbit", "s" => format!("{seed:#x}"), "n" => n}); return; }
        prev = x;
    }
    r.evals += n;
    r.nontrivial();
}

fn main() {
    silence_panics();
    let cfg = Cfg::from_args(|_| "C19".into());
    if cfg.replay.is_some() { replay_main(&cfg, replay_case); }
    let quick = cfg.quick();
    let mut rep = Report::new();

    // linearity of the step over GF(2) (needed by the solver): all 1- and 2-bit states, 3-bit sample
    let mut lin_ok = step(0) == 0;
    for i in 0..64 { for j in 0..64 { let (a, b) = (1u64 << i, 1u64 << j); if i != j && step(a ^ b) != step(a) ^ step(b) { lin_ok = false; } } }
    for i in 0..62 { let s = 7u64 << i; if step(s) != step(1 << i) ^ step(2 << i) ^ step(4 << i) { lin_ok = false; } }
    rep.set("step_is_gf2_linear_on_all_1_and_2_bit_states", lin_ok);

    // (a) all 2^23 mantissas x float ranges
    let franges: Vec<(f32, f32)> = vec![(0.0, 1.0), (-1.0, 1.0), (-1.23, 4.56), (1000.0, 1001.0), (1e6, 1e6 + 1.0), (-5.0, -4.999), (0.0, 1e-30), (16777215.0, 16777216.0), (-3.0, -1.0), (0.1, 0.3), (-1e-3, 1e3), (255.0, 256.0),
        // subnormal ends (nothing to round up? - yes there is), and widths that overflow f32 (the product is inf or NaN)
        (0.0, 1e-40), (0.0, 7e-45), (1e-40, 2e-40), (-3e38, 3e38), (f32::MIN, f32::MAX)];
    rep.merge(par_range(&cfg, 1 << 23, |m, r| check_f32(m as u32, r, &franges)));
    // (c) Bernoulli
    rep.merge(par_range(&cfg, 1 << 23, |m, r| check_bernoulli(m as u32, r)));
    // boundary raw outputs (all ones, single bits, runs of ones ...) through every scalar distribution
    let sp = special_outputs();
    rep.set("special_raw_outputs", sp.len() as u64);
    rep.merge(par_range(&cfg, sp.len() as u64, |i, r| { check_raw_out(sp[i as usize], r); let s = state_for_output(sp[i as usize]); if s != 0 { check_2d(s, r, "special-output"); check_3d(s, r, "special-output"); check_composite(s, r); } }));
    // (b) integer ranges over low words
    let iranges: Vec<(i32, i32)> = vec![(1, 7), (-123, 456), (0, 1), (i32::MIN, i32::MIN + 3), (0, i32::MAX), (i32::MIN, -1), (5, 6), (-7, -1), (i32::MAX - 2, i32::MAX), (-1 << 30, (1 << 30) - 1)];
    if quick {
        rep.merge(par_range(&cfg, 1 << 24, |i, r| {
            // boundary-dense words: 2^22 around each of 0, 2^31, 2^32 (wrapping) and a multiplicative spread
            let lo = match i >> 22 { 0 => i as u32, 1 => (1u32 << 31).wrapping_add(i as u32 & 0x3FFFFF).wrapping_sub(1 << 21), 2 => 0u32.wrapping_sub(i as u32 & 0x3FFFFF), _ => (i as u32).wrapping_mul(2654435761) };
            check_i32(lo, r, &iranges);
        }));
    } else {
        rep.merge(par_range(&cfg, 1 << 32, |i, r| check_i32(i as u32, r, &iranges)));
    }
    // (d) multi-component distributions from GF(2)-solved states
    if lin_ok {
        let r1 = output_rows(1); let r2 = output_rows(2); let r3 = output_rows(3);
        let mut eq2: Vec<u64> = vec![]; for i in 41..64 { eq2.push(r1[i]); } for i in 41..64 { eq2.push(r2[i]); }
        let sol2 = Solver::new(&eq2);
        rep.set("gf2_pair_system", format!("{} equations, nullspace dim {}", sol2.neq, sol2.null.len()));
        let nn = sol2.null.len();
        // every pair of boundary mantissas x whole nullspace
        let bsz = BM.len() as u64;
        rep.merge(par_range(&cfg, bsz * bsz << nn, |i, r| {
            let (k, pair) = (i & ((1 << nn) - 1), i >> nn);
            let (m1, m2) = (BM[(pair % bsz) as usize], BM[(pair / bsz) as usize]);
            let b = m1 as u128 | (m2 as u128) << 23;
            let mut s = sol2.solve(b);
            for (j, nv) in sol2.null.iter().enumerate() { if k >> j & 1 == 1 { s ^= nv; } }
            if s != 0 && (mantissa_of(step(s)), mantissa_of(step(step(s)))) != (m1, m2) { machinery_error("GF(2) solution does not reproduce requested mantissas"); }
            check_2d(s, r, "boundary-pair");
            if s != 0 { check_composite(s, r); }
        }));
        // first mantissa on the boundary set, second over all 2^23 values (one solution each)
        rep.merge(par_range(&cfg, bsz << 23, |i, r| {
            let (m2, m1) = ((i & 0x7FFFFF) as u32, BM[(i >> 23) as usize]);
            let mut s = sol2.solve(m1 as u128 | (m2 as u128) << 23);
            if s == 0 { s ^= sol2.null[0]; }
            check_2d(s, r, "boundary-x-all");
            if i & 0xFF == 0 { check_composite(s, r); }
        }));
        // triples: m1, m2 on the boundary set, top 18 bits of m3 exhaustive
        let mut eq3 = eq2.clone(); for i in 46..64 { eq3.push(r3[i]); }
        let sol3 = Solver::new(&eq3);
        rep.merge(par_range(&cfg, bsz * bsz << 18, |i, r| {
            let (t, pair) = (i & 0x3FFFF, i >> 18);
            let (m1, m2) = (BM[(pair % bsz) as usize], BM[(pair / bsz) as usize]);
            let s = sol3.solve(m1 as u128 | (m2 as u128) << 23 | (t as u128) << 46);
            check_3d(s, r, "boundary-pair-x-top18");
        }));
        // aimed at the rim of the ball: first draws whose squared length exceeds 1 by 3e-7 .. 9e-7 (a few f32 steps) must be
        // rejected, whatever comes after; the coordinates are m * 2^-22 - 1, so x and y are free and z to within 2^-17
        {
            let coord = |m: u32| (m as f64) * (0.5f64).powi(22) - 1.0;
            let m_of = |c: f64| (((c + 1.0) * 4194304.0).round() as i64).clamp(0, 0x7FFFFF) as u32;
            let xs: Vec<f64> = (0..48).map(|k| -0.93 + 0.0391 * k as f64).collect();
            let zs = [0.011f64, -0.023, 0.04];
            rep.merge(par_range(&cfg, (xs.len() * zs.len() * 17) as u64, |i, r| {
                let (x0, z0, dk) = (xs[(i % 48) as usize], zs[(i / 48 % 3) as usize], (i / 144) as i64 - 8);
                let m1 = m_of(x0);
                let t = m_of(z0) >> 5;
                let want_y2 = 1.0 + 6e-7 - coord(m1).powi(2) - coord(t << 5 | 16).powi(2);
                if want_y2 <= 0.0 { return; }
                let m2 = (m_of(want_y2.sqrt() * if i % 2 == 0 { 1.0 } else { -1.0 }) as i64 + dk).clamp(0, 0x7FFFFF) as u32;
                let s = sol3.solve(m1 as u128 | (m2 as u128) << 23 | (t as u128) << 46);
                if s == 0 { return; }
                let m3 = mantissa_of(step(step(step(s))));
                let l2 = coord(mantissa_of(step(s))).powi(2) + coord(mantissa_of(step(step(s)))).powi(2) + coord(m3).powi(2);
                if l2 > 1.0 + 3e-7 && l2 < 1.0 + 9e-7 { r.h("ball-rim-aimed:first-draw-outside-by-3e-7..9e-7"); } else if l2 > 1.0 - 9e-7 && l2 <= 1.0 { r.h("ball-rim-aimed:first-draw-just-inside"); } else { r.h("ball-rim-aimed:off-target"); }
                check_3d(s, r, "rim-aimed");
            }));
        }
    } else {
        rep.h("gf2-solver-skipped(step not linear)");
    }
    // states from short orbits also feed the multi-component distributions
    rep.merge(par_range(&cfg, if quick { 1 << 20 } else { 1 << 24 }, |i, r| { let s = (i + 1).wrapping_mul(0x9E3779B97F4A7C15); check_2d(s, r, "spread"); check_3d(s, r, "spread"); if i & 0xF == 0 { check_composite(s, r); } }));
    // consecutive states of real orbits (long rejection runs of the disk/ball samplers occur there, not on solved states)
    let wn: u64 = if quick { 1 << 17 } else { 1 << 22 };
    rep.merge(par_range(&cfg, 16, |k, r| {
        let mut s = (k + 1).wrapping_mul(0xD1B54A32D192ED03) | 1;
        for _ in 0..wn { check_2d(s, r, "orbit-walk"); check_3d(s, r, "orbit-walk"); s = step(s); }
    }));
    // (f) orbits
    let mut seeds: Vec<u64> = vec![Xorshift64::DEFAULT_SEED];
    for i in 0..64 { seeds.push(1 << i); }
    for s in 1..=1000 { seeds.push(s); }
    seeds.push(u64::MAX);
    let n: u64 = if quick { 1 << 18 } else { 1 << 24 };
    rep.merge(par_range(&cfg, seeds.len() as u64, |i, r| orbit(seeds[i as usize], n, r)));
    if !quick {
        // one long walk, split into 16 segments chained by their end states (sequentially dependent => run segments after computing starts)
        let seg: u64 = 1 << 29;
        let mut r = Report::new();
        orbit(Xorshift64::DEFAULT_SEED, seg * 4, &mut r);
        rep.merge(r);
    }
    if caught(|| Xorshift64::from_seed(0)).is_ok() { rep.violation("zero-seed-accepted|".into(), "from_seed(0) did not panic".into(), J::Null); }
    if Xorshift64::default().0 != Xorshift64::DEFAULT_SEED || Xorshift64::DEFAULT_SEED == 0 { rep.violation("default-seed|".into(), "default() != DEFAULT_SEED".into(), J::Null); }
    // supplementary (non-family, labelled): order of the step map over GF(2)
    if lin_ok {
        let t = output_rows(1);
        let order: u128 = u64::MAX as u128;
        let mut id = [0u64; 64]; for i in 0..64 { id[i] = 1 << i; }
        let full = gf2_pow(&t, order) == id;
        let mut maximal = full;
        for p in [3u128, 5, 17, 257, 641, 65537, 6700417] { if gf2_pow(&t, order / p) == id { maximal = false; } }
        rep.set("supplementary_gf2_order_certificate", obj! {"T^(2^64-1)==I" => full, "T^((2^64-1)/p)!=I for all prime p | 2^64-1" => maximal, "note" => "algebraic, not enumeration: implies a single cycle of length 2^64-1 on non-zero states given linearity (verified on all 1- and 2-bit states only)"});
        if !(full && maximal) {
            rep.violation("period|gf2-order".into(), format!("step matrix order certificate failed: T^(2^64-1)==I: {full}, maximal: {maximal}"), J::Null);
        }
    } else {
        rep.violation("period|not-linear".into(), "step function is not GF(2)-linear on 1/2-bit states: not the xorshift map; bijectivity unknown".into(), J::Null);
    }
    rep.sample(0, || obj! {"f32" => "mantissa 0x7fffff, range 1000..1001", "i32" => "low word 0x80000000, range -2147483648..-2147483645", "pair_state" => "state with mantissas (0x400000,0x400000) from GF(2) solve", "orbit_seed" => Xorshift64::DEFAULT_SEED});
    rep.finish(&cfg, "exploration",
        "all 2^23 mantissas x 12 float ranges and x 9 Bernoulli p; ~900 boundary raw 64-bit outputs (all ones, single bits, runs of ones and complements, boundary words in both 32-bit halves and in all four 16-bit quarters) through every scalar and multi-component distribution; all 2^32 low words (quick: 2^24 boundary-dense) x 10 int ranges; multi-component distributions on GF(2)-solved states: every pair of 8 boundary mantissas x the full 2^18 solution space, boundary x all 2^23 second mantissas, boundary pairs x all top-18-bit third mantissas, plus 2^20 (2^24) spread states and 16 orbit segments of 2^17 (2^22) consecutive states; composite distributions vs scalar draws; orbits of 1066 seeds for 2^18 (2^24) steps and 2^31 steps from the default seed (thorough): never zero, no early cycle, inverse step returns the predecessor. The 2^64-1 period clause is only bounded by enumeration; the GF(2) order certificate is supplementary algebra.",
        &["harness-side inverse of the step is validated against the real next_bits on every use", "unit-length tolerance 1e-3, disk/ball tolerance 1e-6 in f64", "int ranges with representable width only"]);
}
