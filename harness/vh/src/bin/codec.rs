//! C13 (PNM codec) and C14 (OBJ parser): exhaustive bounded input families against
//! round-trip / differential / totality oracles.
use re::math::{rgb, Color3};
use re::util::buf::{AsSlice2, Buf2, Slice2};
use re::util::pnm::{load_pnm, parse_pnm, read_pnm, save_ppm, write_ppm};
use re_geom::io::{load_obj, parse_obj, read_obj};
use vlib::*;

fn hex(b: &[u8]) -> String { b.iter().map(|x| format!("{x:02x}")).collect() }
fn unhex(s: &str) -> Vec<u8> { (0..s.len() / 2).map(|i| u8::from_str_radix(&s[2 * i..2 * i + 2], 16).unwrap_or(0)).collect() }
fn show(b: &[u8]) -> String { String::from_utf8_lossy(&b[..b.len().min(80)]).escape_default().to_string() }

// ------------------------------------------------------------------ PNM

type Img = (u32, u32, Vec<[u8; 3]>);

fn decode_both(bytes: &[u8]) -> Result<(Result<Img, String>, Result<Img, String>), String> {
    vlib::inflight::set(bytes);
    let conv = |r: Result<Buf2<Color3>, re::util::pnm::Error>| -> Result<Img, String> {
        r.map(|b| (b.width(), b.height(), b.data().iter().map(|c| c.0).collect())).map_err(|e| format!("{e:?}"))
    };
    let a = caught(|| conv(parse_pnm(bytes.iter().copied()))).map_err(|p| format!("parse_pnm panicked: {p}"))?;
    let b = caught(|| conv(read_pnm(bytes))).map_err(|p| format!("read_pnm panicked: {p}"))?;
    Ok((a, b))
}

/// Reference header reader, independent of the implementation: returns
/// (magic digit, w, h, offset of first payload byte) for a *well-formed* header.
fn ref_header(b: &[u8]) -> Option<(u8, u64, u64, usize)> {
    if b.len() < 2 || b[0] != b'P' { return None; }
    let fmt = b[1];
    if !(b'1'..=b'6').contains(&fmt) { return None; }
    let mut p = 2;
    let ws = |c: u8| matches!(c, b' ' | b'\t' | b'\n' | b'\r' | 0x0c);
    let mut nums = vec![];
    let want = if fmt == b'1' || fmt == b'4' { 2 } else { 3 };
    while nums.len() < want {
        // separators: at least one whitespace or comment
        let st = p;
        loop {
            if p < b.len() && ws(b[p]) { p += 1; }
            // the statement covers whitespace-preceded comments only
            else if p < b.len() && b[p] == b'#' && p > st { while p < b.len() && b[p] != b'\n' { p += 1; } if p < b.len() { p += 1; } else { return None; } }
            else { break; }
        }
        if p == st { return None; }
        let ds = p;
        while p < b.len() && b[p].is_ascii_digit() { p += 1; }
        if p == ds || p - ds > 12 { return None; }
        nums.push(std::str::from_utf8(&b[ds..p]).ok()?.parse::<u64>().ok()?);
    }
    // exactly one whitespace byte terminates the header
    if p >= b.len() || !ws(b[p]) { return None; }
    p += 1;
    if want == 3 && (nums[2] == 0 || nums[2] > 65535) { return None; }
    Some((fmt, nums[0], nums[1], p))
}

fn pnm_totality(bytes: &[u8], r: &mut Report, kind: &str) {
    r.eval();
    let case = || obj! {"kind" => "pnm-total", "bytes" => hex(bytes)};
    let (a, b) = match decode_both(bytes) {
        Err(p) => {
            r.violation(format!("pnm-panic|{}", show(bytes)), format!("{p} on {:?}", show(bytes)), case());
            return;
        }
        Ok(x) => x,
    };
    if a != b {
        r.violation(format!("pnm-read-vs-parse|{}", show(bytes)), format!("parse_pnm={a:?} read_pnm={b:?}"), case());
    }
    let hd = ref_header(bytes);
    match &a {
        Ok((w, h, px)) => {
            r.h(&format!("{kind}:ok"));
            r.nontrivial();
            if px.len() as u64 != *w as u64 * *h as u64 {
                r.violation(format!("pnm-count|{}", show(bytes)), format!("dims {w}x{h} but {} pixels", px.len()), case());
            }
            if let Some((_, hw, hh, _)) = hd {
                if (hw, hh) != (*w as u64, *h as u64) {
                    r.violation(format!("pnm-dims|{}", show(bytes)), format!("header says {hw}x{hh}, image is {w}x{h}"), case());
                }
            } else { r.h("ok-but-reference-header-not-wellformed(not judged)"); }
        }
        Err(e) => {
            r.h(&format!("{kind}:err:{}", e.split('(').next().unwrap_or(e)));
        }
    }
    // truncated binary payload must be an error
    if let Some((fmt, w, h, off)) = hd {
        let need = match fmt { b'6' => Some(3u64.saturating_mul(w).saturating_mul(h)), b'5' => Some(w.saturating_mul(h)), _ => None };
        if let Some(need) = need {
            let have = (bytes.len() - off) as u64;
            if w < 65536 && h < 65536 && have < need && a.is_ok() {
                r.violation(format!("pnm-truncated-accepted|{}", show(bytes)), format!("payload {have} < {need} bytes but decoded Ok"), case());
            }
        }
    }
}

const HOSTILE: [u8; 9] = [0x00, b'\t', b'\n', b'\r', b' ', b'#', b'0', b'9', 0xFF];

/// A sink that accepts at most `chunk` bytes per write() call (allowed by the Write contract).
struct Chunky { data: Vec<u8>, chunk: usize }
impl std::io::Write for Chunky {
    fn write(&mut self, b: &[u8]) -> std::io::Result<usize> { let n = b.len().min(self.chunk); self.data.extend_from_slice(&b[..n]); Ok(n) }
    fn flush(&mut self) -> std::io::Result<()> { Ok(()) }
}

/// A sink that fails after `cap` bytes: either with an error, or (mode 1) by accepting nothing more.
struct Failing { got: std::sync::Arc<std::sync::Mutex<Vec<u8>>>, cap: usize, zero: bool, flushes: std::sync::Arc<std::sync::Mutex<u32>> }
impl std::io::Write for Failing {
    fn write(&mut self, b: &[u8]) -> std::io::Result<usize> {
        let mut g = self.got.lock().unwrap();
        let room = self.cap - g.len();
        if room == 0 && !b.is_empty() { return if self.zero { Ok(0) } else { Err(std::io::Error::new(std::io::ErrorKind::Other, "device full")) }; }
        let n = b.len().min(room);
        g.extend_from_slice(&b[..n]);
        Ok(n)
    }
    fn flush(&mut self) -> std::io::Result<()> { *self.flushes.lock().unwrap() += 1; Ok(()) }
}

/// Every failure point of the sink: write_ppm into a writer that takes only the first `cap` bytes - handed over by value,
/// bare or inside a BufWriter (what save_ppm does with its file) - reports an error unless every byte of the image arrived.
/// A success that left bytes behind is a truncated file reported as written.
fn pnm_write_faults(w: u32, h: u32, r: &mut Report) {
    let buf: Buf2<Color3> = Buf2::new_with((w, h), |x, y| rgb((x * 7 + y) as u8, (y * 13 + 1) as u8, HOSTILE[((x + y) % 9) as usize]));
    let mut whole = vec![];
    if !matches!(caught(|| write_ppm(&mut whole, buf.as_slice2())), Ok(Ok(()))) { return; }
    let total = whole.len();
    let caps: Vec<usize> = if total <= 400 { (0..=total + 1).collect() } else { (0..40).chain((total - 40..=total + 1).step_by(1)).chain([total / 2, 8191, 8192, 8193].into_iter().filter(|c| *c < total)).collect() };
    for cap in caps { for mode in 0..4u32 {
        r.eval();
        let (zero, buffered) = (mode % 2 == 1, mode / 2 == 1);
        let got = std::sync::Arc::new(std::sync::Mutex::new(vec![]));
        let flushes = std::sync::Arc::new(std::sync::Mutex::new(0u32));
        let sink = Failing { got: got.clone(), cap, zero, flushes: flushes.clone() };
        let res = if buffered { caught(|| write_ppm(std::io::BufWriter::new(sink), buf.as_slice2())) } else { caught(|| write_ppm(sink, buf.as_slice2())) };
        let arrived = got.lock().unwrap().clone();
        let tag = format!("{w}x{h}|{}|{}", if buffered { "BufWriter by value" } else { "bare sink by value" }, if zero { "sink stops accepting" } else { "sink errors" });
        let case = obj! {"kind" => "pnm-faults", "w" => w, "h" => h};
        match res {
            Err(p) => { r.violation(format!("ppm-write-panic|faults|{tag}"), format!("write_ppm panicked on a failing sink (capacity {cap} of {total}): {p}"), case); return; }
            Ok(Ok(())) if arrived != whole => { r.violation(format!("ppm-write-lost|{tag}"), format!("write_ppm of a {w}x{h} image returned Ok(()) although only {} of {total} bytes reached the sink (capacity {cap})", arrived.len()), case); return; }
            Ok(Ok(())) => { r.h("faults:ok-complete"); }
            Ok(Err(_)) if cap >= total => { r.violation(format!("ppm-write-error|faults|{tag}"), format!("write_ppm failed although the sink takes all {total} bytes (capacity {cap})"), case); return; }
            Ok(Err(_)) => { if whole[..arrived.len()] != arrived[..] { r.violation(format!("ppm-write-garbled|{tag}"), format!("bytes that reached the failing sink are not a prefix of the image file"), case); return; } r.nontrivial(); }
        }
    }}
}

/// Readers as an operating system hands them out: a read may return fewer bytes than asked for, and may fail with
/// ErrorKind::Interrupted, which means "try again" (std's own adapters retry it). `plan[k]` is the answer to the k-th call:
/// 0 = interrupted, 254 = a hard device error, other n > 0 = at most n bytes; after the plan runs out, everything asked for.
struct Moody<'a> { data: &'a [u8], pos: usize, plan: Vec<u8>, call: usize }
impl std::io::Read for Moody<'_> {
    fn read(&mut self, buf: &mut [u8]) -> std::io::Result<usize> {
        let a = self.plan.get(self.call).copied();
        self.call += 1;
        if a == Some(0) { return Err(std::io::Error::new(std::io::ErrorKind::Interrupted, "EINTR")); }
        if a == Some(254) { return Err(std::io::Error::new(std::io::ErrorKind::Other, "device error")); }
        let n = buf.len().min(self.data.len() - self.pos).min(a.map_or(usize::MAX, |n| n as usize));
        buf[..n].copy_from_slice(&self.data[self.pos..self.pos + n]);
        self.pos += n;
        Ok(n)
    }
}

/// Every environment answer on the way in: read_pnm over a reader that is interrupted at its k-th call (every k up to the
/// number of calls a byte-at-a-time decoder needs), or hands out 1..3 bytes per call, decodes what parse_pnm decodes from the
/// same bytes.
fn pnm_read_answers(bytes: &[u8], r: &mut Report, tag: &str) {
    let want = match caught(|| parse_pnm(bytes.iter().copied())) { Ok(w) => w.map(|b| (b.width(), b.height(), b.data().iter().map(|c| c.0).collect::<Vec<_>>())).map_err(|e| format!("{e:?}")), Err(_) => return };
    let mut plans: Vec<Vec<u8>> = vec![vec![]];
    for k in 0..=bytes.len() + 1 { let mut p = vec![255u8; k]; p.push(0); plans.push(p); }
    for k in 0..bytes.len().min(24) { let mut p = vec![255u8; k]; p.extend([0, 0, 0]); plans.push(p); }
    for n in 1..=3u8 { plans.push(vec![n; 2 * bytes.len() + 4]); }
    plans.push((0..2 * bytes.len() + 4).map(|k| if k % 2 == 0 { 0 } else { 1 }).collect());
    // a device error while bytes of the image are still outstanding is an error of the read, never a (truncated) image
    for k in 0..bytes.len() {
        r.eval();
        let mut plan = vec![1u8; k]; plan.push(254);
        let mut rd = Moody { data: bytes, pos: 0, plan, call: 0 };
        let got = caught(|| read_pnm(&mut rd).map(|b| b.dims()).map_err(|e| format!("{e:?}")));
        let consumed = rd.pos;
        match got {
            Err(p) => { r.violation(format!("pnm-read-panic|{tag}"), format!("read_pnm panicked on a reader that fails after {k} bytes: {p}"), obj! {"kind" => "pnm-answers", "bytes" => hex(bytes)}); return; }
            Ok(Ok(d)) if want.is_err() || consumed < bytes.len().min(k + 1) && false => { let _ = d; }
            Ok(Ok(d)) => {
                // fine only if the image was complete before the failing call: the k bytes delivered decode to the same image
                let pre = caught(|| parse_pnm(bytes[..k].iter().copied()).map(|b| b.dims()));
                if !matches!(pre, Ok(Ok(p)) if p == d) { r.violation(format!("pnm-read-vs-parse|device-error|{tag}"), format!("read_pnm returned a {d:?} image although the reader failed with a device error after {k} of {} bytes (those {k} bytes alone decode to {:?})", bytes.len(), pre.map(|x| x.map_err(|e| format!("{e:?}")))), obj! {"kind" => "pnm-answers", "bytes" => hex(bytes)}); return; }
            }
            Ok(Err(_)) => { r.nontrivial(); }
        }
    }
    for plan in plans {
        r.eval();
        let desc = if plan.is_empty() { "plain".to_string() } else if plan.iter().all(|a| *a != 0) { format!("{} bytes per call", plan[0]) } else if plan.iter().filter(|a| **a == 0).count() > 3 { "interrupted at every other call, one byte each otherwise".into() } else { format!("interrupted {} time(s) from call {}", plan.iter().filter(|a| **a == 0).count(), plan.iter().position(|a| *a == 0).unwrap()) };
        let mut rd = Moody { data: bytes, pos: 0, plan, call: 0 };
        let got = caught(|| read_pnm(&mut rd).map(|b| (b.width(), b.height(), b.data().iter().map(|c| c.0).collect::<Vec<_>>())).map_err(|e| format!("{e:?}")));
        let case = obj! {"kind" => "pnm-answers", "bytes" => hex(bytes)};
        match got {
            Err(p) => { r.violation(format!("pnm-read-panic|{tag}"), format!("read_pnm panicked on a reader ({desc}): {p}"), case); return; }
            Ok(g) => {
                let same = match (&g, &want) { (Ok(a), Ok(b)) => a == b, (Err(_), Err(_)) => true, _ => false };
                if !same { r.violation(format!("pnm-read-vs-parse|reader-answers|{tag}|{}", desc.split(' ').next().unwrap_or("")), format!("read_pnm over a reader ({desc}) gives {:?} but parse_pnm on the same bytes gives {:?}; file {:?}", g.as_ref().map(|i| (i.0, i.1)), want.as_ref().map(|i| (i.0, i.1)), show(bytes)), case); return; }
                if want.is_ok() { r.nontrivial(); }
            }
        }
    }
}

/// Images of every sub-format, one after the other in one stream: each read_pnm call consumes exactly its image (the raster of
/// a binary format has a known length; a text raster ends with its last sample and the one whitespace byte after it).
fn pnm_mixed_stream(i: u64, r: &mut Report) {
    r.eval();
    let files: [(&str, &[u8], (u32, u32, Vec<[u8; 3]>)); 6] = [
        ("P6", b"P6 2 1 255\n\x01\x02\x03\x0a\x20\x23", (2, 1, vec![[1, 2, 3], [10, 32, 35]])),
        ("P5", b"P5 3 1 255\n\x07\x50\x36", (3, 1, vec![[7, 7, 7], [0x50, 0x50, 0x50], [0x36, 0x36, 0x36]])),
        ("P4", b"P4 8 1\n\xa5", (8, 1, [1u8, 0, 1, 0, 0, 1, 0, 1].iter().map(|b| [(1 - b) * 255; 3]).collect())),
        ("P3", b"P3\n1 2\n255\n1 2 3\n40 50 60\n", (1, 2, vec![[1, 2, 3], [40, 50, 60]])),
        ("P2", b"P2 2 1 255 9 200\n", (2, 1, vec![[9, 9, 9], [200, 200, 200]])),
        ("P5 1x1", b"P5 1 1 255\n\x50", (1, 1, vec![[0x50, 0x50, 0x50]])),
    ];
    let (a, b, c) = ((i % 6) as usize, (i / 6 % 6) as usize, (i / 36) as usize);
    let seq = if c < 6 { vec![a, b, c] } else { vec![a, b] };
    let mut bytes = vec![];
    for &k in &seq { bytes.extend_from_slice(files[k].1); }
    bytes.extend_from_slice(b"P7 trailer");
    let names: Vec<&str> = seq.iter().map(|&k| files[k].0).collect();
    let case = obj! {"kind" => "pnm-mixed-stream", "i" => i};
    let mut cur: &[u8] = &bytes;
    let mut consumed = 0usize;
    for (n, &k) in seq.iter().enumerate() {
        let before = cur.len();
        let got = caught(|| read_pnm(&mut cur).map(|b| (b.width(), b.height(), b.data().iter().map(|c| c.0).collect::<Vec<_>>())).map_err(|e| format!("{e:?}")));
        consumed += before - cur.len();
        let want_consumed: usize = seq[..=n].iter().map(|&j| files[j].1.len()).sum();
        match got {
            Err(p) => { r.violation(format!("pnm-read-panic|stream|{}", names.join("+")), format!("read_pnm panicked on image {n} of a stream of {names:?}: {p}"), case); return; }
            Ok(g) => {
                if g.as_ref().ok() != Some(&files[k].2) || consumed != want_consumed {
                    r.violation(format!("ppm-stream|mixed|{}|image{n}", names.join("+")), format!("stream of {names:?} + trailer: read {n} ({}) returned {:?} having consumed {consumed} bytes in total, expected the {}x{} image after {want_consumed} bytes", files[k].0, g.as_ref().map(|x| (x.0, x.1)), files[k].2 .0, files[k].2 .1), case);
                    return;
                }
            }
        }
    }
    r.nontrivial();
}

/// A scratch file private to the calling thread, next to the engine binary (not under /tmp).
fn scratch_file(ext: &str) -> std::path::PathBuf {
    let dir = std::env::current_exe().ok().and_then(|p| p.parent().map(|d| d.join("scratch"))).unwrap_or_else(|| "scratch".into());
    let _ = std::fs::create_dir_all(&dir);
    dir.join(format!("{}-{:?}.{ext}", std::process::id(), std::thread::current().id()).replace(['(', ')'], ""))
}

/// The path-based entry points: save_ppm to a file, load_pnm from it.
fn pnm_roundtrip_file(view: Slice2<Color3>, expect: &Img, r: &mut Report, tag: &str, case: J) {
    r.eval();
    let path = scratch_file("ppm");
    match caught(|| save_ppm(&path, view)) {
        Err(p) => { r.violation(format!("ppm-write-panic|file|{tag}"), format!("save_ppm panicked: {p}"), case); return; }
        Ok(Err(e)) => { r.violation(format!("ppm-write-error|file|{tag}"), format!("save_ppm error: {e}"), case); return; }
        Ok(Ok(())) => {}
    }
    match caught(|| load_pnm(&path)) {
        Err(p) => r.violation(format!("ppm-roundtrip-panic|file|{tag}"), format!("load_pnm panicked: {p}"), case),
        Ok(Ok(b)) if (b.width(), b.height(), b.data().iter().map(|c| c.0).collect::<Vec<_>>()) == *expect => { r.nontrivial(); }
        Ok(other) => r.violation(format!("ppm-roundtrip|load_pnm|{tag}"), format!("save_ppm then load_pnm: wrote {}x{}, read back {:?}", expect.0, expect.1, other.map(|b| b.dims())), case),
    }
    let _ = std::fs::remove_file(&path);
}

fn pnm_roundtrip_view(view: Slice2<Color3>, expect: &Img, r: &mut Report, tag: &str, case: J) {
    r.eval();
    let mut out = vec![];
    // the same bytes must arrive through a sink that takes only a few bytes per call
    let mut chunky = Chunky { data: vec![], chunk: 5 };
    if let Ok(Ok(())) = caught(|| write_ppm(&mut chunky, view)) {
        let mut whole = vec![];
        if let Ok(Ok(())) = caught(|| write_ppm(&mut whole, view)) {
            if whole != chunky.data { r.violation(format!("ppm-partial-write|{tag}"), format!("write_ppm lost data on a sink that accepts 5 bytes per write(): {} of {} bytes arrived", chunky.data.len(), whole.len()), case.clone()); return; }
        }
    }
    match caught(|| write_ppm(&mut out, view)) {
        Err(p) => { r.violation(format!("ppm-write-panic|{tag}"), format!("write_ppm panicked: {p}"), case); return; }
        Ok(Err(e)) => { r.violation(format!("ppm-write-error|{tag}"), format!("write_ppm error: {e}"), case); return; }
        Ok(Ok(())) => {}
    }
    match decode_both(&out) {
        Err(p) => r.violation(format!("ppm-roundtrip-panic|{tag}"), format!("{p}; file {:?}", show(&out)), case),
        Ok((a, b)) => {
            for (nm, got) in [("parse_pnm", a), ("read_pnm", b)] {
                match got {
                    Ok(img) if &img == expect => { r.nontrivial(); }
                    other => { r.violation(format!("ppm-roundtrip|{nm}|{tag}"), format!("wrote {}x{} {:?}.. read back {:?}; file {:?}", expect.0, expect.1, &expect.2[..expect.2.len().min(4)], other.map(|i| (i.0, i.1, i.2.into_iter().take(4).collect::<Vec<_>>())), show(&out)), case); return; }
                }
            }
        }
    }
}

/// Two images written one after the other into one stream are read back one after the other from one reader: reading
/// an image consumes exactly that image.
fn pnm_two_in_a_stream(view: Slice2<Color3>, expect: &Img, r: &mut Report, tag: &str, case: J) {
    r.eval();
    let mut bytes = vec![];
    if !matches!(caught(|| write_ppm(&mut bytes, view)), Ok(Ok(()))) { return; }
    let first_len = bytes.len();
    if !matches!(caught(|| write_ppm(&mut bytes, view)), Ok(Ok(()))) { return; }
    bytes.extend_from_slice(b"trailer");
    let mut cur: &[u8] = &bytes;
    let conv = |b: Buf2<Color3>| (b.width(), b.height(), b.data().iter().map(|c| c.0).collect::<Vec<_>>());
    let a = caught(|| read_pnm(&mut cur).map(conv));
    let consumed = bytes.len() - cur.len();
    let b = caught(|| read_pnm(&mut cur).map(conv));
    match (a, b) {
        (Ok(Ok(x)), Ok(Ok(y))) if &x == expect && &y == expect && consumed == first_len && cur == b"trailer" => r.nontrivial(),
        (a, b) => r.violation(format!("ppm-stream|{tag}"), format!("two copies of a {}x{} image in one stream: first read {:?} (consumed {consumed} of {first_len} bytes), second read {:?}, {} bytes left", expect.0, expect.1, a.map(|x| x.map(|i| (i.0, i.1)).map_err(|e| format!("{e:?}"))), b.map(|x| x.map(|i| (i.0, i.1)).map_err(|e| format!("{e:?}"))), cur.len()), case),
    }
}

fn pnm_roundtrip_owned(w: u32, h: u32, px: &[[u8; 3]], r: &mut Report) {
    let case = obj! {"kind" => "pnm-rt-owned", "w" => w, "h" => h, "px" => hex(&px.concat())};
    let buf = match caught(|| Buf2::new_from((w, h), px.iter().map(|p| rgb(p[0], p[1], p[2])))) {
        Ok(b) => b,
        Err(p) => { r.violation(format!("pnm-owned-ctor-panic|{w}x{h}"), format!("Buf2::new_from(({w},{h})) with exactly {} pixels panicked: {p}", px.len()), case); return; }
    };
    let tag = format!("owned {w}x{h} {}", hex(&px.concat()));
    if px.len() > 16 || px.iter().flatten().fold(w.wrapping_mul(31) ^ h, |a, b| a.wrapping_mul(131).wrapping_add(*b as u32)) % 16 == 0 { pnm_roundtrip_file(buf.as_slice2(), &(w, h, px.to_vec()), r, &tag, case.clone()); }
    if px.len() > 16 || px.iter().flatten().fold(h.wrapping_mul(31) ^ w, |a, b| a.wrapping_mul(131).wrapping_add(*b as u32)) % 8 == 0 { pnm_two_in_a_stream(buf.as_slice2(), &(w, h, px.to_vec()), r, &tag, case.clone()); }
    pnm_roundtrip_view(buf.as_slice2(), &(w, h, px.to_vec()), r, &tag, case);
}

/// parent 4x4 (stride 4) with distinct hostile pixels; every sub-rect, nested once more.
fn pnm_roundtrip_subviews(r: &mut Report, nested: bool, only: Option<(u32, u32, u32, u32, u32, u32, u32, u32)>) {
    let n = 5u32;
    let parent: Buf2<Color3> = Buf2::new_with((n, n), |x, y| {
        let i = (y * n + x) as usize;
        rgb(HOSTILE[i % 9], HOSTILE[(i / 3 + 1) % 9], (i * 7 + 10) as u8)
    });
    let pix = |x: u32, y: u32| parent[[x, y]].0;
    for l in 0..=n { for rr in l..=n { for t in 0..=n { for b in t..=n {
        let (w, h) = (rr - l, b - t);
        let go = |l2: u32, r2: u32, t2: u32, b2: u32, r: &mut Report| {
            if let Some(o) = only { if o != (l, rr, t, b, l2, r2, t2, b2) { return; } }
            let case = obj! {"kind" => "pnm-rt-view", "rect" => vec![l, rr, t, b, l2, r2, t2, b2]};
            let tag = format!("view {l}..{rr}x{t}..{b} > {l2}..{r2}x{t2}..{b2}");
            let expect: Vec<[u8; 3]> = (t + t2..t + b2).flat_map(|y| (l + l2..l + r2).map(move |x| (x, y))).map(|(x, y)| pix(x, y)).collect();
            let v1 = match caught(|| parent.slice((l..rr, t..b))) { Ok(v) => v, Err(p) => { r.violation(format!("pnm-view-panic|{tag}"), format!("slicing the in-bounds rectangle ({l}..{rr}, {t}..{b}) panicked: {p}"), case); return; } };
            let v2 = match caught(|| v1.slice((l2..r2, t2..b2))) { Ok(v) => v, Err(p) => { r.violation(format!("pnm-view-panic|{tag}"), format!("slicing the in-bounds rectangle ({l2}..{r2}, {t2}..{b2}) of a view panicked: {p}"), case); return; } };
            pnm_roundtrip_view(v2, &(r2 - l2, b2 - t2, expect), r, &tag, case);
        };
        if nested {
            for l2 in 0..=w { for r2 in l2..=w { for t2 in 0..=h { for b2 in t2..=h { go(l2, r2, t2, b2, r); } } } }
        } else { go(0, w, 0, h, r); }
    }}}}
    // directly constructed views with stride and surplus data
    if only.is_none() {
        let data: Vec<Color3> = (0..40u8).map(|i| rgb(HOSTILE[i as usize % 9], i, 255 - i)).collect();
        for w in 1..=3u32 { for h in 1..=3u32 { for stride in w..=w + 2 { for extra in 0..=stride as usize + 1 {
            let need = (h as usize - 1) * stride as usize + w as usize;
            let d = &data[..need + extra];
            let v = Slice2::new((w, h), stride, d);
            let expect: Vec<[u8; 3]> = (0..h).flat_map(|y| (0..w).map(move |x| (x, y))).map(|(x, y)| d[(y * stride + x) as usize].0).collect();
            let case = obj! {"kind" => "pnm-rt-direct", "w" => w, "h" => h, "stride" => stride, "extra" => extra};
            pnm_roundtrip_view(v, &(w, h, expect), r, &format!("direct {w}x{h} stride {stride} extra {extra}"), case);
        }}}}
    }
}

const SEPS: [&str; 8] = [" ", "\n", "\t", "\r", " #c\n", "\n# 7 7 7\n", "\x0c", " # old\rmac 9 9\n"];
fn sep_strings() -> Vec<String> {
    let mut v: Vec<String> = SEPS.iter().map(|s| s.to_string()).collect();
    for a in SEPS { for b in SEPS { v.push(format!("{a}{b}")); } }
    v
}

/// text == binary for the same pixel data, all header spellings.
fn pnm_text_binary(idx: u64, r: &mut Report, imgs: &[(u32, u32, Vec<[u8; 3]>)], seps: &[String]) {
    let ns = seps.len() as u64;
    let (s1, s2, s3, term, sdat, im) = (idx % ns, idx / ns % ns, idx / ns / ns % ns, idx / ns / ns / ns % 4, idx / ns / ns / ns / 4 % 7, idx / ns / ns / ns / 4 / 7);
    let (w, h, px) = &imgs[im as usize];
    let term = [b"\n", b" ", b"\t", b"\r"][term as usize];
    let (s1, s2, s3) = (&seps[s1 as usize], &seps[s2 as usize], &seps[s3 as usize]);
    // sample separator for text formats: one of the singles, or cycling through all seps
    let sample_sep = |k: usize| -> &str { if sdat < 6 { SEPS[[0usize, 1, 2, 3, 6, 5][sdat as usize]] } else { &seps[(k * 5 + 3) % seps.len()] } };
    for gray in [false, true] {
        r.eval();
        let pxs: Vec<[u8; 3]> = if gray { px.iter().map(|p| [p[0]; 3]).collect() } else { px.clone() };
        let (mt, mb) = if gray { ("P2", "P5") } else { ("P3", "P6") };
        // numerals may carry leading zeros (to 15, 16, 17 or 25 characters) in one of: width, height, maxval, the samples
        let (padw, padfield) = ([0usize, 15, 16, 17, 25][(idx / 3 % 5) as usize], idx / 15 % 4);
        let num = |v: u32, field: u64| if field == padfield { format!("{v:0>padw$}") } else { v.to_string() };
        let hdr = format!("{s1}{}{s2}{}{s3}{}", num(*w, 0), num(*h, 1), num(255, 2));
        let mut bin: Vec<u8> = format!("{mb}{hdr}").into_bytes();
        bin.extend_from_slice(term);
        let mut txt: Vec<u8> = format!("{mt}{hdr}").into_bytes();
        let mut k = 0;
        for p in &pxs {
            let ch: &[u8] = if gray { &p[..1] } else { &p[..] };
            for c in ch {
                if gray { bin.push(*c); }
                txt.extend_from_slice(sample_sep(k).as_bytes());
                txt.extend_from_slice(num(*c as u32, 3).as_bytes());
                k += 1;
            }
            if !gray { bin.extend_from_slice(p); }
        }
        // text files end with or without a trailing newline
        if idx % 2 == 0 { txt.push(b'\n'); }
        // the same two files with a smaller maxval in the header (samples may exceed it): whatever the decoder makes of that,
        // it must make the same of the text and of the binary encoding
        if idx % 5 == 0 {
            for mv in ["100", "1"] {
                let swap = |b: &Vec<u8>| -> Vec<u8> { let pos = b.windows(3).position(|w| w == b"255").unwrap(); let mut o = b[..pos].to_vec(); o.extend_from_slice(mv.as_bytes()); o.extend_from_slice(&b[pos + 3..]); o };
                if padfield == 2 && padw > 0 { continue; }
                let (b2, t2) = (swap(&bin), swap(&txt));
                if let (Ok((a, _)), Ok((b, _))) = (decode_both(&b2), decode_both(&t2)) {
                    if a.is_ok() != b.is_ok() || (a.is_ok() && a != b) { r.violation(format!("pnm-text-binary|maxval {mv}|{mt}|{}", show(&t2)), format!("with maxval {mv}: binary file decoded to {a:?}, text file {:?} to {b:?}", show(&t2)), obj! {"kind" => "pnm-total", "bytes" => hex(&t2)}); }
                }
            }
        }
        let expect: Result<Img, String> = Ok((*w, *h, pxs.clone()));
        for (nm, bytes) in [("binary", &bin), ("text", &txt)] {
            let case = obj! {"kind" => "pnm-total", "bytes" => hex(bytes)};
            match decode_both(bytes) {
                Err(p) => r.violation(format!("pnm-header-panic|{nm}|{}", show(bytes)), p, case),
                Ok((a, _)) => {
                    if a != expect {
                        let case = obj! {"kind" => "pnm-expect", "bytes" => hex(bytes), "w" => *w, "h" => *h, "px" => hex(&pxs.concat())};
                        r.violation(format!("pnm-text-binary|{nm}|{mt}|{}", show(bytes)), format!("{nm} file {:?} decoded to {a:?}, expected {w}x{h} {pxs:?}", show(bytes)), case);
                    } else { r.nontrivial(); }
                }
            }
        }
    }
}

fn all_strings(cfg: &Cfg, alpha: &[u8], maxlen: usize, f: impl Fn(&[u8], &mut Report) + Sync) -> Report {
    let k = alpha.len() as u64;
    let mut total = Report::new();
    for len in 0..=maxlen {
        let n = k.pow(len as u32);
        let rep = par_range(cfg, n, |mut i, r| {
            let mut s = [0u8; 16];
            for j in 0..len { s[j] = alpha[(i % k) as usize]; i /= k; }
            f(&s[..len], r);
        });
        total.merge(rep);
    }
    total
}

fn mutations(cfg: &Cfg, seeds: &[Vec<u8>], f: impl Fn(&[u8], &mut Report) + Sync) -> Report {
    let mut total = Report::new();
    for s in seeds {
        // prefixes
        let rep = par_range(cfg, s.len() as u64 + 1, |i, r| f(&s[..i as usize], r));
        total.merge(rep);
        // single byte substitutions, deletions and duplications
        let rep = par_range(cfg, s.len() as u64 * 258, |i, r| {
            let (pos, v) = ((i / 258) as usize, i % 258);
            let mut m = s.clone();
            if v < 256 { m[pos] = v as u8; } else if v == 256 { m.remove(pos); } else { let c = m[pos]; m.insert(pos, c); }
            f(&m, r);
        });
        total.merge(rep);
    }
    total
}

fn run_pnm(cfg: &Cfg) -> ! {
    let quick = cfg.quick();
    let mut rep = Report::new();
    // (1) round trip, owned buffers: hostile bytes in the first two pixels
    for w in 0..=3u32 { for h in 0..=3u32 {
        let n = (w * h) as usize;
        let full6 = n >= 2 && (!quick || (w, h) == (2, 1) || (w, h) == (1, 2));
        let combos: u64 = if n == 0 { 1 } else if full6 { 9u64.pow(6) } else { 9u64.pow(3) };
        let r = par_range(cfg, combos, |mut i, r| {
            let mut px: Vec<[u8; 3]> = (0..n).map(|k| [(k * 37 + 1) as u8, (k * 11 + 2) as u8, (k * 5 + 3) as u8]).collect();
            let slots = if n == 0 { 0 } else if full6 { 6 } else { 3 };
            for s in 0..slots { px[s / 3][s % 3] = HOSTILE[(i % 9) as usize]; i /= 9; }
            pnm_roundtrip_owned(w, h, &px, r);
        });
        rep.merge(r);
    }}
    // scale sentinels: images with extents beyond 255 (and a long single row), hostile bytes throughout
    for (w, h) in [(300u32, 2u32), (2, 300), (257, 1), (1, 1000), (70, 70), (17, 5), (33, 31), (37, 37), (128, 3), (65535, 1), (65536, 1), (1, 65537), (70001, 2)] {
        let px: Vec<[u8; 3]> = (0..(w * h) as usize).map(|k| [HOSTILE[k % 9], HOSTILE[(k / 9 + 1) % 9], (k * 7 % 256) as u8]).collect();
        pnm_roundtrip_owned(w, h, &px, &mut rep);
        // the same data as P3 text and P6 binary must decode alike
        let mut txt = format!("P3\n{w} {h}\n255\n").into_bytes();
        let mut bin = format!("P6 {w} {h} 255\n").into_bytes();
        for p in &px { for c in p { txt.extend_from_slice(format!("{c} ").as_bytes()); } txt.push(b'\n'); bin.extend_from_slice(p); }
        rep.eval();
        match (decode_both(&txt), decode_both(&bin)) {
            (Ok((a, _)), Ok((b, _))) if a == b && a == Ok((w, h, px.clone())) => rep.nontrivial(),
            (a, b) => rep.violation(format!("pnm-text-binary|large|{w}x{h}"), format!("large {w}x{h} image: text decode {:?}, binary decode {:?}", a.map(|x| x.0.map(|i| (i.0, i.1, i.2.len()))), b.map(|x| x.0.map(|i| (i.0, i.1, i.2.len())))), obj! {"kind" => "pnm-rt-owned", "w" => w, "h" => h, "px" => hex(&px.concat())}),
        }
    }
    // (1b) every failure point of the output sink, for images around and beyond BufWriter's 8 KiB
    for (w, h) in [(0u32, 0u32), (1, 1), (2, 2), (3, 5), (10, 10), (52, 52), (53, 52), (100, 100)] { pnm_write_faults(w, h, &mut rep); }
    // (1c) every answer of the input stream: interruptions and short reads at every call, for each sub-format
    for (tag, f) in [("P6 2x2", &b"P6 2 2 255\n\x01\x02\x03 \n#\x0a\x0d\xff000"[..]), ("P3 2x1", b"P3\n# c\n2 1\n255\n1 2 3\n40 50 60\n"), ("P5 3x1", b"P5 3 1 255\n\x00\x80\xff"), ("P2 1x2", b"P2 1 2 15 0 15"), ("P4 bitmap", b"P4 8 1\n\xa5"), ("truncated", b"P6 2 2 255\n\x01\x02\x03"), ("P6 header split by comments", b"P6#a\n 1#b\n#c\n 1\n255\n\x09\x0a\x0b")] { pnm_read_answers(f, &mut rep, tag); }
    // (1e) streams of two and three images of every sub-format
    rep.merge(par_range(cfg, 36 * 7, pnm_mixed_stream));
    // (1d) headers with many digits: images whose extents have 4 .. 8 digits (the header has no fixed size)
    for (w, h) in if quick { vec![(1000u32, 1000u32), (10000, 100), (100, 10000), (1000000, 1), (1, 1000000), (100000, 10), (99999, 10)] } else { vec![(1000u32, 1000u32), (10000, 100), (100, 10000), (1000000, 1), (1, 1000000), (100000, 10), (99999, 10), (4000, 3000), (10000000, 1), (1, 10000000), (12345, 678)] } {
        let buf: Buf2<Color3> = Buf2::new_with((w, h), |x, y| rgb((x % 251) as u8, (y % 241) as u8, HOSTILE[((x + 2 * y) % 9) as usize]));
        let px: Vec<[u8; 3]> = buf.data().iter().map(|c| c.0).collect();
        pnm_roundtrip_view(buf.as_slice2(), &(w, h, px), &mut rep, &format!("owned {w}x{h} (many-digit header)"), obj! {"kind" => "pnm-digits", "w" => w, "h" => h});
    }
    // sub-views (strided), nested
    let mut r = Report::new();
    pnm_roundtrip_subviews(&mut r, true, None);
    rep.merge(r);
    // (2) text == binary with all header spellings
    let vals = [0u8, 9, 10, 32, 35, 48, 255];
    let mut imgs: Vec<Img> = vec![(1, 1, vec![[35, 10, 32]]), (2, 1, vec![[0, 255, 9], [48, 13, 10]]), (1, 2, vec![[255, 255, 255], [32, 35, 9]])];
    imgs.push((2, 2, (0..4).map(|i| [vals[i % 7], vals[(i + 3) % 7], vals[(2 * i + 1) % 7]]).collect()));
    imgs.push((3, 1, (0..3).map(|i| [vals[(i + 4) % 7], vals[(i + 5) % 7], vals[(i + 6) % 7]]).collect()));
    let seps = if quick { SEPS.iter().map(|s| s.to_string()).chain(["  ".to_string(), "\n #c\n".to_string(), " #c\n\t".to_string(), "\r\n".to_string()]).collect::<Vec<_>>() } else { sep_strings() };
    let ns = seps.len() as u64;
    let n = ns * ns * ns * 4 * 7 * imgs.len() as u64;
    rep.merge(par_range(cfg, n, |i, r| pnm_text_binary(i, r, &imgs, &seps)));
    // (3) totality
    let alpha = [b'P', b'1', b'2', b'3', b'5', b'6', b'0', b'9', b' ', b'\n', b'#', 0xFF];
    rep.merge(all_strings(cfg, &alpha, if quick { 5 } else { 7 }, |s, r| pnm_totality(s, r, "strings")));
    // headers x payloads
    let dimvals = ["0", "1", "2", "3", "255", "65535", "65536", "4294967295", "4294967296", "99999999999", "18446744073709551615", "18446744073709551616", "18446744073709551617", "340282366920938463463374607431768211457", "-1", "1.0", ""];
    let payloads: Vec<Vec<u8>> = {
        let a = [0u8, b'1', b' ', 0xFF];
        let mut v = vec![vec![]];
        for len in 1..=7usize { for i in 0..4u32.pow(len as u32) { let mut i = i; v.push((0..len).map(|_| { let c = a[(i % 4) as usize]; i /= 4; c }).collect()); } }
        v
    };
    let nd = dimvals.len() as u64;
    let hp = par_range(cfg, 5 * nd * nd * 4, |i, r| {
        let (f, wi, hi, mx) = (i % 5, i / 5 % nd, i / 5 / nd % nd, i / 5 / nd / nd);
        let magic = ["P2", "P3", "P4", "P5", "P6"][f as usize];
        let max = ["255", "0", "65535", "65536"][mx as usize];
        for p in &payloads {
            if (wi > 3 || hi > 3) && p.len() > 3 { continue; }
            let mut b = format!("{magic} {} {} {max}\n", dimvals[wi as usize], dimvals[hi as usize]).into_bytes();
            b.extend_from_slice(p);
            pnm_totality(&b, r, "hdr-payload");
        }
    });
    rep.merge(hp);
    let seeds: Vec<Vec<u8>> = vec![
        b"P6 2 2 255\n\x00\x01\x02\x10\x11\x12\xf0\xf1\xf2\xff\xfe\xfd".to_vec(),
        b"P5 3 2 255\n\x00\x20\x0a\x23\xff\x30".to_vec(),
        b"P3\n# comment\n2 1\n255\n1 2 3  40 50 60\n".to_vec(),
        b"P2 2 2 255\n0 1\n254 255\n".to_vec(),
        b"P4 8 2\n\xa5\x5a".to_vec(),
        b"P6\t1\r1 #x\n 255 \x23\x0a\x20".to_vec(),
        b"P3 1 1 255 255 0 7".to_vec(),
        b"P6 0 0 255\n".to_vec(),
        b"P6 3 0 255\n".to_vec(),
        b"P5 1 3 255\n\x01\x02\x03\x04".to_vec(),
        b"P2\n1\n1\n255\n#end\n9".to_vec(),
        b"P6 1 2 65535\n\x00\x00\x00\x00\x00\x00".to_vec(),
    ];
    rep.merge(mutations(cfg, &seeds, |s, r| pnm_totality(s, r, "mutated")));
    rep.sample(0, || obj! {"roundtrip_owned" => "3x3 hostile first pixels", "text_binary_file" => "P3 #c\\n2\\n# 7 7 7\\n1\\t255 ...", "totality_string" => "P6 0 9\\n#\\xff"});
    rep.sample(1, || obj! {"seed" => show(&seeds[5])});
    rep.finish(cfg, "exploration",
        "round trip write_ppm->parse_pnm/read_pnm for all dims<=3x3 with hostile bytes in the leading pixels, every (nested) sub-rectangle view of a 5x5 parent and directly constructed strided views; P3==P6 and P2==P5 under every header spelling (separator strings in each gap x terminator x sample separators); totality over all byte strings <= L over 12 symbols, header x payload products with hostile dimension fields, and every prefix / 1-byte substitution, deletion, duplication of 12 seed files. non-trivial = decode returned Ok and was compared.",
        &["reference header tokenizer (harness-side) defines 'dimensions in the header' for well-formed headers only", "maxval is not applied to samples by the decoder (not part of the property)"])
}

// ------------------------------------------------------------------ OBJ

type ObjMesh = (Vec<[u32; 3]>, Vec<[usize; 3]>); // position bits, faces

fn obj_decode(bytes: &[u8]) -> Result<(Result<ObjMesh, String>, Result<ObjMesh, String>), String> {
    vlib::inflight::set(bytes);
    let conv = |r: Result<re::geom::mesh::Builder<()>, re_geom::io::Error>| -> Result<Result<ObjMesh, String>, String> {
        match r {
            Err(e) => Ok(Err(format!("{e:?}"))),
            Ok(b) => {
                let nv = b.mesh.verts.len();
                for f in &b.mesh.faces { if f.0.iter().any(|&i| i >= nv) { return Err(format!("builder has face {:?} with only {nv} vertices", f.0)); } }
                let m = caught(|| b.build()).map_err(|p| format!("build() panicked: {p}"))?;
                Ok(Ok((m.verts.iter().map(|v| v.pos.0.map(f32::to_bits)).collect(), m.faces.iter().map(|t| t.0).collect())))
            }
        }
    };
    let a = caught(|| conv(parse_obj(bytes.iter().copied()))).map_err(|p| format!("parse_obj panicked: {p}"))??;
    let b = caught(|| conv(read_obj(bytes))).map_err(|p| format!("read_obj panicked: {p}"))??;
    // the path-based entry point on one input in 512 (by content hash)
    if bytes.iter().fold(bytes.len() as u32, |a, b| a.wrapping_mul(131).wrapping_add(*b as u32)) % 512 == 0 {
        let path = scratch_file("obj");
        if std::fs::write(&path, bytes).is_ok() {
            let c = caught(|| conv(load_obj(&path))).map_err(|p| format!("load_obj panicked: {p}"))??;
            let _ = std::fs::remove_file(&path);
            if c != a { return Err(format!("load_obj from a file gives {c:?} but parse_obj on the same bytes gives {a:?}")); }
        }
    }
    Ok((a, b))
}

fn obj_totality(bytes: &[u8], r: &mut Report, kind: &str) {
    r.eval();
    let case = || obj! {"kind" => "obj-total", "bytes" => hex(bytes)};
    match obj_decode(bytes) {
        Err(p) => r.violation(format!("obj-panic|{}", show(bytes)), format!("{p} on {:?}", show(bytes)), case()),
        Ok((a, b)) => {
            if a != b { r.violation(format!("obj-read-vs-parse|{}", show(bytes)), format!("parse_obj={a:?} read_obj={b:?}"), case()); }
            match a {
                Ok(m) => { r.h(&format!("{kind}:ok")); if !m.0.is_empty() || !m.1.is_empty() { r.nontrivial(); } }
                Err(e) => r.h(&format!("{kind}:err:{}", e.split('(').next().unwrap_or(&e))),
            }
        }
    }
}

// (the last three are long literals a double-precision exporter prints: just above an f32 rounding midpoint, so that
// parsing via f64 and casting rounds twice and lands one ulp low; expected values are the correctly rounded ones)
const COORDS: [(&str, f32); 14] = [("0", 0.0), ("1", 1.0), ("-2.5", -2.5), ("1e3", 1000.0), ("-1.0e0", -1.0), ("+.5", 0.5), ("0.03", 0.03), ("1.23e-2", 0.0123), ("1.5E3", 1500.0), ("2E+1", 20.0), ("-4.E-1", -0.4),
    ("1.0000000596046448", f32::from_bits(0x3f800001)), ("1.6777217000000000000001e7", f32::from_bits(0x4b800001)), ("-8388608.5000000000000001", f32::from_bits(0xcb000001))];
const DECOR: [&str; 13] = ["", "  ", "\t", "trail", "blank", "comment", "icomment", "cr", "longcomment", "deepindent", "bscomment", "tabsep", "mixsep"];

/// One grammar-generated file. idx encodes (V, faces, form, layout, decoration, line ending, final newline).
fn obj_grammar(idx: u64, r: &mut Report, maxv: usize, maxf: usize) {
    // decode idx
    let mut i = idx;
    let mut take = |n: u64| { let v = i % n; i /= n; v };
    let nv = take(maxv as u64 + 1) as usize;
    let nf = if nv == 0 { 0 } else { take(maxf as u64 + 1) as usize };
    let mut faces = vec![];
    for _ in 0..nf { let t = take((nv * nv * nv) as u64) as usize; faces.push([t % nv, t / nv % nv, t / nv / nv]); }
    let form = take(4) as usize; // v, v/vt, v//vn, v/vt/vn
    let layout = take(4) as usize; // faces after, before, between (after first vertex), interleaved
    let dec = take(DECOR.len() as u64) as usize;
    let crlf = take(2) == 1;
    let final_nl = take(2) == 1;
    let coord_rot = take(COORDS.len() as u64) as usize;
    if i != 0 { return; } // out of family
    // the two scale decorations (3000-character lines) only with the plainest remaining choices
    if (dec == 8 || dec == 9) && (coord_rot != 0 || crlf || !final_nl || nf > 1) { return; }
    if dec == 10 && coord_rot > 2 { return; }
    if dec >= 11 && (coord_rot > 3 || !final_nl) { return; }
    r.eval();
    let eol = if crlf { "\r\n" } else { "\n" };
    let mut vlines = vec![];
    let mut vexp = vec![];
    for k in 0..nv {
        let c: Vec<usize> = (0..3).map(|j| (k * 3 + j + coord_rot) % COORDS.len()).collect();
        vlines.push(format!("v {} {} {}", COORDS[c[0]].0, COORDS[c[1]].0, COORDS[c[2]].0));
        vexp.push([COORDS[c[0]].1.to_bits(), COORDS[c[1]].1.to_bits(), COORDS[c[2]].1.to_bits()]);
    }
    let mut extra = vec![];
    if form == 1 || form == 3 { for k in 0..nv.max(1) { extra.push(format!("vt 0.{k} 1")); } }
    // normals are arbitrary triples in a well-formed file: zero, denormal-small, non-unit and huge ones included
    const NORMALS: [&str; 6] = ["0 0 1", "0 0 0", "1e-30 0 1e-25", "0.0 -0.0 0e0", "3 4 0", "1e30 -1e30 1e30"];
    if form >= 2 { for k in 0..nv.max(1) { extra.push(format!("vn {}", NORMALS[(k + coord_rot) % 6])); } }
    let flines: Vec<String> = faces.iter().map(|f| {
        let t: Vec<String> = f.iter().map(|&v| { let v = v + 1; match form { 0 => format!("{v}"), 1 => format!("{v}/{v}"), 2 => format!("{v}//{v}"), _ => format!("{v}/{v}/{v}") } }).collect();
        format!("f {} {} {}", t[0], t[1], t[2])
    }).collect();
    let mut lines: Vec<String> = vec![];
    match layout {
        0 => { lines.extend(vlines.clone()); lines.extend(extra.clone()); lines.extend(flines.clone()); }
        1 => { lines.extend(flines.clone()); lines.extend(extra.clone()); lines.extend(vlines.clone()); }
        2 => { lines.extend(vlines.iter().take(1).cloned()); lines.extend(flines.clone()); lines.extend(vlines.iter().skip(1).cloned()); lines.extend(extra.clone()); }
        _ => {
            let mut fi = flines.iter();
            for (k, v) in vlines.iter().enumerate() { lines.push(v.clone()); if k % 2 == 0 { if let Some(f) = fi.next() { lines.push(f.clone()); } } }
            lines.extend(extra.clone()); lines.extend(fi.cloned());
        }
    }
    let mut text = String::new();
    for (k, l) in lines.iter().enumerate() {
        let d = if dec == 0 { "" } else { DECOR[dec] };
        match d {
            "" => text.push_str(l),
            "trail" => { text.push_str(l); text.push_str("  \t"); }
            "blank" => { text.push_str(eol); text.push_str(l); }
            "comment" => { text.push_str("# v 9 9 9"); text.push_str(eol); text.push_str(l); }
            "icomment" => { text.push_str("   #f 1 1 1"); text.push_str(eol); text.push_str(l); }
            "cr" => { text.push_str(l); text.push('\r'); }
            // scale: a 3000-character comment line ending in something that looks like a vertex, and 2000 blanks of indentation
            "longcomment" => { text.push('#'); for _ in 0..1500 { text.push_str("x "); } text.push_str(" v 7 7 7"); text.push_str(eol); text.push_str(l); }
            "deepindent" => { for _ in 0..2000 { text.push(' '); } text.push_str(l); }
            // a comment line whose last byte is a backslash (a Windows path): it ends at its line break like any other comment
            // tokens separated by tabs, or by runs of blanks and tabs, instead of single spaces
            "tabsep" => text.push_str(&l.replace(' ', "\t")),
            "mixsep" => text.push_str(&l.replace(' ', " \t  ")),
            "bscomment" => { text.push_str("# exported to C:\\models\\"); text.push_str(eol); text.push_str(l); }
            ws => { text.push_str(ws); text.push_str(l); }
        }
        if k + 1 < lines.len() || final_nl { text.push_str(eol); }
    }
    let bytes = text.as_bytes();
    let expect: ObjMesh = (vexp, faces);
    let case = obj! {"kind" => "obj-expect", "bytes" => hex(bytes), "idx" => idx, "maxv" => maxv, "maxf" => maxf};
    match obj_decode(bytes) {
        Err(p) => r.violation(format!("obj-wellformed-panic|{}", show(bytes)), format!("{p}\nfile:\n{text}"), case),
        Ok((a, _)) => match a {
            Ok(m) if m == expect => { if nf > 0 { r.nontrivial(); } r.h(&format!("grammar:layout{layout}:form{form}")); }
            other => {
                let cls = match &other { Err(e) => format!("rejected:{}", e.split('(').next().unwrap_or(e)), Ok(_) => "wrong-mesh".to_string() };
                r.violation(format!("obj-wellformed|{cls}|layout{layout}|form{form}|dec{dec}|{}", show(bytes)), format!("well-formed file decoded to {other:?}, expected {} verts, faces {:?}\nfile:\n{text}", expect.0.len(), expect.1), case)
            }
        },
    }
}

/// The OBJ reader under every answer of its input stream: interruptions and short reads change nothing (read_obj ≡ parse_obj on
/// the same bytes); a device error while bytes are outstanding is an error, never a (truncated) mesh.
fn obj_read_answers(bytes: &[u8], r: &mut Report, tag: &str) {
    let conv = |x: Result<re::geom::mesh::Builder<()>, re_geom::io::Error>| x.map(|b| { let m = b.build(); (m.verts.iter().map(|v| v.pos.0.map(f32::to_bits)).collect::<Vec<_>>(), m.faces.iter().map(|t| t.0).collect::<Vec<_>>()) }).map_err(|e| format!("{e:?}"));
    let want = match caught(|| conv(parse_obj(bytes.iter().copied()))) { Ok(w) => w, Err(_) => return };
    let case = || obj! {"kind" => "obj-answers", "bytes" => hex(bytes)};
    let mut plans: Vec<Vec<u8>> = vec![vec![]];
    for k in 0..=bytes.len() + 1 { let mut p = vec![255u8; k]; p.push(0); plans.push(p); }
    for k in 0..bytes.len() { let mut p = vec![1u8; k]; p.extend([0, 0]); plans.push(p); }
    for n in 1..=3u8 { plans.push(vec![n; 2 * bytes.len() + 4]); }
    plans.push((0..2 * bytes.len() + 4).map(|k| if k % 2 == 0 { 0 } else { 1 }).collect());
    for plan in plans {
        r.eval();
        let mut rd = Moody { data: bytes, pos: 0, plan: plan.clone(), call: 0 };
        match caught(|| conv(read_obj(&mut rd))) {
            Err(p) => { r.violation(format!("obj-panic|reader-answers|{tag}"), format!("read_obj panicked on an interrupted / short-reading reader: {p}"), case()); return; }
            Ok(g) => { let same = match (&g, &want) { (Ok(a), Ok(b)) => a == b, (Err(_), Err(_)) => true, _ => false }; if !same { r.violation(format!("obj-read-vs-parse|reader-answers|{tag}"), format!("read_obj over a reader with answers {:?}.. gives {:?} but parse_obj on the same bytes gives {:?}", &plan[..plan.len().min(12)], g.as_ref().map(|m| (m.0.len(), m.1.len())), want.as_ref().map(|m| (m.0.len(), m.1.len()))), case()); return; } if want.is_ok() { r.nontrivial(); } }
        }
    }
    for k in 0..bytes.len() {
        r.eval();
        let mut plan = vec![1u8; k]; plan.push(254);
        let mut rd = Moody { data: bytes, pos: 0, plan, call: 0 };
        match caught(|| conv(read_obj(&mut rd))) {
            Err(p) => { r.violation(format!("obj-panic|device-error|{tag}"), format!("read_obj panicked on a reader that fails after {k} bytes: {p}"), case()); return; }
            Ok(Ok(m)) => { r.violation(format!("obj-read-vs-parse|device-error|{tag}"), format!("read_obj returned a mesh ({} vertices, {} faces) although the reader failed with a device error after {k} of {} bytes", m.0.len(), m.1.len(), bytes.len()), case()); return; }
            Ok(Err(_)) => { r.nontrivial(); }
        }
    }
}

/// Very long runs of blank and comment lines, each parsed in a child process (see below).
fn obj_long_runs(quick: bool, rep: &mut Report) {
    // very long runs of blank and comment lines (a licence header, a stripped section): the work per skipped line is constant -
    // in particular no stack. Parsed in a child process on a thread with the default 2 MiB stack, because exhausting the stack
    // aborts the process; the child reports the decoded mesh.
    for variant in 0..if quick { 4u32 } else { 6 } {
        rep.eval();
        let exe = std::env::current_exe().expect("current_exe");
        let n = if quick { 300_000u32 } else { 3_000_000 };
        let out = std::process::Command::new(&exe).args(["obj-long-child", &variant.to_string(), &n.to_string()]).output();
        let key = format!("obj-wellformed|long-run|variant{variant}");
        let what_v = ["blank lines", "comment lines", "blank and comment lines alternating, CRLF", "lines of blanks and tabs", "comment lines after the last item, no final newline", "blank lines between every two items"][variant as usize];
        let case = obj! {"kind" => "obj-long", "variant" => variant as u64, "n" => n as u64};
        match out {
            Err(e) => panic!("cannot run child: {e}"),
            Ok(o) if o.status.success() => { rep.nontrivial(); rep.h("long-run:ok"); }
            Ok(o) if o.status.code() == Some(3) => rep.violation(key, format!("a well-formed file with a run of {n} {what_v} decoded wrongly: {}", String::from_utf8_lossy(&o.stdout).trim()), case),
            Ok(o) => rep.violation(key, format!("parsing a well-formed file with a run of {n} {what_v} killed the process ({:?}): {}", o.status, String::from_utf8_lossy(&o.stderr).lines().last().unwrap_or("")), case),
        }
    }
}

fn run_obj(cfg: &Cfg) -> ! {
    let quick = cfg.quick();
    let mut rep = Report::new();
    let (maxv, maxf) = if quick { (3usize, 2usize) } else { (4, 2) };
    // upper bound on idx space (mixed radix with the largest radices); out-of-family indices return early
    let space = (maxv as u64 + 1) * (maxf as u64 + 1) * ((maxv * maxv * maxv) as u64).pow(maxf as u32) * 4 * 4 * DECOR.len() as u64 * 2 * 2 * COORDS.len() as u64;
    rep.merge(par_range(cfg, space, |i, r| obj_grammar(i, r, maxv, maxf)));
    rep.set("grammar_index_space", space);
    // scale sentinels: meshes with hundreds / tens of thousands of vertices (indices beyond 255 and 65535), all index forms
    for (nv, form) in [(300usize, 0usize), (300, 3), (70000, 0), (70000, 2)] {
        let mut text = String::new();
        let mut faces = vec![];
        let fmt = |v: usize| match form { 0 => format!("{v}"), 2 => format!("{v}//{v}"), _ => format!("{v}/{v}/{v}") };
        // faces first for one half, after the vertices for the other
        let tri = |k: usize| [k % nv, (k * 7 + nv - 1) % nv, (k * 13 + 255) % nv];
        for k in 0..150 { let t = tri(k); faces.push(t); text.push_str(&format!("f {} {} {}\n", fmt(t[0] + 1), fmt(t[1] + 1), fmt(t[2] + 1))); }
        for k in 0..nv { text.push_str(&format!("v {k} {} 0.5\n", k % 7)); if form >= 2 { text.push_str("vn 0 1 0\n"); } if form == 3 { text.push_str("vt 0.5 0.5\n"); } }
        for k in [nv - 1, 255, 256, 65535 % nv, 65536 % nv] { let t = [k, 0, nv - 1]; faces.push(t); text.push_str(&format!("f {} {} {}\n", fmt(t[0] + 1), fmt(t[1] + 1), fmt(t[2] + 1))); }
        rep.eval();
        let expect: ObjMesh = ((0..nv).map(|k| [(k as f32).to_bits(), ((k % 7) as f32).to_bits(), 0.5f32.to_bits()]).collect(), faces);
        match obj_decode(text.as_bytes()) {
            Ok((Ok(m), _)) if m == expect => rep.nontrivial(),
            other => rep.violation(format!("obj-wellformed|large|nv={nv}|form{form}"), format!("large well-formed mesh ({nv} vertices, form {form}) decoded to {:?}", other.map(|(a, _)| a.map(|m| (m.0.len(), m.1.len())))), obj! {"kind" => "obj-total", "bytes" => hex(&text.as_bytes()[..2000.min(text.len())])}),
        }
    }
    let alpha = [b'v', b'f', b'n', b't', b' ', b'\n', b'#', b'/', b'0', b'1', b'2', b'-', b'.', b'e', b'\r', 0xC3];
    rep.merge(all_strings(cfg, &alpha, if quick { 5 } else { 6 }, |s, r| obj_totality(s, r, "strings")));
    // face lines with hostile index tokens in every position, with 0..3 vertices defined, before and after
    let toks = ["0", "1", "2", "3", "4", "-1", "18446744073709551615", "18446744073709551616", "1/0", "1//0", "0/1", "/", "1/", "//1", "1/1/0", "1/2/3/4", "", "1e0", "+1", "1//", "3/3/3"];
    let nt = toks.len() as u64;
    rep.merge(par_range(cfg, nt * nt * nt * 4 * 2 * 3, |i, r| {
        let (a, b, c, nv, before, attr) = (i % nt, i / nt % nt, i / nt / nt % nt, i / nt / nt / nt % 4, i / nt / nt / nt / 4 % 2, i / nt / nt / nt / 8);
        let mut vs = String::new();
        for k in 0..nv { vs.push_str(&format!("v {k} 0 1\n")); }
        for k in 0..attr { vs.push_str(&format!("vt {k} 0\nvn {k} 0 1\n")); }
        let f = format!("f {} {} {}\n", toks[a as usize], toks[b as usize], toks[c as usize]);
        let s = if before == 1 { format!("{f}{vs}") } else { format!("{vs}{f}") };
        obj_totality(s.as_bytes(), r, "face-tokens");
    }));
    // coordinate tokens over the whole f32 range in every position of a vertex line: decimal literals (subnormal, smallest
    // normal, largest, beyond 7 digits, rounding to zero) must decode to the correctly rounded value; the others
    // (infinities, NaN, overflowing exponents, malformed numerals) are judged for totality (error or a buildable mesh)
    {
        let well = ["1e-40", "-1e-45", "1.4e-45", "1.1754942e-38", "1.17549435e-38", "-1.17549435e-38", "3.4028235e38", "-3.4028235e38", "1e38", "0.000000000000000000000000000000000000001", "123456789", "16777217", "0.1", "1e-46", "4.2E-42", "000.5", "5.", "-0.0"];
        let other = ["inf", "-inf", "+inf", "nan", "NaN", "-nan", "infinity", "Infinity", "1e39", "-1e39", "3.4028236e38", "1e400", "1e-400", "1e", "e5", ".", "+", "-", "0x10", "1_0", "1,5", "1.2.3", "--1", "1e+", "1e-", "1f", "1e5e5", "\u{221e}", "\u{661}"];
        let (nw, no) = (well.len() as u64, other.len() as u64);
        rep.merge(par_range(cfg, (nw + no) * 3 * 2, |i, r| {
            let (k, pos, crlf) = ((i % (nw + no)) as usize, (i / (nw + no) % 3) as usize, i / (nw + no) / 3 == 1);
            let tok = if k < well.len() { well[k] } else { other[k - well.len()] };
            let mut c = ["0.5", "-2", "7"]; c[pos] = tok;
            let nl = if crlf { "\r\n" } else { "\n" };
            let text = format!("v {} {} {}{nl}v 1 0 0{nl}v 0 1 0{nl}f 1 2 3{nl}", c[0], c[1], c[2]);
            if k >= well.len() { obj_totality(text.as_bytes(), r, "coord-tokens"); return; }
            r.eval();
            let val = |t: &str| t.parse::<f32>().unwrap().to_bits();
            let expect: ObjMesh = (vec![[val(c[0]), val(c[1]), val(c[2])], [1.0f32.to_bits(), 0, 0], [0, 1.0f32.to_bits(), 0]], vec![[0, 1, 2]]);
            match obj_decode(text.as_bytes()) {
                Ok((Ok(m), Ok(m2))) if m == expect && m2 == expect => r.nontrivial(),
                other => r.violation(format!("obj-wellformed|coord-token|{tok}|pos{pos}"), format!("vertex line with the coordinate literal {tok}: decoded to {:?}, expected the correctly rounded value {:e}", other, f32::from_bits(val(tok))), obj! {"kind" => "obj-total", "bytes" => hex(text.as_bytes())}),
            }
        }));
    }
    // the first token of a line from a lexicon of things editors, exporters and other platforms put there: byte order marks
    // (whole, doubled, truncated, glued to an item), non-ASCII blanks and line separators, control characters, unknown and
    // upper-case items - alone on the line, before a vertex, as the last line without a newline, between two items
    {
        let lex: Vec<Vec<u8>> = vec![b"\xEF\xBB\xBF".to_vec(), b"\xEF\xBB\xBF\xEF\xBB\xBF".to_vec(), b"\xEF\xBB".to_vec(), b"\xEF".to_vec(), b"\xEF\xBB\xBFv".to_vec(), b"\xEF\xBB\xBF#".to_vec(), b"v\xEF\xBB\xBF".to_vec(),
            b"\xFF\xFE".to_vec(), b"\xFE\xFF".to_vec(), "\u{a0}".into(), "\u{2028}".into(), "\u{85}".into(), "\u{200b}".into(), "\u{3000}".into(), b"\0".to_vec(), b"\x0b".to_vec(), b"\x0c".to_vec(), b"\x1a".to_vec(), b"\x7f".to_vec(),
            b"V".to_vec(), b"F".to_vec(), b"vv".to_vec(), b"vp".to_vec(), b"g".to_vec(), b"usemtl".to_vec(), b"mtllib".to_vec(), b"l".to_vec(), b"p".to_vec(), b"o".to_vec(), b"s".to_vec(), b"\\".to_vec(), b"#".to_vec(), b"##".to_vec(), b"f#".to_vec(), b"v#".to_vec()];
        let nl = lex.len() as u64;
        rep.merge(par_range(cfg, nl * 6 * 2, |i, r| {
            let (t, shape, crlf) = (&lex[(i % nl) as usize], i / nl % 6, i / nl / 6 == 1);
            let e: &[u8] = if crlf { b"\r\n" } else { b"\n" };
            let cat = |parts: &[&[u8]]| parts.concat();
            let bytes = match shape {
                0 => cat(&[t]),
                1 => cat(&[t, e]),
                2 => cat(&[t, b" v 1 2 3", e, b"v 0 0 0", e]),
                3 => cat(&[b"v 0 0 0", e, b"v 1 0 0", e, b"v 0 1 0", e, t, e, b"f 1 2 3", e]),
                4 => cat(&[b"v 0 0 0", e, b"v 1 0 0", e, b"v 0 1 0", e, b"f 1 2 3", e, b"  ", t]),
                _ => cat(&[t, b" 1 2 3", e, t, b" ", t, e, b"v 0 0 0", e]),
            };
            obj_totality(&bytes, r, "item-tokens");
        }));
    }
    obj_long_runs(quick, &mut rep);
    // every answer of the input stream (interruptions, short reads, device errors at every byte)
    for (tag, f) in [("triangle", &b"v 0 0 0\nv 1 0 0\nv 0 1 0\nf 1 2 3\n"[..]), ("faces first, crlf, no final newline", b"f 1//1 2//1 3//1\r\n# c\r\nvn 0 0 1\r\nv 1.5 -2 .5\r\nv 4 5 6\r\nv 7 8 9"), ("malformed", b"v 1 2\nf 1 2 3\n"), ("empty", b""), ("comment only", b"# nothing\n")] { obj_read_answers(f, &mut rep, tag); }
    let seeds: Vec<Vec<u8>> = vec![
        b"v 0 0 0\nv 1 0 0\nv 0 1 0\nf 1 2 3\n".to_vec(),
        b"f 1 2 3\nv 0 0 0\nv 1 0 0\nv 0 1 0\n".to_vec(),
        b"v 0 0 0\nv 1 0 0\nv 0 1 0\nv 1 1 0\nf 1 2 3 4\n".to_vec(),
        b"v 0 0 0\nv 1 0 0\nv 0 1 0\nf 1 2 3 3 2 1 1\n".to_vec(),
        b"v 1.5e1 -2 .5\nvt 0 1\nvn 0 0 1\nf 1/1/1 1/1/1 1/1/1\n".to_vec(),
        b"# c\n\n  v 1 2 3\r\n\tv 4 5 6\r\nv 7 8 9\nf 1//1 2//1 3//1\nvn 1 0 0\n".to_vec(),
        b"f 1/1 2/2 3/3\nvt 0 0\nvt 1 0\nvt 0 1\nv 0 0 0\nv 1 0 0\nv 0 1 0".to_vec(),
        b"v 0 0 0\nf 1 1 1\nf 1 1 1\n".to_vec(),
        b"vn 0 1 0\nvt 0 0\n".to_vec(),
        b"v 1 2\n".to_vec(),
        b"f 1 2\n".to_vec(),
        b"v 0 0 0\nv 0 0 0\nf 2 1 2\nf 1 2 1\nv 9 9 9\nf 3 3 3\n".to_vec(),
        b"v inf nan -0\nf 1 1 1\n".to_vec(),
        b"v 0 0 0 1 1\nf 1 1 1 # x\n".to_vec(),
        b"o name\ns off\nv 0 0 0\n".to_vec(),
    ];
    rep.merge(mutations(cfg, &seeds, |s, r| obj_totality(s, r, "mutated")));
    // two-byte substitutions on the short quad seed (index bytes): all pairs of positions in the face line
    let quad = seeds[2].clone();
    let fl = quad.len() - 10;
    rep.merge(par_range(cfg, 10 * 10 * 20 * 20, |i, r| {
        let sub = b"0123456789/- \n.e+vf#";
        let (p1, p2, c1, c2) = (i % 10, i / 10 % 10, i / 100 % 20, i / 2000);
        let mut m = quad.clone();
        m[fl + p1 as usize] = sub[c1 as usize];
        m[fl + p2 as usize] = sub[c2 as usize];
        obj_totality(&m, r, "mutated2");
    }));
    rep.sample(0, || obj! {"grammar_file" => "v 0 1 -2.5\\nf 1/1 1/1 1/1\\nv 1e3 -1.0e0 +.5\\n...", "face_tokens" => "f 0 18446744073709551616 1//0", "string" => "f 1\\n/v"});
    rep.finish(cfg, "exploration",
        "grammar family: V<=maxv vertices with coordinate literals from a table (plain/exponent/signed), F<=maxf faces over ALL index triples, 4 index forms, 4 layouts (faces after/before/between/interleaved), 8 decorations, LF/CRLF, final newline or not -> must decode to exactly the generator's mesh (positions bit-equal); totality: all byte strings <= L over 16 symbols, all triples of hostile index tokens x 0..3 vertices x before/after, prefixes and 1-byte substitutions/deletions/duplications of 15 seed files, 2-byte substitutions in a quad face line. non-trivial = decoded Ok with non-empty mesh (totality) or faces>0 (grammar).",
        &["faces with more than three indices: only totality is judged (the statement speaks of triangles)"])
}

/// Child process of the long-run family: build the file, parse it on a 2 MiB thread, exit 0 if the mesh is the expected one,
/// 3 if not (a stack overflow aborts the process instead).
fn obj_long_child(variant: u32, n: u32) -> ! {
    let mut text = String::new();
    let items = ["v 0 0 0", "v 1 0 0", "v 0 1 0", "f 1 2 3"];
    let run = |text: &mut String, n: u32| for k in 0..n { match variant { 0 | 5 => text.push('\n'), 1 | 4 => text.push_str("# c\n"), 2 => text.push_str(if k % 2 == 0 { "\r\n" } else { "#\r\n" }), _ => text.push_str(" \t \n") } };
    match variant {
        4 => { for l in items { text.push_str(l); text.push('\n'); } run(&mut text, n); text.push_str("# end"); }
        5 => { for l in items { text.push_str(l); text.push('\n'); run(&mut text, n / 4); } }
        _ => { text.push_str(items[0]); text.push('\n'); run(&mut text, n); for l in &items[1..] { text.push_str(l); text.push('\n'); } }
    }
    let h = std::thread::Builder::new().stack_size(2 << 20).spawn(move || {
        let r = parse_obj(text.bytes());
        match r { Ok(b) => { let m = b.build(); format!("{:?} {:?}", m.verts.iter().map(|v| v.pos.0).collect::<Vec<_>>(), m.faces.iter().map(|t| t.0).collect::<Vec<_>>()) } Err(e) => format!("error {e:?}") }
    }).unwrap();
    let got = h.join().unwrap_or_else(|_| "panicked".into());
    let want = "[[0.0, 0.0, 0.0], [1.0, 0.0, 0.0], [0.0, 1.0, 0.0]] [[0, 1, 2]]";
    println!("{got}");
    std::process::exit(if got == want { 0 } else { 3 });
}

fn main() {
    let a: Vec<String> = std::env::args().collect();
    if a.len() == 4 && a[1] == "obj-long-child" { obj_long_child(a[2].parse().unwrap(), a[3].parse().unwrap()); }
    silence_panics();
    vlib::inflight::install();
    let cfg = Cfg::from_args(|s| if s == "pnm" { "C13".into() } else { "C14".into() });
    if cfg.replay.is_some() {
        replay_main(&cfg, |case, r| {
            let kind = case.get("kind").and_then(|j| j.as_str()).unwrap_or("");
            let bytes = case.get("bytes").and_then(|j| j.as_str()).map(unhex).unwrap_or_default();
            match kind {
                "pnm-total" => pnm_totality(&bytes, r, "replay"),
                "pnm-expect" => {
                    let (w, h) = (case.get("w").and_then(|j| j.as_u64()).unwrap_or(0) as u32, case.get("h").and_then(|j| j.as_u64()).unwrap_or(0) as u32);
                    let px: Vec<[u8; 3]> = unhex(case.get("px").and_then(|j| j.as_str()).unwrap_or("")).chunks(3).map(|c| [c[0], c[1], c[2]]).collect();
                    match decode_both(&bytes) {
                        Ok((a, _)) if a == Ok((w, h, px.clone())) => {}
                        other => r.violation(format!("pnm-text-binary|replay|{}", show(&bytes)), format!("decoded {other:?}"), case.clone()),
                    }
                }
                "pnm-rt-owned" => {
                    let (w, h) = (case.get("w").and_then(|j| j.as_u64()).unwrap_or(0) as u32, case.get("h").and_then(|j| j.as_u64()).unwrap_or(0) as u32);
                    let px: Vec<[u8; 3]> = unhex(case.get("px").and_then(|j| j.as_str()).unwrap_or("")).chunks(3).map(|c| [c[0], c[1], c[2]]).collect();
                    pnm_roundtrip_owned(w, h, &px, r);
                }
                "pnm-rt-view" => {
                    let v: Vec<u32> = case.get("rect").and_then(|j| j.as_arr()).map(|a| a.iter().map(|x| x.as_u64().unwrap_or(0) as u32).collect()).unwrap_or_default();
                    pnm_roundtrip_subviews(r, true, Some((v[0], v[1], v[2], v[3], v[4], v[5], v[6], v[7])));
                }
                "pnm-rt-direct" => { let mut rr = Report::new(); pnm_roundtrip_subviews(&mut rr, false, None); for (_, v) in rr.viols { if v.key.contains("direct") { r.violation(v.key, v.what, v.case); } } }
                "pnm-faults" => pnm_write_faults(case.get("w").and_then(|j| j.as_u64()).unwrap_or(0) as u32, case.get("h").and_then(|j| j.as_u64()).unwrap_or(0) as u32, r),
                "pnm-mixed-stream" => pnm_mixed_stream(case.get("i").and_then(|j| j.as_u64()).unwrap_or(0), r),
                "pnm-answers" => pnm_read_answers(&bytes, r, "replay"),
                "pnm-digits" => { let (w, h) = (case.get("w").and_then(|j| j.as_u64()).unwrap_or(0) as u32, case.get("h").and_then(|j| j.as_u64()).unwrap_or(0) as u32); let buf: Buf2<Color3> = Buf2::new_with((w, h), |x, y| rgb((x % 251) as u8, (y % 241) as u8, HOSTILE[((x + 2 * y) % 9) as usize])); let px: Vec<[u8; 3]> = buf.data().iter().map(|c| c.0).collect(); pnm_roundtrip_view(buf.as_slice2(), &(w, h, px), r, "replay", case.clone()); }
                "obj-answers" => obj_read_answers(&bytes, r, "replay"),
                "obj-total" => obj_totality(&bytes, r, "replay"),
                "obj-long" => {
                    let (variant, n) = (case.get("variant").and_then(|j| j.as_u64()).unwrap_or(0), case.get("n").and_then(|j| j.as_u64()).unwrap_or(0));
                    let o = std::process::Command::new(std::env::current_exe().unwrap()).args(["obj-long-child", &variant.to_string(), &n.to_string()]).output().expect("child");
                    if !o.status.success() { r.violation(format!("obj-wellformed|long-run|variant{variant}"), format!("child: {:?} {}", o.status, String::from_utf8_lossy(&o.stdout).trim()), case.clone()); }
                }
                "obj-expect" => {
                    let idx = case.get("idx").and_then(|j| j.as_u64()).unwrap_or(0);
                    let maxv = case.get("maxv").and_then(|j| j.as_u64()).unwrap_or(3) as usize;
                    let maxf = case.get("maxf").and_then(|j| j.as_u64()).unwrap_or(2) as usize;
                    obj_grammar(idx, r, maxv, maxf);
                }
                k => machinery_error(&format!("unknown replay kind {k}")),
            }
        });
    }
    if cfg.part.starts_with("objlong") {
        let mut rep = Report::new();
        obj_long_runs(cfg.quick(), &mut rep);
        rep.finish(&cfg, "exploration", "well-formed files with one run (or, in one variant, four runs) of 3e5 (thorough 3e6) blank, comment or whitespace-only lines before, between or after the items, parsed on a 2 MiB thread of a child process built like a dev build of a user crate (opt-level 1): the mesh is the one the items describe and the process survives. non-trivial = child exited normally with the expected mesh.", &["stack size 2 MiB = Rust's default for spawned threads"]);
    }
    if cfg.part.starts_with("pnm") { run_pnm(&cfg) } else { run_obj(&cfg) }
}
