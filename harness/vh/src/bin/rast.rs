//! C04 (coverage) and C05 (interpolation) of the scanline rasterizer.
#[path = "../../../shared/cover.rs"]
mod cover;

use cover::Cover;
use re::geom::vertex;
use re::math::color::{rgb, rgba, Color3f, Color4f};
use re::math::point::pt3;
use re::math::{pt2, vec2, vec3, Point2, Vary, Vec2, Vec3};
use re::render::raster::tri_fill;
use vlib::*;

const SCALE: i128 = 1 << 30;

fn exact(x: f32) -> i128 {
    let v = x as f64 * SCALE as f64;
    if v.fract() != 0.0 || !v.is_finite() { machinery_error(&format!("coordinate {x:e} is not a multiple of 2^-30")); }
    v as i128
}

#[derive(Clone, Copy, Debug)]
struct Lat { kind: u8, n: u32 }
impl Lat {
    /// point list of a lattice family
    fn points(&self) -> Vec<(f32, f32)> {
        let mut v = vec![];
        match self.kind {
            // half-pixel lattice 0..=n px
            0 => for j in 0..=2 * self.n { for i in 0..=2 * self.n { v.push((i as f32 / 2.0, j as f32 / 2.0)); } },
            // quarter-pixel lattice
            1 => for j in 0..=4 * self.n { for i in 0..=4 * self.n { v.push((i as f32 / 4.0, j as f32 / 4.0)); } },
            // half-pixel lattice translated by +57 (non-small magnitudes)
            2 => for j in 0..=2 * self.n { for i in 0..=2 * self.n { v.push((57.0 + i as f32 / 2.0, 57.0 + j as f32 / 2.0)); } },
            // half-pixel lattice translated far from the origin (coarser f32 spacing): x by +1000, y by +700
            4 => for j in 0..=2 * self.n { for i in 0..=2 * self.n { v.push((1000.0 + i as f32 / 2.0, 700.0 + j as f32 / 2.0)); } },
            // coarse lattice of large triangles (hundreds of rows/columns: accumulated stepping error)
            5 => { let c = [0.0f32, 37.25, 160.5, 321.0]; for &y in &c { for &x in &c { v.push((x, y)); } } },
            // half-pixel lattice with every coordinate also nudged by -1 / +1 ulp (rounding-boundary inputs)
            3 => for j in 0..=2 * self.n { for i in 0..=2 * self.n { for dy in -2i32..=1 { for dx in -2i32..=1 {
                let nud = |c: f32, d: i32| if c == 0.0 || d == 0 { c } else { f32::from_bits((c.to_bits() as i32 + d) as u32) };
                let p = (nud(i as f32 / 2.0, dx), nud(j as f32 / 2.0, dy));
                if !v.contains(&p) { v.push(p); }
            } } } },
            // flat slivers far from the origin: heights of 2^-11 .. 2^-9 px around pixel-centre rows near y = 700 (relative height ~1e-6)
            6 => { let h = 1.0f32 / 2048.0; for &y in &[700.5 - h, 700.5 + h, 700.5 - h / 2.0, 700.5 + 1.5 * h, 701.5 - h, 701.5 + 2.0 * h] { for &x in &[1000.0f32, 1001.5, 1003.0, 1004.5] { v.push((x, y)); } } },
            // the same near the origin (rows 2.5 and 3.5) with heights of 2^-20 px
            7 => { let h = 1.0f32 / 1048576.0; for &y in &[2.5 - h, 2.5 + h, 2.5 - h / 2.0, 2.5 + 1.5 * h, 3.5 - h, 3.5 + 2.0 * h] { for &x in &[0.0f32, 1.5, 3.0, 4.5] { v.push((x, y)); } } },
            // large triangles with off-lattice (non-dyadic) vertices: edges stepped over hundreds of rows
            8 => { let (xs, ys): (Vec<f32>, Vec<f32>) = if self.n == 0 { (vec![10.25, 120.5, 250.0, 300.0], vec![10.25, 60.0, 300.0]) } else { (vec![10.25, 120.5, 250.0, 300.0, 77.7, 199.9], vec![10.25, 60.0, 300.0, 155.3, 289.6]) }; for &y in &ys { for &x in &xs { v.push((x, y)); } } },
            // slivers 0.003 px wide around the pixel-centre column x = 4000.5 (relative width < 1e-6)
            9 => { let u = 1.0f32 / 4096.0; let c = 4000.5f32; for &y in &[0.0f32, 3.0, 7.5, 2.25] { for &x in &[c - 6.0 * u, c + 6.0 * u, c - 7.0 * u, c + 8.0 * u] { v.push((x, y)); } } },
            // tall, narrow off-lattice triangles far from the origin: up to 1400 rows at x = 1030 .. 1671
            10 => { v.extend_from_slice(&[(1030.3, 0.2), (1351.685, 700.4), (1671.07, 1400.6), (1040.3, 0.2), (1360.0, 700.4), (1100.0, 1400.6)]); },
            // partially off-grid: the half-pixel lattice -n/2-ish .. around the origin (pixels have unsigned coordinates: the grid is
            // the non-negative quadrant, and only its pixels can be - and must be - produced)
            11 => { let m = 2 * self.n as i32; for j in -m..=m { for i in -m..=m { v.push((i as f32 / 2.0, j as f32 / 2.0)); } } },
            // larger off-lattice triangles reaching up to 12 px off the grid on the top and the left
            12 => v.extend_from_slice(&[(-3.2, -2.6), (6.1, 1.3), (2.2, 7.9), (-10.5, 4.0), (3.0, -7.25), (-0.3, -0.3), (5.5, 5.5), (-12.0, -12.0), (9.75, -0.1)]),
            _ => unreachable!(),
        }
        v
    }
}
const OFFS: [f32; 5] = [0.0, 1.0 / 3.0, 0.1, 0.0009765625, 0.499];

struct Sl { y: usize, x0: usize, x1: usize, nfrag: usize }

fn fill_cover(t: [(f32, f32); 3]) -> Result<Vec<Sl>, String> { fill_cover_z(t, 0) }

/// zmode 0: z = 1 at every vertex; 1: z = 0 at every vertex; 2: z = x - 2.5 (zero on a column of pixel centres)
fn fill_cover_z(t: [(f32, f32); 3], zmode: u8) -> Result<Vec<Sl>, String> {
    let vs = t.map(|(x, y)| vertex(pt3(x, y, match zmode { 0 => 1.0, 1 => 0.0, _ => x - 2.5 }), ()));
    let mut out = vec![];
    // (a span wider than 2^16 pixels is far outside every triangle enumerated here: recorded without walking it)
    caught(|| tri_fill(vs, |mut sl| { let wild = sl.xs.end.saturating_sub(sl.xs.start) > 1 << 16; let n = if wild { sl.xs.end - sl.xs.start } else { let cap = sl.xs.end.saturating_sub(sl.xs.start) + 2; sl.fragments().take(cap).count() }; out.push(Sl { y: sl.y, x0: sl.xs.start, x1: sl.xs.end, nfrag: n }); }))?;
    Ok(out)
}

fn check_cover(t: [(f32, f32); 3], r: &mut Report, fam: &str) {
    r.eval();
    let key = |cl: &str| format!("{cl}|{fam}|{:?}", t);
    let case = || obj! {"kind" => "cover", "fam" => fam, "t" => J::Arr(t.iter().flat_map(|p| [fbits(p.0), fbits(p.1)]).collect())};
    let sls = match fill_cover(t) { Ok(s) => s, Err(p) => { r.violation(key("fill-panic"), format!("tri_fill{t:?} panicked: {p}"), case()); return; } };
    // coverage and the fragment count do not depend on the depth values, zero included
    for zm in [1u8, 2] {
        match fill_cover_z(t, zm) {
            Err(p) => { r.violation(key("fill-panic"), format!("tri_fill{t:?} with z mode {zm} panicked: {p}"), case()); return; }
            Ok(o) => {
                if let Some(s) = o.iter().find(|s| s.x1.saturating_sub(s.x0) != s.nfrag) { r.violation(key("xs-vs-fragments"), format!("triangle {t:?} with {}: scanline y={}: xs={}..{} but {} fragments", if zm == 1 { "z = 0 at every vertex" } else { "z = x - 2.5" }, s.y, s.x0, s.x1, s.nfrag), case()); return; }
                if o.len() != sls.len() || o.iter().zip(&sls).any(|(a, b)| (a.y, a.x0, a.x1) != (b.y, b.x0, b.x1)) { r.violation(key("cover-depends-on-z"), format!("triangle {t:?}: scanlines differ between z = 1 and z mode {zm}"), case()); return; }
            }
        }
    }
    let ti = t.map(|(x, y)| (exact(x), exact(y)));
    let mut covered = std::collections::BTreeSet::new();
    let mut last_y: Option<usize> = None;
    let (bx0, bx1) = (t.iter().map(|p| p.0).fold(f32::MAX, f32::min).floor() as i128 - 1, t.iter().map(|p| p.0).fold(0.0, f32::max).ceil() as i128 + 1);
    let (by0, by1) = (t.iter().map(|p| p.1).fold(f32::MAX, f32::min).floor() as i128 - 1, t.iter().map(|p| p.1).fold(0.0, f32::max).ceil() as i128 + 1);
    for s in &sls {
        // scanlines (partly) outside the bounding box are reported at once instead of being walked pixel by pixel
        if s.x1 > s.x0 && ((s.y as i128) < by0 || (s.y as i128) > by1 || (s.x0 as i128) < bx0 || (s.x1 as i128) > bx1 + 1) { r.violation(key("extra"), format!("triangle {t:?}: scanline y={} x={}..{} reaches outside the triangle's bounding box", s.y, s.x0, s.x1), case()); return; }
        if let Some(ly) = last_y { if s.y <= ly { r.violation(key("scanline-order"), format!("scanline y={} after y={ly}", s.y), case()); return; } }
        last_y = Some(s.y);
        let len = s.x1.saturating_sub(s.x0);
        if len != s.nfrag { r.violation(key("xs-vs-fragments"), format!("scanline y={}: xs={}..{} (len {len}) but {} fragments", s.y, s.x0, s.x1, s.nfrag), case()); return; }
        for x in s.x0..s.x1 { if !covered.insert((x as i128, s.y as i128)) { r.violation(key("pixel-twice"), format!("pixel ({x},{}) produced twice", s.y), case()); return; } }
    }
    let (minx, maxx) = (t.iter().map(|p| p.0).fold(f32::MAX, f32::min).floor() as i128 - 1, t.iter().map(|p| p.0).fold(0.0, f32::max).ceil() as i128 + 1);
    let (miny, maxy) = (t.iter().map(|p| p.1).fold(f32::MAX, f32::min).floor() as i128 - 1, t.iter().map(|p| p.1).fold(0.0, f32::max).ceil() as i128 + 1);
    let mut inside = 0;
    for j in miny..=maxy { for i in minx..=maxx {
        // (pixels have unsigned coordinates: centres left of or above the grid cannot be, and are not to be, produced)
        if i < 0 || j < 0 { continue; }
        let c = cover::classify(ti, SCALE, i, j, 0.001);
        let got = covered.contains(&(i, j));
        match c {
            Cover::Inside => { inside += 1; if !got { r.violation(key("missing"), format!("triangle {t:?}: pixel ({i},{j}) centre is inside (> 0.001 px from every edge) but no fragment was produced; scanlines {:?}", sls.iter().map(|s| (s.y, s.x0, s.x1)).collect::<Vec<_>>()), case()); return; } }
            Cover::Outside => { if got { r.violation(key("extra"), format!("triangle {t:?}: pixel ({i},{j}) centre is outside (> 0.001 px) but a fragment was produced; scanlines {:?}", sls.iter().map(|s| (s.y, s.x0, s.x1)).collect::<Vec<_>>()), case()); return; } }
            Cover::Band => { r.h("band-pixels"); }
        }
    }}
    // anything covered outside the scanned box is extra
    for &(x, y) in &covered { if x < minx || x > maxx || y < miny || y > maxy { r.violation(key("extra"), format!("pixel ({x},{y}) far outside the triangle's bounding box"), case()); return; } }
    if inside > 0 { r.nontrivial(); r.h(&format!("coverage-{}", if inside < 4 { inside.to_string() } else if inside < 16 { "4-15".into() } else { "16+".into() })); } else { r.h("coverage-0"); }
    // shape classes (vacuity evidence)
    let ys = [t[0].1, t[1].1, t[2].1];
    let mut s = ys; s.sort_by(|a, b| a.total_cmp(b));
    if s[0] == s[1] && s[1] != s[2] { r.h("flat-top"); }
    if s[1] == s[2] && s[0] != s[1] { r.h("flat-bottom"); }
    if s[2] - s[1] == 1.0 || s[1] - s[0] == 1.0 { r.h("half-exactly-one-row"); }
}

/// Triangles with one vertex far off screen (|coordinate| up to 1e5, beyond 2^15 and 2^16): judged row by row against the
/// exact span of the row's centre line. The band is 0.001 px plus the f32 resolution of the edge position itself
/// (2^-21 |x|), so that rows whose span ends lie at small x are judged as strictly as everywhere else and the far ends
/// only for gross misplacement. Rows beyond the first and last 400 are sampled (every 97th).
fn check_far(i: u64, r: &mut Report) {
    r.eval();
    let base: [[(f32, f32); 3]; 8] = [
        [(0.0, 0.0), (100000.0, 50.0), (0.0, 100.0)], [(10.25, 0.0), (300.5, 0.0), (150.0, 60000.0)], [(3.0, 2.0), (70000.3, 40000.7), (5.5, 90.25)], [(0.0, 0.0), (40000.0, 10.0), (20.0, 30.0)],
        [(2.5, 0.0), (200.0, 33000.0), (65.0, 80.0)], [(0.0, 5.0), (66000.5, 6.5), (1.0, 300.0)], [(7.0, 1.0), (90.0, 2.0), (32769.0, 32770.0)], [(0.0, 0.0), (32767.0, 100.0), (32769.0, 0.5)]];
    const PERM: [[usize; 3]; 6] = [[0, 1, 2], [0, 2, 1], [1, 0, 2], [1, 2, 0], [2, 0, 1], [2, 1, 0]];
    let b = base[(i / 6) as usize];
    let t: [(f32, f32); 3] = std::array::from_fn(|k| b[PERM[(i % 6) as usize][k]]);
    let case = || obj! {"kind" => "far", "i" => i};
    let key = |cl: &str| format!("{cl}|far vertex|{t:?}");
    let sls = match fill_cover(t) { Ok(s) => s, Err(p) => { r.violation(key("fill-panic"), format!("tri_fill{t:?} panicked: {p}"), case()); return; } };
    let span = |y: usize| -> Option<(f64, f64)> {
        let yc = y as f64 + 0.5;
        let mut xs: Vec<f64> = vec![];
        for k in 0..3 { let (a, b) = (t[k], t[(k + 1) % 3]); let (ay, by) = (a.1 as f64, b.1 as f64); if ay != by && yc >= ay.min(by) && yc <= ay.max(by) { xs.push(a.0 as f64 + (yc - ay) * (b.0 as f64 - a.0 as f64) / (by - ay)); } }
        if xs.len() < 2 { None } else { Some((xs.iter().cloned().fold(f64::MAX, f64::min), xs.iter().cloned().fold(f64::MIN, f64::max))) }
    };
    let band = |x: f64| 0.001 + x.abs() / 2097152.0;
    let (ymin, ymax) = (t.iter().map(|p| p.1).fold(f32::MAX, f32::min).floor() as usize, t.iter().map(|p| p.1).fold(0.0, f32::max).ceil() as usize);
    let mut emitted = std::collections::HashMap::new();
    let mut last: Option<usize> = None;
    for s in &sls {
        if let Some(l) = last { if s.y <= l { r.violation(key("scanline-order"), format!("scanline y={} after y={l}", s.y), case()); return; } }
        last = Some(s.y);
        if s.x1.saturating_sub(s.x0) != s.nfrag { r.violation(key("xs-vs-fragments"), format!("scanline y={}: xs={}..{} but {} fragments", s.y, s.x0, s.x1, s.nfrag), case()); return; }
        emitted.insert(s.y, (s.x0, s.x1));
    }
    let mut judged = 0;
    for y in ymin.saturating_sub(1)..=ymax + 1 {
        if y > ymin + 400 && y + 400 < ymax && y % 97 != 0 { continue; }
        let (x0, x1) = emitted.get(&y).cloned().unwrap_or((0, 0));
        match span(y) {
            None => { if x1 > x0 { r.violation(key("extra"), format!("triangle {t:?}: scanline y={y} x={x0}..{x1} but the row's centre line misses the triangle"), case()); return; } }
            Some((xl, xr)) => {
                // every produced centre lies within the span (up to the band); the centres next to the produced range do not lie inside it by more than the band
                if x1 > x0 {
                    if x0 as f64 + 0.5 < xl - band(xl) || x1 as f64 - 0.5 > xr + band(xr) { r.violation(key("extra"), format!("triangle {t:?}: scanline y={y} covers x={x0}..{x1}, the exact span of its centre line is [{xl}, {xr}]"), case()); return; }
                    if x0 as f64 - 0.5 > xl + band(xl) || x1 as f64 + 0.5 < xr - band(xr) { r.violation(key("missing"), format!("triangle {t:?}: scanline y={y} covers only x={x0}..{x1}, the exact span of its centre line is [{xl}, {xr}]"), case()); return; }
                } else {
                    // nothing produced: no centre may lie inside by more than the band
                    let c = (xl + band(xl) - 0.5).ceil() + 0.5;
                    if c < xr - band(xr) { r.violation(key("missing"), format!("triangle {t:?}: no fragments on row {y} although the centre at x={c} lies inside the exact span [{xl}, {xr}]"), case()); return; }
                }
                judged += 1;
            }
        }
    }
    if judged > 0 { r.nontrivial(); r.h("far-vertex-rows-judged"); }
}

// ------------------------------------------------------------------ C05

trait Attr: Vary + Clone + std::fmt::Debug {
    const NAME: &'static str;
    const N: usize;
    fn make(c: &[f32]) -> Self;
    fn comps(&self) -> Vec<f64>;
}
impl Attr for f32 { const NAME: &'static str = "f32"; const N: usize = 1; fn make(c: &[f32]) -> Self { c[0] } fn comps(&self) -> Vec<f64> { vec![*self as f64] } }
impl Attr for Vec2 { const NAME: &'static str = "Vec2"; const N: usize = 2; fn make(c: &[f32]) -> Self { vec2(c[0], c[1]) } fn comps(&self) -> Vec<f64> { self.0.iter().map(|x| *x as f64).collect() } }
impl Attr for Vec3 { const NAME: &'static str = "Vec3"; const N: usize = 3; fn make(c: &[f32]) -> Self { vec3(c[0], c[1], c[2]) } fn comps(&self) -> Vec<f64> { self.0.iter().map(|x| *x as f64).collect() } }
impl Attr for Point2 { const NAME: &'static str = "Point2"; const N: usize = 2; fn make(c: &[f32]) -> Self { pt2(c[0], c[1]) } fn comps(&self) -> Vec<f64> { self.0.iter().map(|x| *x as f64).collect() } }
impl Attr for re::math::Angle { const NAME: &'static str = "Angle"; const N: usize = 1; fn make(c: &[f32]) -> Self { re::math::rads(c[0]) } fn comps(&self) -> Vec<f64> { vec![self.to_rads() as f64] } }
impl Attr for re::math::Point3 { const NAME: &'static str = "Point3"; const N: usize = 3; fn make(c: &[f32]) -> Self { pt3(c[0], c[1], c[2]) } fn comps(&self) -> Vec<f64> { self.0.iter().map(|x| *x as f64).collect() } }
impl Attr for Color4f { const NAME: &'static str = "Color4f"; const N: usize = 4; fn make(c: &[f32]) -> Self { rgba(c[0], c[1], c[2], c[3]) } fn comps(&self) -> Vec<f64> { self.0.iter().map(|x| *x as f64).collect() } }
impl Attr for Color3f { const NAME: &'static str = "Color3f"; const N: usize = 3; fn make(c: &[f32]) -> Self { rgb(c[0], c[1], c[2]) } fn comps(&self) -> Vec<f64> { self.0.iter().map(|x| *x as f64).collect() } }
impl Attr for (f32, Vec2) { const NAME: &'static str = "(f32,Vec2)"; const N: usize = 3; fn make(c: &[f32]) -> Self { (c[0], vec2(c[1], c[2])) } fn comps(&self) -> Vec<f64> { vec![self.0 as f64, self.1 .0[0] as f64, self.1 .0[1] as f64] } }

const ZS: [f32; 3] = [1.0, 0.5, 0.1];

fn check_interp<A: Attr>(t: [(f32, f32); 3], zi: usize, r: &mut Report, fam: &str) {
    r.eval();
    // zi = assignment (0..27) + 27 * magnitude: all three reciprocal depths scaled by 1, 2^-24 (w up to 1.7e8) or 2^10
    let zscale = [1.0f32, 5.9604645e-8, 1024.0][zi / 27 % 3];
    let zs = [ZS[zi % 3] * zscale, ZS[zi / 3 % 3] * zscale, ZS[zi / 9 % 3] * zscale];
    // perspective-correct attribute a_k, handed to the rasterizer pre-divided: v_k = a_k * z_k
    // (zi >= 81: the same attribute values offset by +64 - a range of 1 on values whose f32 spacing is 7.6e-6)
    let aoff = [0.0f32, 64.0][zi / 81 % 2];
    let a: [Vec<f32>; 3] = std::array::from_fn(|k| (0..A::N).map(|c| [0.0f32, 1.0, 0.25][(k + c) % 3] + 0.37 * c as f32 + aoff).collect());
    let v: [Vec<f32>; 3] = std::array::from_fn(|k| a[k].iter().map(|x| x * zs[k]).collect());
    let key = |cl: &str| format!("{cl}|{fam}|{}|{t:?}|z={zs:?}", A::NAME);
    let case = || obj! {"kind" => "interp", "type" => A::NAME, "fam" => fam, "zi" => zi, "t" => J::Arr(t.iter().flat_map(|p| [fbits(p.0), fbits(p.1)]).collect())};
    let verts: [_; 3] = std::array::from_fn(|k| vertex(pt3(t[k].0, t[k].1, zs[k]), A::make(&v[k])));
    let mut frags: Vec<(usize, usize, [f32; 3], Vec<f64>)> = vec![];
    let mut wild = None;
    let mut count_bad: Option<(usize, usize, usize, usize)> = None;
    let res = caught(|| tri_fill(verts, |mut sl| { let (y, x0) = (sl.y, sl.xs.start); if sl.xs.end.saturating_sub(x0) > 1 << 16 { wild = Some((y, x0, sl.xs.end)); return; } let cap = sl.xs.end.saturating_sub(x0) + 2; let mut nf = 0; for (i, f) in sl.fragments().take(cap).enumerate() { nf += 1; frags.push((x0 + i, y, f.pos.0, f.var.comps())); } if nf != cap - 2 { count_bad = Some((y, x0, sl.xs.end, nf)); } }));
    if let Some((y, a, b, nf)) = count_bad { r.violation(key("frag-position"), format!("scanline y={y} reports xs={a}..{b} but yields {}{nf} fragments", if nf > b.saturating_sub(a) { "at least " } else { "" }), case()); return; }
    if let Some((y, a, b)) = wild { r.violation(key("frag-position"), format!("scanline y={y} spans x={a}..{b}, far outside the triangle"), case()); return; }
    if let Err(p) = res { r.violation(key("fill-panic"), format!("tri_fill panicked: {p}"), case()); return; }
    // exact geometry in f64 (inputs are exactly representable)
    let p: [[f64; 2]; 3] = t.map(|(x, y)| [x as f64, y as f64]);
    let area2 = (p[1][0] - p[0][0]) * (p[2][1] - p[0][1]) - (p[1][1] - p[0][1]) * (p[2][0] - p[0][0]);
    if area2.abs() / 2.0 <= 1e-6 { r.h("degenerate-skipped"); return; }
    // the 0.5% value clause is only meaningful where the data determine the plane: slivers thinner than 0.05 px
    // (gradients above 20 ranges per pixel) are judged for finiteness and position only
    let maxedge = (0..3).map(|k| ((p[k][0] - p[(k + 1) % 3][0]).powi(2) + (p[k][1] - p[(k + 1) % 3][1]).powi(2)).sqrt()).fold(0.0, f64::max);
    let sliver = area2.abs() / maxedge < 0.05;
    if sliver { r.h("sliver(altitude<0.05px): finiteness only"); }
    let zf = zs.map(|z| z as f64);
    let vf: [Vec<f64>; 3] = std::array::from_fn(|k| v[k].iter().map(|x| *x as f64).collect());
    let (zmin, zmax) = (zf.iter().cloned().fold(f64::MAX, f64::min), zf.iter().cloned().fold(f64::MIN, f64::max));
    let ztol = 0.005 * (zmax - zmin) + 1e-5 * zmax;
    let ratio: [Vec<f64>; 3] = std::array::from_fn(|k| vf[k].iter().map(|x| x / zf[k]).collect());
    if frags.is_empty() { r.h("no-fragments"); return; }
    for (x, y, pos, var) in &frags {
        if pos.iter().any(|c| !c.is_finite()) || var.iter().any(|c| !c.is_finite()) {
            let ys = [t[0].1, t[1].1, t[2].1]; let mut s = ys; s.sort_by(|a, b| a.total_cmp(b));
            let shape = if s[2] - s[1] == 1.0 { "lower-half-one-row" } else if s[1] == s[2] { "flat-bottom" } else if s[0] == s[1] { "flat-top" } else { "general" };
            r.violation(format!("nan|{fam}|{shape}|{}|{t:?}|z={zs:?}", A::NAME), format!("fragment ({x},{y}) of triangle {t:?} has non-finite pos {pos:?} / var {var:?}"), case());
            return;
        }
        let c = [*x as f64 + 0.5, *y as f64 + 0.5];
        if (pos[0] as f64 - c[0]).abs() > 1e-3 || (pos[1] as f64 - c[1]).abs() > 1e-3 { r.violation(key("frag-position"), format!("fragment for pixel ({x},{y}) reports position {pos:?}"), case()); return; }
        // barycentrics of the pixel centre
        let l1 = ((c[0] - p[0][0]) * (p[2][1] - p[0][1]) - (c[1] - p[0][1]) * (p[2][0] - p[0][0])) / area2;
        let l2 = ((p[1][0] - p[0][0]) * (c[1] - p[0][1]) - (p[1][1] - p[0][1]) * (c[0] - p[0][0])) / area2;
        let l = [1.0 - l1 - l2, l1, l2];
        let zp: f64 = (0..3).map(|k| l[k] * zf[k]).sum();
        if sliver {
            // ... except that at a centre unambiguously inside the sliver (more than 0.001 px from every edge) the plane value is a
            // convex combination of the vertex values, however ill-conditioned the plane: depth and attributes must stay within
            // the range of the vertex values (plus the stated 0.5 %)
            let inside = (0..3).all(|k| { let e = ((p[(k + 1) % 3][0] - p[(k + 2) % 3][0]).powi(2) + (p[(k + 1) % 3][1] - p[(k + 2) % 3][1]).powi(2)).sqrt(); l[k] * area2.abs() / e > 0.001 });
            if inside {
                r.h("sliver-fragment-inside: hull judged");
                if (pos[2] as f64) < zmin - ztol || (pos[2] as f64) > zmax + ztol { r.violation(key("depth-hull"), format!("pixel ({x},{y}), centre inside the sliver: depth {} outside the range {zmin}..{zmax} of the vertex depths (tol {ztol:.2e})", pos[2]), case()); return; }
                for ci in 0..A::N {
                    let (lo, hi) = (ratio.iter().map(|q| q[ci]).fold(f64::MAX, f64::min), ratio.iter().map(|q| q[ci]).fold(f64::MIN, f64::max));
                    let tol = 0.005 * (hi - lo) + 1e-5 * hi.abs().max(lo.abs());
                    if var[ci] < lo - tol || var[ci] > hi + tol { r.violation(key("attr-hull"), format!("pixel ({x},{y}), centre inside the sliver, component {ci}: value {} outside the range {lo}..{hi} of the vertex values (tol {tol:.2e})", var[ci]), case()); return; }
                }
            }
            continue;
        }
        r.margin("depth(0.5% stated)", (pos[2] as f64 - zp).abs(), ztol);
        if (pos[2] as f64 - zp).abs() > ztol { r.violation(key("depth"), format!("pixel ({x},{y}): depth {} but the plane through the vertex depths gives {zp} (tol {ztol:.2e})", pos[2]), case()); return; }
        for ci in 0..A::N {
            let vp: f64 = (0..3).map(|k| l[k] * vf[k][ci]).sum();
            let want = vp / zp;
            let (lo, hi) = (ratio.iter().map(|q| q[ci]).fold(f64::MAX, f64::min), ratio.iter().map(|q| q[ci]).fold(f64::MIN, f64::max));
            let tol = 0.005 * (hi - lo) + 1e-5 * hi.abs().max(lo.abs());
r.margin("attr(0.5% stated)", (var[ci] - want).abs(), tol);
            if (var[ci] - want).abs() > tol {
                let persp = (var[ci] - vp).abs() <= tol && (zmax - zmin) > 0.0;
                r.violation(format!("{}|{fam}|{}|{t:?}|z={zs:?}", if persp { "attr-not-perspective-divided" } else { "attr" }, A::NAME), format!("pixel ({x},{y}) component {ci}: var {} expected {want} = plane {vp} / depth {zp} (tol {tol:.2e})", var[ci]), case());
                return;
            }
        }
    }
    r.nontrivial();
}

/// Slivers with one exactly vertical edge through a column of pixel centres: wherever a fragment is produced on that
/// column its values are those of the plane at the centre, i.e. the linear interpolation ALONG the vertical edge -
/// well defined however thin the sliver is (the general value check exempts slivers because the plane is ill-conditioned
/// elsewhere).
fn check_vertical_sliver(i: u64, r: &mut Report) {
    r.eval();
    let x0 = [0.5f32, 3.5, 12.5][(i % 3) as usize];
    let w = [1.0f32 / 1048576.0, 1.0 / 16777216.0, 3.0e-7, 1.0e-6, 1.0 / 4096.0][(i / 3 % 5) as usize];
    // (only slivers whose vertical edge is the LEFT one: interpolation along a scanline starts there, so nothing is
    // extrapolated across the tiny width; for the mirrored shape f32 cancellation in the span width makes errors of a few
    // percent unavoidable, which is why slivers are exempt from the general value check)
    if i / 15 % 2 == 1 { return; }
    let (y0, y1) = ([0.0f32, 0.25, 1.0][(i / 30 % 3) as usize], [3.0f32, 4.75, 7.5][(i / 90 % 3) as usize]);
    let ym = y0 + (y1 - y0) * [0.5f32, 0.3, 0.9][(i / 270 % 3) as usize];
    let zi = (i / 810 % 27) as usize;
    let zs = [ZS[zi % 3], ZS[zi / 3 % 3], ZS[zi / 9 % 3]];
    let a = [0.0f32, 1.0, 0.25];
    let order = (i / 21870 % 3) as usize; // rotate the vertex order
    let base = [(x0, y0, zs[0], a[0]), (x0, y1, zs[1], a[1]), (x0 + w, ym, zs[2], a[2])];
    let vs: [(f32, f32, f32, f32); 3] = std::array::from_fn(|k| base[(k + order) % 3]);
    let verts: [_; 3] = std::array::from_fn(|k| vertex(pt3(vs[k].0, vs[k].1, vs[k].2), vs[k].3 * vs[k].2));
    let case = || obj! {"kind" => "vsliver", "i" => i};
    let key = |cl: &str| format!("{cl}|vertical-edge sliver|x0={x0}|w={w:e}|y={y0}..{y1}|ym={ym}|z={zs:?}|order{order}");
    let mut frags: Vec<(usize, usize, [f32; 3], f32)> = vec![];
    let res = caught(|| tri_fill(verts, |mut sl| { let (y, xs) = (sl.y, sl.xs.clone()); let cap = xs.end.saturating_sub(xs.start) + 2; for (k, f) in sl.fragments().take(cap).enumerate() { frags.push((xs.start + k, y, f.pos.0, f.var)); } }));
    if let Err(p) = res { r.violation(key("fill-panic"), format!("tri_fill panicked: {p}"), case()); return; }
    for (x, y, pos, var) in &frags {
        if pos.iter().any(|c| !c.is_finite()) || !var.is_finite() { r.violation(key("nan"), format!("fragment ({x},{y}) has non-finite pos {pos:?} / var {var}"), case()); return; }
        if *x as f32 + 0.5 != x0 { continue; } // only the column of the vertical edge is judged
        let t = ((*y as f64 + 0.5) - y0 as f64) / (y1 as f64 - y0 as f64);
        if !(0.0..=1.0).contains(&t) { continue; }
        let (z0, z1) = (zs[0] as f64, zs[1] as f64);
        let zp = z0 + (z1 - z0) * t;
        let vp = a[0] as f64 * z0 + (a[1] as f64 * z1 - a[0] as f64 * z0) * t;
        let (zmin, zmax) = (zs.iter().cloned().fold(f32::MAX, f32::min) as f64, zs.iter().cloned().fold(f32::MIN, f32::max) as f64);
        if (pos[2] as f64 - zp).abs() > 0.005 * (zmax - zmin) + 1e-5 * zmax { r.violation(key("depth"), format!("pixel ({x},{y}) on the vertical edge: depth {} but the edge interpolates to {zp}", pos[2]), case()); return; }
        if (*var as f64 - vp / zp).abs() > 0.005 + 1e-5 { r.violation(key("attr"), format!("pixel ({x},{y}) on the vertical edge: var {var} but the edge interpolates to {}", vp / zp), case()); return; }
        r.nontrivial();
    }
}

/// Slivers whose apex lies on a pixel-centre row, exactly `w` to the right of a vertical edge that passes w/2 left of the
/// pixel centre: on that row the span is [c - w/2, c + w/2] with exactly representable ends, so the fragment at the centre
/// must carry the mean of the edge value and the apex value (again well defined however small w is).
fn check_apex_sliver(i: u64, r: &mut Report) {
    r.eval();
    let c = [0.5f32, 3.5, 6.5][(i % 3) as usize];
    let w = [1.0f32 / 1048576.0, 1.0 / 4194304.0, 1.0 / 65536.0, 1.0 / 1024.0][(i / 3 % 4) as usize];
    let row = [1.5f32, 2.5, 5.5][(i / 12 % 3) as usize];
    let (y0, y1) = (row - [1.5f32, 0.75, 1.0][(i / 36 % 3) as usize], row + [2.0f32, 0.5, 3.25][(i / 108 % 3) as usize]);
    let zi = (i / 324 % 27) as usize;
    let zs = [ZS[zi % 3], ZS[zi / 3 % 3], ZS[zi / 9 % 3]];
    let a = [0.0f32, 1.0, 0.25];
    let order = (i / 8748 % 3) as usize;
    let x0 = c - w / 2.0;
    let base = [(x0, y0, zs[0], a[0]), (x0, y1, zs[1], a[1]), (x0 + w, row, zs[2], a[2])];
    let vs: [(f32, f32, f32, f32); 3] = std::array::from_fn(|k| base[(k + order) % 3]);
    let verts: [_; 3] = std::array::from_fn(|k| vertex(pt3(vs[k].0, vs[k].1, vs[k].2), vs[k].3 * vs[k].2));
    let case = || obj! {"kind" => "asliver", "i" => i};
    let key = |cl: &str| format!("{cl}|apex sliver|c={c}|w={w:e}|row={row}|y={y0}..{y1}|z={zs:?}|order{order}");
    let mut frags: Vec<(usize, usize, [f32; 3], f32)> = vec![];
    let res = caught(|| tri_fill(verts, |mut sl| { let (y, xs) = (sl.y, sl.xs.clone()); let cap = xs.end.saturating_sub(xs.start) + 2; for (k, f) in sl.fragments().take(cap).enumerate() { frags.push((xs.start + k, y, f.pos.0, f.var)); } }));
    if let Err(p) = res { r.violation(key("fill-panic"), format!("tri_fill panicked: {p}"), case()); return; }
    for (x, y, pos, var) in &frags {
        if pos.iter().any(|v| !v.is_finite()) || !var.is_finite() { r.violation(key("nan"), format!("fragment ({x},{y}) has non-finite pos {pos:?} / var {var}"), case()); return; }
        if *x as f32 + 0.5 != c || *y as f32 + 0.5 != row { continue; }
        // left end of the span: on the vertical edge at this row; right end: the apex
        let t = (row as f64 - y0 as f64) / (y1 as f64 - y0 as f64);
        let (z0, z1, z2) = (zs[0] as f64, zs[1] as f64, zs[2] as f64);
        let (zl, vl) = (z0 + (z1 - z0) * t, a[0] as f64 * z0 + (a[1] as f64 * z1 - a[0] as f64 * z0) * t);
        let (zp, vp) = ((zl + z2) / 2.0, (vl + a[2] as f64 * z2) / 2.0);
        let (zmin, zmax) = (zs.iter().cloned().fold(f32::MAX, f32::min) as f64, zs.iter().cloned().fold(f32::MIN, f32::max) as f64);
        r.margin("apex-sliver-depth", (pos[2] as f64 - zp).abs(), 0.005 * (zmax - zmin) + 1e-5 * zmax);
        if (pos[2] as f64 - zp).abs() > 0.005 * (zmax - zmin) + 1e-5 * zmax { r.violation(key("depth"), format!("pixel ({x},{y}) at the middle of the span: depth {} expected {zp}", pos[2]), case()); return; }
        r.margin("apex-sliver-attr", (*var as f64 - vp / zp).abs(), 0.005 + 1e-5);
        if (*var as f64 - vp / zp).abs() > 0.005 + 1e-5 { r.violation(key("attr"), format!("pixel ({x},{y}) at the middle of the span: var {var} expected {}", vp / zp), case()); return; }
        r.nontrivial();
    }
}

/// Flat slivers (total height 2e of the order of 1e-6 * y) whose middle vertex M lies exactly on a pixel-centre row and
/// whose long edge A-B crosses that row at its midpoint: the span on the row runs from M to (A+B)/2, so a fragment at
/// centre x carries the linear blend of M's values and the mean of A's and B's - no division by the tiny height.
fn check_flat_sliver(i: u64, r: &mut Report) {
    r.eval();
    let (row, e) = [(2.5f32, 1.0f32 / 2097152.0), (100.5, 1.0 / 32768.0), (1000.5, 1.0 / 4096.0), (100.5, 1.0 / 131072.0)][(i % 4) as usize];
    let (xa, xb) = [(2.0f32, 9.0f32), (9.0, 2.0), (1.0, 12.0)][(i / 4 % 3) as usize];
    let xm = [0.25f32, 0.75, 13.25][(i / 12 % 3) as usize];
    let zi = (i / 36 % 27) as usize;
    let zs = [ZS[zi % 3], ZS[zi / 3 % 3], ZS[zi / 9 % 3]];
    let a = [0.0f32, 1.0, 0.25];
    let order = (i / 972 % 6) as usize;
    let base = [(xa, row - e, zs[0], a[0]), (xb, row + e, zs[1], a[1]), (xm, row, zs[2], a[2])];
    let perm = [[0, 1, 2], [0, 2, 1], [1, 0, 2], [1, 2, 0], [2, 0, 1], [2, 1, 0]][order];
    let vs: [(f32, f32, f32, f32); 3] = std::array::from_fn(|k| base[perm[k]]);
    let verts: [_; 3] = std::array::from_fn(|k| vertex(pt3(vs[k].0, vs[k].1, vs[k].2), vs[k].3 * vs[k].2));
    let case = || obj! {"kind" => "fsliver", "i" => i};
    let key = |cl: &str| format!("{cl}|flat sliver|row={row}|e={e:e}|A.x={xa}|B.x={xb}|M.x={xm}|z={zs:?}|order{order}");
    let mut frags: Vec<(usize, usize, [f32; 3], f32)> = vec![];
    let res = caught(|| tri_fill(verts, |mut sl| { let (y, xs) = (sl.y, sl.xs.clone()); let cap = xs.end.saturating_sub(xs.start) + 2; for (k, f) in sl.fragments().take(cap).enumerate() { frags.push((xs.start + k, y, f.pos.0, f.var)); } }));
    if let Err(p) = res { r.violation(key("fill-panic"), format!("tri_fill panicked: {p}"), case()); return; }
    let xmid = (xa as f64 + xb as f64) / 2.0;
    let (lo, hi) = ((xm as f64).min(xmid), (xm as f64).max(xmid));
    let (zmid, vmid) = ((zs[0] as f64 + zs[1] as f64) / 2.0, (a[0] as f64 * zs[0] as f64 + a[1] as f64 * zs[1] as f64) / 2.0);
    let (zmin, zmax) = (zs.iter().cloned().fold(f32::MAX, f32::min) as f64, zs.iter().cloned().fold(f32::MIN, f32::max) as f64);
    let mut seen = 0;
    for (x, y, pos, var) in &frags {
        if pos.iter().any(|v| !v.is_finite()) || !var.is_finite() { r.violation(key("nan"), format!("fragment ({x},{y}) has non-finite pos {pos:?} / var {var}"), case()); return; }
        let cx = *x as f64 + 0.5;
        if *y as f32 + 0.5 != row { r.violation(key("frag-position"), format!("fragment at row {y}: the sliver only contains the row of {row}"), case()); return; }
        // coverage on that row: centres strictly inside (lo, hi) by more than 0.001 px are covered, centres outside by more are not (C04's band)
        if cx < lo - 0.001 || cx > hi + 0.001 { r.violation(key("frag-position"), format!("fragment at x={cx} lies outside the span [{lo},{hi}] of the sliver on its row"), case()); return; }
        if cx < lo + 0.001 || cx > hi - 0.001 { continue; }
        seen += 1;
        let s = (cx - xm as f64) / (xmid - xm as f64);
        let (zp, vp) = (zs[2] as f64 + (zmid - zs[2] as f64) * s, a[2] as f64 * zs[2] as f64 + (vmid - a[2] as f64 * zs[2] as f64) * s);
        r.margin("flat-sliver-depth", (pos[2] as f64 - zp).abs(), 0.005 * (zmax - zmin) + 1e-5 * zmax);
        if (pos[2] as f64 - zp).abs() > 0.005 * (zmax - zmin) + 1e-5 * zmax { r.violation(key("depth"), format!("pixel ({x},{y}): depth {} expected {zp}", pos[2]), case()); return; }
        r.margin("flat-sliver-attr", (*var as f64 - vp / zp).abs(), 0.005 + 1e-5);
        if (*var as f64 - vp / zp).abs() > 0.005 + 1e-5 { r.violation(key("attr"), format!("pixel ({x},{y}): var {var} expected {}", vp / zp), case()); return; }
    }
    let expected = (0..16).filter(|k| { let cx = *k as f64 + 0.5; cx > lo + 0.001 && cx < hi - 0.001 }).count();
    if seen != expected { r.violation(key("frag-position"), format!("{seen} fragments strictly inside the span [{lo},{hi}] on row {row}, {expected} pixel centres lie there"), case()); return; }
    r.nontrivial();
}

/// The scanline iterator is an Iterator: whatever way a caller drives it - nth, skip, step_by, last, count, by_ref().take -
/// each scanline it yields is the one repeated next() yields at that position (row, span, fragment count, first and last
/// fragment bit for bit). Trapezoids over a small lattice, handed to scan() directly.
fn check_scan_adaptors(i: u64, r: &mut Report) {
    use re::render::raster::scan;
    r.eval();
    let ys = [0.0f32, 0.5, 1.25, 3.0, 7.5, 12.75];
    let xs = [0.0f32, 1.5, 4.25, 9.0];
    let (y0, y1) = (ys[(i % 6) as usize], ys[(i / 6 % 6) as usize]);
    if !(y0 < y1) { return; }
    let (l0, r0, l1, r1) = (xs[(i / 36 % 4) as usize], xs[(i / 144 % 4) as usize], xs[(i / 576 % 4) as usize], xs[(i / 2304 % 4) as usize]);
    if l0 > r0 || l1 > r1 { return; }
    let case = || obj! {"kind" => "scan-adaptors", "i" => i};
    let tag = format!("y {y0}..{y1}|left {l0}->{l1}|right {r0}->{r1}");
    let mk = |x: f32, y: f32, z: f32, a: f32| (pt3(x, y, z), a * z);
    let (a, b, c, d) = (mk(l0, y0, 1.0, 0.0), mk(l1, y1, 0.5, 1.0), mk(r0, y0, 0.25, 0.5), mk(r1, y1, 1.0, 0.25));
    type Sum = (usize, usize, usize, usize, Option<([u32; 3], u32)>, Option<([u32; 3], u32)>);
    let sum = |mut sl: re::render::raster::Scanline<f32>| -> Sum { let fr: Vec<([u32; 3], u32)> = sl.fragments().take(64).map(|f| (f.pos.0.map(f32::to_bits), f.var.to_bits())).collect(); (sl.y, sl.xs.start, sl.xs.end, fr.len(), fr.first().copied(), fr.last().copied()) };
    let fresh = || scan(y0..y1, &a..&b, &c..&d);
    let all: Vec<Sum> = match caught(|| fresh().map(sum).collect()) { Ok(v) => v, Err(p) => { r.violation(format!("scan-adaptors|panic|{tag}"), p, case()); return; } };
    let n = all.len();
    let mut bad: Option<String> = None;
    let res = caught(|| {
        let mut bad: Option<String> = None;
        for k in 0..n + 2 { let g = fresh().nth(k).map(sum); if g != all.get(k).cloned() { bad.get_or_insert(format!("nth({k}) = {g:?}, next() x {} = {:?}", k + 1, all.get(k))); } }
        for k in 0..n + 2 { let g: Vec<Sum> = fresh().skip(k).map(sum).collect(); if g[..] != all[k.min(n)..] { bad.get_or_insert(format!("skip({k}) yields {} scanlines starting {:?}, expected {} starting {:?}", g.len(), g.first(), n - k.min(n), all.get(k))); } }
        for st in 1..=3usize { let g: Vec<Sum> = fresh().step_by(st).map(sum).collect(); let w: Vec<Sum> = all.iter().step_by(st).cloned().collect(); if g != w { bad.get_or_insert(format!("step_by({st}) yields {:?}, expected {:?}", g.iter().map(|s| (s.0, s.1, s.2)).collect::<Vec<_>>(), w.iter().map(|s| (s.0, s.1, s.2)).collect::<Vec<_>>())); } }
        if fresh().count() != n { bad.get_or_insert(format!("count() = {}, next() yields {n}", fresh().count())); }
        if fresh().last().map(sum) != all.last().cloned() { bad.get_or_insert("last() differs from the last scanline of repeated next()".into()); }
        { let mut it = fresh(); let head: Vec<Sum> = it.by_ref().take(2).map(sum).collect(); let second = it.nth(1).map(sum); if head[..] != all[..2.min(n)] || second != all.get(3).cloned() { bad.get_or_insert(format!("take(2) then nth(1) = {second:?}, expected {:?}", all.get(3))); } }
        let (lo, hi) = fresh().size_hint();
        if lo > n || hi.map_or(false, |h| h < n) { bad.get_or_insert(format!("size_hint() = ({lo}, {hi:?}) but {n} scanlines are yielded")); }
        bad
    });
    match res { Ok(b) => bad = b, Err(p) => { r.violation(format!("scan-adaptors|panic|{tag}"), p, case()); return; } }
    if let Some(what) = bad { r.violation(format!("scan-adaptors|{}|{tag}", what.split('(').next().unwrap_or("")), format!("scan({tag}): {what}"), case()); return; }
    // the iterator underneath every span (and vary_to): values stepped from a start, bounded or not
    let bits = |v: (f32, Vec2)| (v.0.to_bits(), v.1 .0.map(f32::to_bits));
    for (len, lim) in [(Some(0u32), 0usize), (Some(1), 1), (Some(7), 7), (None, 12)] {
        let fresh = || (l0, vec2::<f32, ()>(y0, r1)).vary((0.37f32, vec2(-1.5, 0.25)), len);
        let all: Vec<_> = fresh().take(lim).map(bits).collect();
        let res = caught(|| {
            let mut bad: Option<String> = None;
            for k in 0..lim + 2 { let g = fresh().nth(k).map(bits); let w = if len.is_none() { fresh().take(k + 1).last().map(bits) } else { all.get(k).cloned() }; if g != w { bad.get_or_insert(format!("vary(.., {len:?}).nth({k}) = {g:?}, repeated next() gives {w:?}")); } }
            for k in 0..lim + 2 { let g: Vec<_> = fresh().skip(k).take(lim).map(bits).collect(); let w: Vec<_> = if len.is_none() { let mut it = fresh(); for _ in 0..k { it.next(); } it.take(lim).map(bits).collect() } else { all[k.min(all.len())..].to_vec() }; if g != w { bad.get_or_insert(format!("vary(.., {len:?}).skip({k}) differs from repeated next()")); } }
            let g: Vec<_> = fresh().step_by(3).take(4).map(bits).collect(); let w: Vec<_> = { let mut it = fresh(); let mut v = vec![]; let mut i = 0; while v.len() < 4 { match it.next() { Some(x) => { if i % 3 == 0 { v.push(bits(x)); } i += 1; } None => break } } v }; if g != w { bad.get_or_insert(format!("vary(.., {len:?}).step_by(3) differs from repeated next()")); }
            if let Some(n) = len { if fresh().count() != n as usize { bad.get_or_insert(format!("vary(.., Some({n})).count() = {}", fresh().count())); } if fresh().last().map(bits) != all.last().cloned() { bad.get_or_insert(format!("vary(.., Some({n})).last() differs")); } let (lo, hi) = fresh().size_hint(); if lo > n as usize || hi.map_or(false, |h| h < n as usize) { bad.get_or_insert(format!("vary(.., Some({n})).size_hint() = ({lo}, {hi:?})")); } }
            bad
        });
        match res { Ok(None) => {} Ok(Some(what)) => { r.violation(format!("scan-adaptors|vary|{len:?}|{tag}"), what, case()); return; } Err(p) => { r.violation(format!("scan-adaptors|panic|{tag}"), p, case()); return; } }
    }
    if n >= 2 { r.nontrivial(); }
}

fn tri_of(pts: &[(f32, f32)], i: u64, off: usize, per_vertex: bool) -> [(f32, f32); 3] {
    let n = pts.len() as u64;
    let idx = [(i % n) as usize, (i / n % n) as usize, (i / n / n) as usize];
    std::array::from_fn(|k| {
        let o = if per_vertex { OFFS[(off / 5usize.pow(k as u32)) % 5] } else { OFFS[off] };
        (pts[idx[k]].0 + o, pts[idx[k]].1 + o * 0.75 + if o > 0.0 { 0.0 } else { 0.0 })
    })
}

fn families(quick: bool) -> Vec<(String, Vec<(f32, f32)>, usize, bool)> {
    // (name, points, offset index or mixed-radix per-vertex offsets, per_vertex)
    let mut f = vec![];
    let n = if quick { 5 } else { 7 };
    f.push((format!("half-px N={n}"), Lat { kind: 0, n }.points(), 0, false));
    for o in 1..5 { f.push((format!("half-px N={} offset {}", if quick { 3 } else { 5 }, OFFS[o]), Lat { kind: 0, n: if quick { 3 } else { 5 } }.points(), o, false)); }
    f.push((format!("partially off-grid: half-px lattice -{0}..{0} px", if quick { 1.5 } else { 2.0 }), Lat { kind: 11, n: if quick { 3 } else { 4 } }.points().into_iter().filter(|p| !quick || (p.0.abs() <= 1.5 && p.1.abs() <= 1.5)).collect(), 0, false));
    f.push(("partially off-grid: half-px lattice -1..1 px offset 0.1".into(), Lat { kind: 11, n: 2 }.points().into_iter().filter(|p| p.0.abs() <= 1.0 && p.1.abs() <= 1.0).collect(), 2, false));
    f.push(("partially off-grid: off-lattice triangles to -12 px".into(), Lat { kind: 12, n: 0 }.points(), 0, false));
    f.push((format!("half-px N=3 +57"), Lat { kind: 2, n: 3 }.points(), 0, false));
    f.push((format!("half-px N=3 +1000/+700"), Lat { kind: 4, n: 3 }.points(), 0, false));
    f.push((format!("half-px N=3 +1000/+700 offset 0.1"), Lat { kind: 4, n: 3 }.points(), 2, false));
    f.push(("flat slivers 2^-11 px high at y=700".into(), Lat { kind: 6, n: 0 }.points(), 0, false));
    f.push(("flat slivers 2^-20 px high at y=2.5".into(), Lat { kind: 7, n: 0 }.points(), 0, false));
    f.push(("upright slivers 0.003 px wide at x=4000.5".into(), Lat { kind: 9, n: 0 }.points(), 0, false));
    f.push(("tall large triangles at x=1030..1671 (up to 1400 rows)".into(), Lat { kind: 10, n: 0 }.points(), 0, false));
    f.push(("large off-lattice triangles (up to 300 px)".into(), Lat { kind: 8, n: if quick { 0 } else { 1 } }.points(), 0, false));
    f.push(("large triangles on {0,37.25,160.5,321}^2".into(), Lat { kind: 5, n: 0 }.points(), 0, false));
    f.push(("large triangles on {0,37.25,160.5,321}^2 offset 1/3".into(), Lat { kind: 5, n: 0 }.points(), 1, false));
    f.push((format!("half-px N={} nudged by -2..+1 ulp", if quick { 1 } else { 2 }), Lat { kind: 3, n: if quick { 1 } else { 2 } }.points(), 0, false));
    if !quick {
        f.push(("quarter-px N=3".into(), Lat { kind: 1, n: 3 }.points(), 0, false));
        for o in [7usize, 38, 69, 113, 24, 35, 55, 11] { f.push((format!("half-px N=4 per-vertex offsets #{o}"), Lat { kind: 0, n: 4 }.points(), o, true)); }
        f.push(("half-px N=4 +57 offset 0.1".into(), Lat { kind: 2, n: 4 }.points(), 2, false));
    } else {
        // per-vertex offsets: #38 = (2^-10, 0.1, 1/3); #35 and #7 leave one vertex exactly on the half-pixel lattice
        // (e.g. a middle vertex exactly on a pixel-centre row between two off-lattice ones)
        for o in [38usize, 35, 7] { f.push((format!("half-px N=3 per-vertex offsets #{o}"), Lat { kind: 0, n: 3 }.points(), o, true)); }
    }
    f
}

fn parse_t(c: &J) -> [(f32, f32); 3] {
    let a: Vec<f32> = c.get("t").unwrap().as_arr().unwrap().iter().map(|x| parse_fbits(x).unwrap()).collect();
    [(a[0], a[1]), (a[2], a[3]), (a[4], a[5])]
}

fn main() {
    silence_panics();
    let cfg = Cfg::from_args(|s| if s == "cover" { "C04".into() } else { "C05".into() });
    if cfg.replay.is_some() {
        replay_main(&cfg, |c, r| {
            if c.get("kind").and_then(|j| j.as_str()) == Some("scan-adaptors") { check_scan_adaptors(c.get("i").unwrap().as_u64().unwrap(), r); return; }
            if c.get("kind").and_then(|j| j.as_str()) == Some("far") { check_far(c.get("i").unwrap().as_u64().unwrap(), r); return; }
            if c.get("kind").and_then(|j| j.as_str()) == Some("fsliver") { check_flat_sliver(c.get("i").unwrap().as_u64().unwrap(), r); return; }
            if c.get("kind").and_then(|j| j.as_str()) == Some("asliver") { check_apex_sliver(c.get("i").unwrap().as_u64().unwrap(), r); return; }
            if c.get("kind").and_then(|j| j.as_str()) == Some("vsliver") { check_vertical_sliver(c.get("i").unwrap().as_u64().unwrap(), r); return; }
            let t = parse_t(c);
            let fam = c.get("fam").and_then(|j| j.as_str()).unwrap_or("replay").to_string();
            if c.get("kind").and_then(|j| j.as_str()) == Some("cover") { check_cover(t, r, &fam); }
            else {
                let zi = c.get("zi").and_then(|j| j.as_u64()).unwrap_or(0) as usize;
                match c.get("type").and_then(|j| j.as_str()).unwrap_or("") { "f32" => check_interp::<f32>(t, zi, r, &fam), "Vec2" => check_interp::<Vec2>(t, zi, r, &fam), "Vec3" => check_interp::<Vec3>(t, zi, r, &fam), "Point2" => check_interp::<Point2>(t, zi, r, &fam), "Color3f" => check_interp::<Color3f>(t, zi, r, &fam), "Color4f" => check_interp::<Color4f>(t, zi, r, &fam), "Point3" => check_interp::<re::math::Point3>(t, zi, r, &fam), "Angle" => check_interp::<re::math::Angle>(t, zi, r, &fam), _ => check_interp::<(f32, Vec2)>(t, zi, r, &fam) }
            }
        });
    }
    let quick = cfg.quick();
    let mut rep = Report::new();
    let fams = families(quick);
    let is_cover = cfg.part.starts_with("cover");
    for (name, pts, off, per) in &fams {
        let n = pts.len() as u64;
        if is_cover {
            rep.merge(par_range(&cfg, n * n * n, |i, r| check_cover(tri_of(pts, i, *off, *per), r, name)));
        } else {
            // C05: every ordered triple of a thinner lattice x 27 depth assignments x attribute types
            let stride: u64 = if quick { 3 } else { 1 };
            rep.merge(par_range(&cfg, n * n * n / stride, |j, r| {
                let i = j * stride + (j % stride.max(1));
                let t = tri_of(pts, i.min(n * n * n - 1), *off, *per);
                if name.starts_with("large") || name.starts_with("tall") {
                    // hundreds of thousands of fragments per triangle: two depth assignments, two types
                    for zi in [5usize, 19] { check_interp::<f32>(t, zi, r, name); check_interp::<(f32, Vec2)>(t, zi, r, name); }
                    check_interp::<f32>(t, 81 + 5, r, &format!("{name} (attributes offset by 64)"));
                    return;
                }
                for zi in 0..27 {
                    check_interp::<f32>(t, zi, r, name);
                    if zi % 2 == 0 || !quick { check_interp::<(f32, Vec2)>(t, zi, r, name); }
                    if zi % 4 == 1 || !quick { check_interp::<f32>(t, zi + 27, r, name); check_interp::<f32>(t, zi + 54, r, name); }
                    if zi % 9 == 4 { check_interp::<f32>(t, zi + 81, r, name); }
                    if zi % 13 == 5 || (!quick && zi % 3 == 1) { check_interp::<(f32, Vec2)>(t, zi + 27, r, name); check_interp::<(f32, Vec2)>(t, zi + 54, r, name); }
                    if zi % 13 == 5 || (!quick && zi % 3 == 1) { check_interp::<Vec2>(t, zi, r, name); check_interp::<Vec3>(t, zi, r, name); check_interp::<Color3f>(t, zi, r, name); check_interp::<Color4f>(t, zi, r, name); check_interp::<Point2>(t, zi, r, name); check_interp::<re::math::Point3>(t, zi, r, name); check_interp::<re::math::Angle>(t, zi, r, name); }
                }
            }));
        }
        rep.set(&format!("family:{name}"), format!("{} points -> {} ordered triples", n, n * n * n));
    }
    rep.sample(0, || obj! {"family" => fams[0].0.clone(), "triangle" => vec![0.0f32, 0.0, 4.0, 0.0, 2.0, 1.0]});
    rep.sample(1, || obj! {"family" => fams[2].0.clone(), "triangle_vertex_example" => vec![1.6f32, 2.325]});
    if !is_cover { rep.merge(par_range(&cfg, 6 * 6 * 256, check_scan_adaptors)); }
    if !is_cover { rep.merge(par_range(&cfg, 21870 * 3, check_vertical_sliver)); rep.merge(par_range(&cfg, 8748 * 3, check_apex_sliver)); rep.merge(par_range(&cfg, 972 * 6, check_flat_sliver)); }
    if is_cover { rep.merge(par_range(&cfg, 48, check_far)); }
    if is_cover {
        rep.finish(&cfg, "exploration",
            "every ordered vertex triple of: the half-pixel lattice 0..N px, the same lattice with all vertices (or each vertex independently) shifted by 1/3, 0.1, 2^-10, 0.499 px (non-dyadic slopes), a copy translated by +57 px, flat slivers 2^-11 px high at y = 700 and 2^-20 px high at y = 2.5 around pixel-centre rows, upright slivers 0.003 px wide around the pixel-centre column x = 4000.5, large triangles (up to 321 px) on and off the lattice, and (thorough) the quarter-pixel lattice. Every triangle is filled with z = 1 and again with z = 0 at every vertex and with z = x - 2.5: the scanlines and the fragment counts must not depend on the depths. Oracle: exact i128 edge functions on the exactly representable f32 inputs; centres within 0.001 px of an edge are exempt. Plus eight triangles with a vertex far off screen (coordinates to 1e5, all six vertex orders), judged row by row against the exact span of the row's centre line with a band of 0.001 px + 2^-21 |x|. Per triangle: covered set == inside set off the band, scanlines strictly increasing in y, no pixel twice, |xs| == number of fragments. All six vertex orders are separate cases. non-trivial = >=1 strictly inside centre.",
            &["screen coordinates in [0, 64], [1000, 1005] x [700, 704], [0, 321], x in [4000, 4001], [-12, 10] (partially off-grid: only pixels of the non-negative quadrant exist)", "attribute (); depth values 1, 0, x - 2.5"]);
    } else {
        rep.finish(&cfg, "exploration",
            "triangles as for C04 (thinned in the quick tier) x all 27 reciprocal-depth assignments over {1, 0.5, 0.1} (w ratio up to 10:1), also with all three scaled by 2^-24 and 2^10 (f32 attribute; other types on a subset), x attribute types f32, (f32,Vec2) and, on a stated subset, Vec2, Vec3, Color3f, Color4f, Point2, Point3, Angle with distinct non-constant vertex values handed over pre-divided (a*z). Oracle: f64 barycentric planes through the vertex depths and values at the pixel centre; var = value plane / depth plane; tolerance 0.5% of the vertex range; every fragment finite for area > 1e-6 (triangles with minimum altitude < 0.05 px are judged for finiteness and position only); reported position within 1e-3 px of the pixel centre; plus slivers 2^-24 .. 2^-12 px wide with an exactly vertical edge through a column of pixel centres, whose fragments on that column must carry the values interpolated along the edge, and slivers whose span on a pixel-centre row is [c - w/2, c + w/2] exactly (w = 2^-22 .. 2^-10), whose fragment there must carry the mean of the two span ends; and flat slivers (height ~1e-6 of y, at rows 2.5, 100.5, 1000.5) whose middle vertex lies on a pixel-centre row, whose fragments blend linearly between that vertex and the midpoint of the long edge. non-trivial = triangle with >= 1 fragment fully judged.",
            &["coordinates in [0, 64]", "tolerance 0.005*range + 1e-5*max|value|"]);
    }
}
