//! C11 — explicit-state exploration of Buf2 / Slice2 / MutSlice2 against a plain array model.
//!
//! State      = (root kind, root dims/stride/len, canonicalised backing contents)
//! Invariant  = every view recipe × every read operation agrees with the model (evaluated in every state)
//! Transition = one view recipe × one write operation on the real types; afterwards the *whole*
//!              backing storage is compared with the model (writes change exactly the addressed cells).
use re::math::{pt2, vec2};
use re::util::buf::inner::Inner;
use re::util::buf::{Buf2, MutSlice2, Slice2};
use re::util::rect::Rect;
use std::collections::{HashMap, VecDeque};
use std::ops::{Bound, Deref, DerefMut};
use vlib::*;

#[derive(Clone, Copy, Debug, PartialEq, Eq, Hash)]
struct Geo { off: usize, stride: usize, w: u32, h: u32 }
impl Geo {
    fn idx(&self, x: u32, y: u32) -> usize { self.off + y as usize * self.stride + x as usize }
    fn cells(&self) -> Vec<usize> {
        let mut v = vec![];
        for y in 0..self.h { for x in 0..self.w { v.push(self.idx(x, y)); } }
        v
    }
}

#[derive(Clone, Copy, Debug, PartialEq, Eq, Hash)]
enum Root {
    /// Buf2::new_from((w,h), contents)
    Buf { w: u32, h: u32 },
    /// Slice2::new / MutSlice2::new((w,h), stride, &data[..len])
    Direct { w: u32, h: u32, stride: u32, len: usize },
}
impl Root {
    fn len(&self) -> usize { match *self { Root::Buf { w, h } => (w * h) as usize, Root::Direct { len, .. } => len } }
    fn geo(&self) -> Geo {
        match *self {
            Root::Buf { w, h } => Geo { off: 0, stride: w as usize, w, h },
            Root::Direct { w, h, stride, .. } => Geo { off: 0, stride: stride as usize, w, h },
        }
    }
    fn descr(&self) -> String {
        match *self {
            Root::Buf { w, h } => format!("Buf2 {w}x{h}"),
            Root::Direct { w, h, stride, len } => format!("Direct {w}x{h} stride={stride} len={len}"),
        }
    }
}

/// Spelling of a rectangle handed to slice()/slice_mut().
#[derive(Clone, Copy, Debug, PartialEq, Eq, Hash)]
enum Form { Ranges, Inclusive, To, From, Full, VecRange, RangeFull, RectLit, BoundsExIn, BoundsExEx, BoundsInUn, BoundsUnEx, ToInclusive, MixedFromTo, MixedToFrom, /** (l..=u32::MAX, t..b): the end is one past u32::MAX */ InclusiveMaxX, /** (l..r, Excluded(u32::MAX)..): the start is one past u32::MAX */ ExcludedMaxY }

#[derive(Clone, Copy, Debug, PartialEq, Eq, Hash)]
enum Step {
    Slice { l: u32, t: u32, r: u32, b: u32, form: Form },
    AsView,
}

fn make_rect(l: u32, t: u32, r: u32, b: u32, form: Form) -> Rect<u32> {
    match form {
        Form::Ranges => (l..r, t..b).into(),
        Form::Inclusive => (l..=r.wrapping_sub(1), t..=b.wrapping_sub(1)).into(),
        Form::To => (..r, ..b).into(),
        Form::From => (l.., t..).into(),
        Form::Full => (.., ..).into(),
        Form::VecRange => (vec2(l, t)..vec2(r, b)).into(),
        Form::RangeFull => (..).into(),
        Form::BoundsExIn => ((Bound::Excluded(l - 1), Bound::Included(r.wrapping_sub(1))), (Bound::Excluded(t - 1), Bound::Included(b.wrapping_sub(1)))).into(),
        Form::BoundsExEx => ((Bound::Excluded(l - 1), Bound::Excluded(r)), (Bound::Excluded(t - 1), Bound::Excluded(b))).into(),
        Form::BoundsInUn => ((Bound::Included(l), Bound::Unbounded), (Bound::Included(t), Bound::Unbounded)).into(),
        Form::BoundsUnEx => ((Bound::Unbounded, Bound::Excluded(r)), (Bound::Unbounded, Bound::Excluded(b))).into(),
        Form::ToInclusive => (..=r - 1, ..=b - 1).into(),
        Form::MixedFromTo => (l.., ..b).into(),
        Form::MixedToFrom => (..r, t..).into(),
        Form::RectLit => Rect { left: Some(l), top: Some(t), right: Some(r), bottom: Some(b) },
        Form::InclusiveMaxX => (l..=u32::MAX, t..b).into(),
        Form::ExcludedMaxY => (l..r, (Bound::Excluded(u32::MAX), Bound::Unbounded)).into(),
    }
}

fn forms_for(l: u32, t: u32, r: u32, b: u32, w: u32, h: u32) -> Vec<Form> {
    let mut f = vec![Form::Ranges, Form::VecRange, Form::RectLit];
    if r >= 1 && b >= 1 { f.push(Form::Inclusive); }
    if l == 0 && t == 0 { f.push(Form::To); }
    if r == w && b == h { f.push(Form::From); }
    if l == 0 && t == 0 && r == w && b == h { f.push(Form::Full); f.push(Form::RangeFull); }
    if l >= 1 && t >= 1 { f.push(Form::BoundsExEx); if r >= 1 && b >= 1 { f.push(Form::BoundsExIn); } }
    if r == w && b == h { f.push(Form::BoundsInUn); }
    if l == 0 && t == 0 { f.push(Form::BoundsUnEx); if r >= 1 && b >= 1 { f.push(Form::ToInclusive); } }
    if r == w && t == 0 { f.push(Form::MixedFromTo); }
    if l == 0 && b == h { f.push(Form::MixedToFrom); }
    f
}

fn slice_geo(g: Geo, l: u32, t: u32, r: u32, b: u32) -> Option<Geo> {
    if l <= r && r <= g.w && t <= b && b <= g.h {
        Some(Geo { off: g.off + t as usize * g.stride + l as usize, stride: g.stride, w: r - l, h: b - t })
    } else { None }
}

#[derive(Clone, Copy, Debug, PartialEq, Eq, Hash)]
enum WOp {
    Fill,
    FillWith,
    GetMut { x: u32, y: u32 },
    IdxPt { x: u32, y: u32 },
    IdxArr { x: u32, y: u32 },
    RowIdx { i: usize, x: usize },
    RowsMut,
    IterMut,
    /// `via_mut`: the source is handed over as a (strided) MutSlice2 of a copy of the source buffer instead of a Slice2
    CopyFrom { sx: u32, sy: u32, dw: i32, dh: i32, via_mut: bool },
}

struct Ctx<'a> {
    rep: &'a mut Report,
    root: Root,
    state_descr: &'a str,
    recipe: &'a [Step],
}
impl<'a> Ctx<'a> {
    fn viol(&mut self, clause: &str, detail: String, what: String) {
        let rec: Vec<String> = self.recipe.iter().map(|s| format!("{s:?}")).collect();
        let key = format!("{clause}|{}|{}|{detail}", self.root.descr(), rec.join(">"));
        let case = obj! {"root" => self.root.descr(), "contents" => self.state_descr, "recipe" => rec, "clause" => clause, "detail" => detail};
        self.rep.violation(key, what, case);
    }
}

/// All read operations on a view, compared with the model.
fn reads<D: Deref<Target = [i32]>>(v: &Inner<i32, D>, g: Geo, model: &[i32], cx: &mut Ctx, tag: &str) {
    let zero_w = g.w == 0;
    cx.rep.eval();
    if v.width() != g.w || v.height() != g.h || v.dims() != (g.w, g.h) {
        cx.viol("dims", tag.into(), format!("dims {:?} expected {:?}", v.dims(), (g.w, g.h)));
        return;
    }
    // secondary accessors: the row pitch of a view is that of its root; contiguity as documented
    if v.stride() as usize != g.stride { cx.viol("stride", tag.into(), format!("stride() = {} but the root's row pitch is {}", v.stride(), g.stride)); }
    if v.is_contiguous() != (g.stride == g.w as usize || g.h <= 1 || g.w == 0) { cx.viol("is_contiguous", tag.into(), format!("is_contiguous() = {} for {}x{} with stride {}", v.is_contiguous(), g.w, g.h, g.stride)); }
    if v.is_empty() != (g.w == 0 || g.h == 0) {
        cx.viol("is_empty", tag.into(), format!("is_empty={} for {}x{}", v.is_empty(), g.w, g.h));
    }
    // get / index by point for every position one past the bounds and at u32::MAX
    let probe = |n: u32| -> Vec<u32> { if n <= 8 { (0..=n + 1).chain([u32::MAX]).collect() } else { let mut v = vec![0, 1, 2, n / 2, 254, 255, 256, 257, 65535, 65536, n - 2, n - 1, n, n + 1, u32::MAX]; v.retain(|x| *x <= n + 1 || *x == u32::MAX); v.sort(); v.dedup(); v } };
    let (xs, ys) = (probe(g.w), probe(g.h));
    for &y in &ys {
        for &x in &xs {
            let inb = x < g.w && y < g.h;
            let exp = inb.then(|| model[g.idx(x, y)]);
            cx.rep.eval();
            match caught(|| v.get(pt2(x, y)).copied()) {
                Ok(got) if got == exp => {}
                Ok(got) => cx.viol("get", format!("{tag} x={x} y={y}"), format!("get({x},{y})={got:?} expected {exp:?}")),
                Err(p) => cx.viol("get-panics", format!("{tag} x={x} y={y}"), format!("get({x},{y}) panicked: {p}")),
            }
            let got = caught(|| v[pt2(x, y)]);
            let got2 = caught(|| v[[x, y]]);
            for (nm, got) in [("index-pt", got), ("index-arr", got2)] {
                cx.rep.eval();
                match (got, exp) {
                    (Ok(a), Some(e)) if a == e => {}
                    (Err(_), None) => { cx.rep.h("oob-index-panics"); }
                    (Ok(a), e) => cx.viol(nm, format!("{tag} x={x} y={y}"), format!("[{x},{y}]={a} expected {e:?} (None = must panic)")),
                    (Err(p), Some(e)) => cx.viol(nm, format!("{tag} x={x} y={y}"), format!("[{x},{y}] panicked ({p}) expected {e}")),
                }
            }
        }
    }
    // row indexing
    let rows_idx: Vec<usize> = ys.iter().map(|y| *y as usize).chain([1usize << 32, (1usize << 32) + 1]).collect();
    for &i in &rows_idx {
        cx.rep.eval();
        let got = caught(|| v[i].to_vec());
        if i < g.h as usize {
            let exp: Vec<i32> = (0..g.w).map(|x| model[g.idx(x, i as u32)]).collect();
            match got {
                Ok(r) if r == exp => {}
                Ok(r) => cx.viol("row-index", format!("{tag} i={i}"), format!("row {i} = {r:?} expected {exp:?}")),
                Err(p) => cx.viol("row-index", format!("{tag} i={i}"), format!("row {i} panicked ({p}) expected {exp:?}")),
            }
        } else {
            match got {
                Err(_) => { cx.rep.h("oob-row-panics"); }
                Ok(r) => cx.viol("row-index-oob", format!("{tag} i={i}"), format!("row index {i} >= height {} returned {r:?} instead of panicking", g.h)),
            }
        }
    }
    // rows() and iter()
    cx.rep.eval();
    match caught(|| v.rows().map(|r| r.to_vec()).collect::<Vec<_>>()) {
        Err(p) => cx.viol("rows-panics", tag.into(), format!("rows() panicked: {p}")),
        Ok(rows) => {
            if zero_w {
                if rows.len() > g.h as usize || rows.iter().any(|r| !r.is_empty()) {
                    cx.viol("rows-zero-width", tag.into(), format!("rows() of zero-width view yielded {rows:?}"));
                }
            } else {
                let exp: Vec<Vec<i32>> = (0..g.h).map(|y| (0..g.w).map(|x| model[g.idx(x, y)]).collect()).collect();
                if rows != exp {
                    cx.viol("rows", tag.into(), format!("rows() = {rows:?} expected {exp:?}"));
                }
            }
        }
    }
    cx.rep.eval();
    match caught(|| v.iter().copied().collect::<Vec<_>>()) {
        Err(p) => cx.viol("iter-panics", tag.into(), format!("iter() panicked: {p}")),
        Ok(it) => {
            let exp: Vec<i32> = g.cells().iter().map(|&i| model[i]).collect();
            if it != exp { cx.viol("iter", tag.into(), format!("iter() = {it:?} expected {exp:?}")); }
        }
    }
}

/// Model effect of a write op on view geometry `g`. Returns (expected panic?, new model).
/// (Writes through empty views are no-ops, never panics: an earlier tolerance for panics on zero-area views was never
/// exercised once the library's empty-view defects were repaired, and was removed.)
fn model_write(op: WOp, g: Geo, model: &[i32], fresh: i32, src: &Buf2<i32>) -> (Option<bool>, Vec<i32>) {
    let mut m = model.to_vec();
    match op {
        WOp::Fill => { for i in g.cells() { m[i] = fresh; } (Some(false), m) }
        WOp::FillWith => {
            for y in 0..g.h { for x in 0..g.w { m[g.idx(x, y)] = fresh + (10 * y + x) as i32; } }
            (Some(false), m)
        }
        WOp::GetMut { x, y } => { if x < g.w && y < g.h { m[g.idx(x, y)] = fresh; } (Some(false), m) }
        WOp::IdxPt { x, y } | WOp::IdxArr { x, y } => {
            if x < g.w && y < g.h { m[g.idx(x, y)] = fresh; (Some(false), m) } else { (Some(true), m) }
        }
        WOp::RowIdx { i, x } => {
            if i < g.h as usize && x < g.w as usize { m[g.idx(x as u32, i as u32)] = fresh; (Some(false), m) } else { (Some(true), m) }
        }
        WOp::RowsMut => {
            for y in 0..g.h { for x in 0..g.w { m[g.idx(x, y)] = fresh + (10 * y + x) as i32; } }
            (Some(false), m)
        }
        WOp::IterMut => {
            for (k, i) in g.cells().into_iter().enumerate() { m[i] = fresh + k as i32; }
            (Some(false), m)
        }
        WOp::CopyFrom { sx, sy, dw, dh, .. } => {
            let (sw, sh) = ((g.w as i32 + dw) as u32, (g.h as i32 + dh) as u32);
            if dw != 0 || dh != 0 { return (Some(true), m); }
            for y in 0..sh { for x in 0..sw { m[g.idx(x, y)] = src[[sx + x, sy + y]]; } }
            (Some(false), m)
        }
    }
}

/// Apply a write op on the real view. Panics propagate to the caller's catch.
fn real_write<D: DerefMut<Target = [i32]>>(v: &mut Inner<i32, D>, op: WOp, fresh: i32, src: &Buf2<i32>) -> Result<(), String> {
    match op {
        WOp::Fill => v.fill(fresh),
        WOp::FillWith => {
            // a stateful callback: the documented row-major call order is part of the contract
            let (w, h) = v.dims();
            let mut calls: Vec<(u32, u32)> = vec![];
            v.fill_with(|x, y| { calls.push((x, y)); fresh + (10 * y + x) as i32 });
            let exp: Vec<(u32, u32)> = (0..h).flat_map(|y| (0..w).map(move |x| (x, y))).collect();
            if calls != exp { return Err(format!("fill_with called its function at {calls:?}, row-major order is {exp:?}")); }
        }
        WOp::GetMut { x, y } => { if let Some(c) = v.get_mut(pt2(x, y)) { *c = fresh; } }
        WOp::IdxPt { x, y } => v[pt2(x, y)] = fresh,
        WOp::IdxArr { x, y } => v[[x, y]] = fresh,
        WOp::RowIdx { i, x } => v[i][x] = fresh,
        WOp::RowsMut => {
            let (w, h) = v.dims();
            let mut n = 0u32;
            for (y, row) in v.rows_mut().enumerate() {
                if w > 0 && row.len() != w as usize { return Err(format!("rows_mut row {y} has len {} != width {w}", row.len())); }
                if w == 0 && !row.is_empty() { return Err(format!("rows_mut of zero-width view yielded non-empty row")); }
                for (x, c) in row.iter_mut().enumerate() { *c = fresh + (10 * y + x) as i32; }
                n += 1;
            }
            if (w > 0 && n != h) || n > h { return Err(format!("rows_mut yielded {n} rows, height {h}")); }
        }
        WOp::IterMut => {
            let (w, h) = v.dims();
            let mut n = 0;
            for (k, c) in v.iter_mut().enumerate() { *c = fresh + k as i32; n += 1; }
            if n != (w * h) as usize { return Err(format!("iter_mut yielded {n} items, expected {}", w * h)); }
        }
        WOp::CopyFrom { sx, sy, dw, dh, via_mut } => {
            let (w, h) = v.dims();
            let (sw, sh) = ((w as i32 + dw) as u32, (h as i32 + dh) as u32);
            if via_mut { let mut sc = src.clone(); let s = sc.slice_mut((sx..sx + sw, sy..sy + sh)); v.copy_from(s); }
            else { let s = src.slice((sx..sx + sw, sy..sy + sh)); v.copy_from(s); }
        }
    }
    Ok(())
}

fn write_ops(g: Geo) -> Vec<WOp> {
    let mut ops = vec![WOp::Fill, WOp::FillWith, WOp::RowsMut, WOp::IterMut];
    let (w, h) = (g.w, g.h);
    let mut pts = vec![(0, 0), (w, 0), (0, h), (u32::MAX, 0), (0, u32::MAX)];
    if w > 0 && h > 0 { pts.extend([(w - 1, h - 1), (w - 1, 0), (0, h - 1)]); }
    pts.sort(); pts.dedup();
    for &(x, y) in &pts {
        ops.push(WOp::GetMut { x, y });
        ops.push(WOp::IdxPt { x, y });
        ops.push(WOp::IdxArr { x, y });
    }
    let mut rows: Vec<(usize, usize)> = vec![(0, 0), (h as usize, 0), (0, w as usize), (1usize << 32, 0)];
    if w > 0 && h > 0 { rows.push((h as usize - 1, w as usize - 1)); }
    rows.sort(); rows.dedup();
    for (i, x) in rows { ops.push(WOp::RowIdx { i, x }); }
    // copy_from: same dims from two offsets of the source buffer, and two mismatching dims
    if w <= 4 && h <= 4 {
        for via_mut in [false, true] {
            ops.push(WOp::CopyFrom { sx: 0, sy: 0, dw: 0, dh: 0, via_mut });
            if w + 1 <= 5 && h + 1 <= 5 { ops.push(WOp::CopyFrom { sx: 1, sy: 1, dw: 0, dh: 0, via_mut }); }
        }
        ops.push(WOp::CopyFrom { sx: 0, sy: 0, dw: 1, dh: 0, via_mut: false });
        if h > 0 { ops.push(WOp::CopyFrom { sx: 0, sy: 0, dw: 0, dh: -1, via_mut: true }); }
    }
    ops
}

/// Enumerate view recipes below a root geometry: depth 0..=2 slicing steps.
/// Returns (steps, expected geometry or None when the last step must panic).
fn recipes(g0: Geo, all_forms_first: bool, oob: bool) -> Vec<(Vec<Step>, Option<Geo>)> {
    let mut out: Vec<(Vec<Step>, Option<Geo>)> = vec![(vec![], Some(g0)), (vec![Step::AsView], Some(g0))];
    let rects = |g: Geo, oob: bool| -> Vec<(u32, u32, u32, u32)> {
        let mut v = vec![];
        let (mw, mh) = if oob { (g.w + 1, g.h + 1) } else { (g.w, g.h) };
        // small extents: every coordinate; large extents (scale sentinels): edge and middle coordinates only
        let cand = |m: u32, full: u32| -> Vec<u32> { if full <= 8 { (0..=m).collect() } else { let mut v = vec![0, 1, full / 2, full - 1, full]; if m > full { v.push(m); } v.sort(); v.dedup(); v } };
        let (xs, ys) = (cand(mw, g.w), cand(mh, g.h));
        for &l in &xs { for &r in &xs { for &t in &ys { for &b in &ys {
            let valid = l <= r && r <= g.w && t <= b && b <= g.h;
            if valid { v.push((l, t, r, b)); }
            else if oob {
                // exactly one defect: one coordinate one past the bound, or one inverted pair
                let d = (r == g.w + 1) as u32 + (b == g.h + 1) as u32 + (l > r) as u32 + (t > b) as u32 + (l == g.w + 1 && l <= r) as u32 * 0 + (t == g.h + 1 && t <= b) as u32 * 0;
                if d == 1 && l <= g.w + 1 && t <= g.h + 1 { v.push((l, t, r, b)); }
            }
        }}}}
        v
    };
    for (l, t, r, b) in rects(g0, oob) {
        let g1 = slice_geo(g0, l, t, r, b);
        // (rectangles that must be rejected - inverted or out of bounds - are also spelled in every form that can express them)
        let forms = if all_forms_first { if g1.is_some() { forms_for(l, t, r, b, g0.w, g0.h) } else { vec![Form::Ranges, Form::VecRange, Form::RectLit] } } else { vec![Form::Ranges] };
        // two spellings that are out of bounds whatever the view: an inclusive end of u32::MAX, an excluded start of u32::MAX
        if all_forms_first && g1.is_some() && l == 0 && t == 0 { out.push((vec![Step::Slice { l, t, r, b, form: Form::InclusiveMaxX }], None)); out.push((vec![Step::Slice { l, t, r, b, form: Form::ExcludedMaxY }], None)); }
        for form in forms {
            let s1 = Step::Slice { l, t, r, b, form };
            out.push((vec![s1], g1));
            if form != Form::Ranges { continue; }
            if let Some(g1) = g1 {
                for (l2, t2, r2, b2) in rects(g1, oob) {
                    let g2 = slice_geo(g1, l2, t2, r2, b2);
                    out.push((vec![s1, Step::Slice { l: l2, t: t2, r: r2, b: b2, form: Form::Ranges }], g2));
                }
            }
        }
    }
    out
}

enum Outcome { Done, StepPanicked(usize, String) }

/// Walk an immutable recipe on the real types and run `f` on the final view.
fn walk<D: Deref<Target = [i32]>>(v: &Inner<i32, D>, steps: &[Step], depth: usize, f: &mut dyn FnMut(&Inner<i32, &[i32]>)) -> Outcome {
    match steps.first() {
        None => { match caught(|| v.as_slice2()) { Ok(s) => { f(&s); Outcome::Done } Err(p) => Outcome::StepPanicked(usize::MAX - 1, format!("as_slice2() panicked: {p}")) } }
        Some(Step::AsView) => { match caught(|| v.as_slice2()) { Ok(s) => walk(&*s, &steps[1..], depth + 1, f), Err(p) => Outcome::StepPanicked(usize::MAX - 1, format!("as_slice2() panicked: {p}")) } }
        Some(&Step::Slice { l, t, r, b, form }) => {
            match caught(|| v.slice(make_rect(l, t, r, b, form))) {
                Ok(s) => walk(&*s, &steps[1..], depth + 1, f),
                Err(p) => Outcome::StepPanicked(depth, p),
            }
        }
    }
}

fn walk_mut<D: DerefMut<Target = [i32]>>(v: &mut Inner<i32, D>, steps: &[Step], depth: usize, f: &mut dyn FnMut(&mut Inner<i32, &mut [i32]>)) -> Outcome {
    match steps.first() {
        None => { match caught(|| v.as_mut_slice2()) { Ok(mut s) => { f(&mut *s); Outcome::Done } Err(p) => Outcome::StepPanicked(usize::MAX - 1, format!("as_mut_slice2() panicked: {p}")) } }
        Some(Step::AsView) => { match caught(|| v.as_mut_slice2()) { Ok(mut s) => walk_mut(&mut *s, &steps[1..], depth + 1, f), Err(p) => Outcome::StepPanicked(usize::MAX - 1, format!("as_mut_slice2() panicked: {p}")) } }
        Some(&Step::Slice { l, t, r, b, form }) => {
            match caught(|| v.slice_mut(make_rect(l, t, r, b, form))) {
                Ok(mut s) => walk_mut(&mut *s, &steps[1..], depth + 1, f),
                Err(p) => Outcome::StepPanicked(depth, p),
            }
        }
    }
}

/// A real root: owned buffer or harness-owned backing array.
enum RealRoot { Buf(Buf2<i32>), Direct(Vec<i32>) }

fn build_root(root: Root, contents: &[i32]) -> Result<RealRoot, String> {
    match root {
        Root::Buf { w, h } => caught(|| Buf2::new_from((w, h), contents.iter().copied())).map(RealRoot::Buf),
        Root::Direct { .. } => Ok(RealRoot::Direct(contents.to_vec())),
    }
}

fn canon(c: &[i32]) -> Vec<i32> {
    let mut map: HashMap<i32, i32> = HashMap::new();
    c.iter().map(|v| { let n = map.len() as i32 + 1; *map.entry(*v).or_insert(n) }).collect()
}

#[derive(Clone, PartialEq, Eq, Hash)]
struct State { root: Root, contents: Vec<i32> }

/// Evaluate the invariant (all reads) in a state and expand all write transitions.
fn expand(st: &State, rep: &mut Report, src: &Buf2<i32>, want_succ: bool, thorough_forms: bool) -> Vec<(State, String)> {
    let root = st.root;
    let g0 = root.geo();
    let model = &st.contents;
    let descr = format!("{:?}", st.contents);
    let fresh = model.iter().copied().max().unwrap_or(0) + 1;
    let mut succ: Vec<(State, String)> = vec![];
    let recs = recipes(g0, thorough_forms, true);
    rep.hn("recipes", recs.len() as u64);
    for (steps, geo) in &recs {
        // ---- immutable chain: reads ----
        let real = match build_root(root, model) { Ok(r) => r, Err(p) => { rep.h("root-construction-panics"); let _ = p; return succ; } };
        let mut cx = Ctx { rep, root, state_descr: &descr, recipe: steps };
        let mut ran = false;
        let mut body = |v: &Inner<i32, &[i32]>| {
            ran = true;
            if let Some(g) = geo { reads(v, *g, model, &mut cx, "imm"); }
        };
        let oc = match &real {
            RealRoot::Buf(b) => walk(&**b, steps, 0, &mut body),
            RealRoot::Direct(d) => {
                let Root::Direct { w, h, stride, .. } = root else { unreachable!() };
                match caught(|| Slice2::new((w, h), stride, &d[..])) {
                    Ok(s) => walk(&*s, steps, 0, &mut body),
                    Err(p) => Outcome::StepPanicked(usize::MAX, p),
                }
            }
        };
        let _ = ran;
        check_outcome(oc, geo, &mut cx, steps, g0, "slice");
        // ---- mutable chain: reads through the mutable view, then each write op ----
        let Some(g) = *geo else {
            // must-panic recipe: also on the mutable chain
            let mut real = build_root(root, model).unwrap();
            let mut nothing = |_: &mut Inner<i32, &mut [i32]>| {};
            let oc = match &mut real {
                RealRoot::Buf(b) => walk_mut(&mut **b, steps, 0, &mut nothing),
                RealRoot::Direct(d) => {
                    let Root::Direct { w, h, stride, .. } = root else { unreachable!() };
                    match caught(|| MutSlice2::new((w, h), stride, &mut d[..])) {
                        Ok(mut s) => walk_mut(&mut *s, steps, 0, &mut nothing),
                        Err(p) => Outcome::StepPanicked(usize::MAX, p),
                    }
                }
            };
            check_outcome(oc, geo, &mut cx, steps, g0, "slice_mut");
            continue;
        };
        let mut ops = write_ops(g);
        ops.insert(0, WOp::GetMut { x: u32::MAX, y: u32::MAX }); // placeholder slot 0 = "reads only"
        for (oi, op) in ops.iter().enumerate() {
            let mut real = build_root(root, model).unwrap();
            let (exp_panic, exp_model) = if oi == 0 { (Some(false), model.clone()) } else { model_write(*op, g, model, fresh, src) };
            let mut res: Option<Result<Result<(), String>, String>> = None;
            let mut body = |v: &mut Inner<i32, &mut [i32]>| {
                if oi == 0 {
                    reads(&*v, g, model, &mut cx, "mut");
                    res = Some(Ok(Ok(())));
                } else {
                    res = Some(caught(|| real_write(v, *op, fresh, src)));
                }
            };
            let oc = match &mut real {
                RealRoot::Buf(b) => walk_mut(&mut **b, steps, 0, &mut body),
                RealRoot::Direct(d) => {
                    let Root::Direct { w, h, stride, .. } = root else { unreachable!() };
                    match caught(|| MutSlice2::new((w, h), stride, &mut d[..])) {
                        Ok(mut s) => walk_mut(&mut *s, steps, 0, &mut body),
                        Err(p) => Outcome::StepPanicked(usize::MAX, p),
                    }
                }
            };
            if let Outcome::StepPanicked(..) = oc {
                if oi == 0 { check_outcome(oc, geo, &mut cx, steps, g0, "slice_mut"); }
                break; // view cannot be built (reported once)
            }
            if oi == 0 { continue; }
            cx.rep.transitions += 1;
            cx.rep.eval();
            let after: Vec<i32> = match &real { RealRoot::Buf(b) => b.data().to_vec(), RealRoot::Direct(d) => d.clone() };
            let opd = format!("{op:?}");
            match (res.unwrap(), exp_panic) {
                (Ok(Err(msg)), _) => { cx.viol("write-shape", opd.clone(), msg); }
                (Err(p), Some(false)) => { cx.viol("write-panics", opd.clone(), format!("{opd} panicked: {p}")); }
                (Ok(Ok(())), Some(true)) => { cx.viol("write-oob-no-panic", opd.clone(), format!("{opd} out of bounds did not panic")); }
                (Err(_), None) => { cx.rep.h("zero-area-write-panics(carve-out)"); }
                (Err(_), Some(true)) => { cx.rep.h("oob-write-panics"); }
                _ => {}
            }
            // whatever happened: cells outside the view must be intact, cells inside as modelled
            // (after an expected or tolerated panic the model is "unchanged or as modelled inside the view")
            if after != exp_model {
                let inside: std::collections::HashSet<usize> = g.cells().into_iter().collect();
                let outside_changed: Vec<usize> = (0..after.len()).filter(|i| !inside.contains(i) && after[*i] != model[*i]).collect();
                if !outside_changed.is_empty() {
                    cx.viol("write-outside-view", opd.clone(), format!("{opd} changed backing cells {outside_changed:?} outside the view; before {model:?} after {after:?}"));
                } else if exp_panic == Some(false) || (exp_panic.is_none() && after != *model) {
                    cx.viol("write-wrong-cells", opd.clone(), format!("{opd}: backing {after:?} expected {exp_model:?}"));
                } else if exp_panic == Some(true) {
                    cx.viol("write-after-oob", opd.clone(), format!("{opd}: out-of-bounds write modified view cells: {after:?}"));
                }
                continue;
            }
            if want_succ && after != *model {
                succ.push((State { root, contents: canon(&after) }, format!("{:?} . {opd}", steps)));
            }
        }
    }
    succ
}

fn check_outcome(oc: Outcome, geo: &Option<Geo>, cx: &mut Ctx, steps: &[Step], g0: Geo, which: &str) {
    cx.rep.eval();
    // geometry reached by the steps that were (to be) executed up to and including step d
    let zero_upto = |d: usize| -> (bool, bool) {
        let mut g = g0;
        let mut zero = g.w == 0 || g.h == 0;
        let mut valid = true;
        for s in steps.iter().take(if d == usize::MAX { 0 } else { d + 1 }) {
            if let Step::Slice { l, t, r, b, .. } = *s {
                match slice_geo(g, l, t, r, b) { Some(n) => { g = n; zero |= g.w == 0 || g.h == 0; } None => { valid = false; break; } }
            }
        }
        (zero, valid)
    };
    match (oc, geo) {
        (Outcome::Done, Some(_)) => {}
        (Outcome::Done, None) => cx.viol("slice-oob-accepted", which.into(), format!("{which} with out-of-bounds rectangle did not panic")),
        (Outcome::StepPanicked(d, p), _) if d == usize::MAX - 1 => { cx.viol("reborrow-panics", which.into(), format!("{which}: re-borrowing a valid view panicked: {p}")); }
        // (a recipe whose last step is one of the always-out-of-bounds spellings is expected to panic there)
        (Outcome::StepPanicked(d, _), None) if d + 1 == steps.len() && matches!(steps.last(), Some(Step::Slice { form: Form::InclusiveMaxX | Form::ExcludedMaxY, .. })) => { cx.rep.h("oob-slice-panics"); }
        (Outcome::StepPanicked(d, p), _) => {
            let (zero, valid) = zero_upto(d);
            if !valid { cx.rep.h("oob-slice-panics"); }
            // an in-bounds rectangle - empty ones included, like `&v[len..len]` - is a valid view of the plain-array model
            else { cx.viol(if zero { "slice-panics|empty-rect" } else { "slice-panics" }, which.into(), format!("{which}: in-bounds {}step {d} panicked: {p}", if zero { "(empty) " } else { "" })); }
        }
    }
}

/// Direct constructors: acceptance is one-directional (must reject what the data cannot hold).
fn direct_roots(maxd: u32) -> Vec<(Root, bool)> {
    let mut v = vec![];
    for w in 0..=maxd { for h in 0..=maxd {
        for stride in [w, w + 1, w + 2, 0, w.saturating_sub(1)] {
            let needed = if h == 0 { 0 } else { (h as usize - 1) * stride as usize + w as usize };
            let mut lens = vec![needed.saturating_sub(1), needed, needed + 1, needed + stride as usize, needed + 2 * stride as usize + 1];
            lens.sort(); lens.dedup();
            for len in lens {
                let can_hold = stride >= w && len >= needed;
                v.push((Root::Direct { w, h, stride, len }, can_hold));
            }
        }
    }}
    v.sort_by_key(|(r, _)| format!("{r:?}")); v.dedup();
    v
}

/// owned-buffer constructors: contents, call order, rejection of short data, clone independence, trait views
fn check_ctors(w: u32, h: u32, rep: &mut Report) {
        let n = (w * h) as usize;
    let cv = |clause: &str, what: String| (format!("{clause}|Buf2 {w}x{h}"), what, obj! {"root" => format!("Buf2 {w}x{h}"), "contents" => "[]", "recipe" => Vec::<String>::new(), "clause" => clause, "detail" => ""});
    rep.eval();
    if let Ok(b) = caught(|| Buf2::<i32>::new((w, h))) {
        if b.dims() != (w, h) || b.data().len() != n || b.data().iter().any(|v| *v != 0) { let (k, wh, c) = cv("ctor-new", format!("Buf2::new(({w},{h})): dims {:?}, data {:?}", b.dims(), b.data())); rep.violation(k, wh, c); }
    } else { let (k, wh, c) = cv("ctor-new-panics", format!("Buf2::new(({w},{h})) panicked")); rep.violation(k, wh, c); }
    let mut calls = vec![];
    if let Ok(b) = caught(|| Buf2::new_with((w, h), |x, y| { calls.push((x, y)); (10 * y + x) as i32 })) {
        let exp: Vec<i32> = (0..h).flat_map(|y| (0..w).map(move |x| (10 * y + x) as i32)).collect();
        let exp_calls: Vec<(u32, u32)> = (0..h).flat_map(|y| (0..w).map(move |x| (x, y))).collect();
        if b.data() != exp || calls != exp_calls { let (k, wh, c) = cv("ctor-new_with", format!("new_with: data {:?} expected {exp:?}; calls {calls:?}", b.data())); rep.violation(k, wh, c); }
    } else { let (k, wh, c) = cv("ctor-new_with-panics", format!("Buf2::new_with(({w},{h}), ..) panicked")); rep.violation(k, wh, c); }
    for extra in [-1i32, 0, 1, 5] {
        rep.eval();
        let len = (n as i32 + extra).max(0) as usize;
        let res = caught(|| Buf2::new_from((w, h), 1..=len as i32));
        match (res, len >= n) {
            (Ok(b), true) => { if b.data() != (1..=n as i32).collect::<Vec<_>>() || b.dims() != (w, h) { let (k, wh, c) = cv("ctor-new_from", format!("new_from with {len} items: data {:?}", b.data())); rep.violation(k, wh, c); } }
            (Ok(b), false) => { let (k, wh, c) = cv("ctor-accepts-too-small", format!("new_from(({w},{h})) accepted an iterator of only {len} items: {:?}", b.data())); rep.violation(k, wh, c); }
            (Err(_), true) => { let (k, wh, c) = cv("ctor-new_from-panics", format!("new_from(({w},{h})) panicked with {len} >= {n} items")); rep.violation(k, wh, c); }
            (Err(_), false) => { rep.h("short-data-rejected"); }
        }
    }
    if w > 0 && h > 0 {
        rep.eval();
        let a = Buf2::new_from((w, h), 1..);
        let mut b = a.clone();
        b.fill(-7);
        fn sum_through<T: re::util::buf::AsSlice2<i32>>(t: T) -> i32 { t.as_slice2().iter().sum() }
        fn bump<T: re::util::buf::AsMutSlice2<i32>>(mut t: T) { t.as_mut_slice2().fill(3); }
        let s0: i32 = a.data().iter().sum();
        let ok_clone = a.data() == (1..=n as i32).collect::<Vec<_>>() && b.data().iter().all(|v| *v == -7);
        let ok_ref = sum_through(&a) == s0 && sum_through(a.as_slice2()) == s0;
        let mut c2 = a.clone();
        bump(&mut c2);
        let ok_mut = c2.data().iter().all(|v| *v == 3) && a.data()[0] == 1;
        let mut d = a.clone();
        d.data_mut()[n - 1] = 99;
        let ok_data = d[[w - 1, h - 1]] == 99;
        if !(ok_clone && ok_ref && ok_mut && ok_data) { let (k, wh, c) = cv("ctor-clone-traits", format!("clone/AsSlice2/AsMutSlice2/data_mut inconsistent: {ok_clone} {ok_ref} {ok_mut} {ok_data}")); rep.violation(k, wh, c); }
    }
}

fn main() {
    silence_panics();
    let cfg = Cfg::from_args(|_| "C11".into());
    let src: Buf2<i32> = Buf2::new_from((5, 5), 5000..);
    if cfg.replay.is_some() {
        replay_main(&cfg, |case, rep| {
            // re-run the full expansion of the recorded state; report only the recorded clause+recipe
            let rootd = case.get("root").and_then(|j| j.as_str()).unwrap_or("").to_string();
            let contents: Vec<i32> = case.get("contents").and_then(|j| j.as_str()).unwrap_or("[]")
                .trim_matches(|c| c == '[' || c == ']').split(',').filter_map(|s| s.trim().parse().ok()).collect();
            let root = parse_root(&rootd);
            if case.get("clause").and_then(|j| j.as_str()).map_or(false, |c| c.starts_with("ctor-new") || c == "ctor-clone-traits" || (c == "ctor-accepts-too-small" && rootd.starts_with("Buf2"))) {
                if let Root::Buf { w, h } = root { check_ctors(w, h, rep); }
                return;
            }
            let st = State { root, contents };
            let mut r = Report::new();
            expand(&st, &mut r, &src, false, true);
            let clause = case.get("clause").and_then(|j| j.as_str()).unwrap_or("");
            let recipe: Vec<String> = case.get("recipe").and_then(|j| j.as_arr()).map(|a| a.iter().filter_map(|s| s.as_str().map(String::from)).collect()).unwrap_or_default();
            let detail = case.get("detail").and_then(|j| j.as_str()).unwrap_or("");
            let want = format!("{clause}|{}|{}|{detail}", rootd, recipe.join(">"));
            for (k, v) in r.viols { if k == want { rep.violation(k, v.what, v.case); } }
        });
    }
    let quick = cfg.quick();
    let maxd: u32 = if quick { 3 } else { 4 };
    let depth_bound = if quick { 2usize } else { 3 };
    // initial states: every Buf2 root up to maxd x maxd with distinct cell values; every accepted direct root
    let mut init: Vec<State> = vec![];
    for w in 0..=maxd { for h in 0..=maxd {
        let root = Root::Buf { w, h };
        init.push(State { root, contents: (1..=(w * h) as i32).collect() });
    }}
    // scale sentinels: a few large roots (extents beyond 255 and 65535), expanded once with edge/middle recipes
    let large: Vec<(u32, u32)> = if quick { vec![(300, 3), (2, 258), (65537, 1), (17, 5), (33, 31), (64, 9), (9, 128)] } else { vec![(300, 3), (3, 300), (257, 2), (2, 258), (65537, 1), (1, 65537), (70, 70), (17, 5), (33, 31), (64, 9), (9, 128), (100, 100), (127, 129)] };
    for &(w, h) in &large { init.push(State { root: Root::Buf { w, h }, contents: (1..=(w * h) as i32).collect() }); }
    let mut rep = Report::new();
    for (root, can_hold) in direct_roots(if quick { 2 } else { 3 }) {
        let Root::Direct { w, h, stride, len } = root else { unreachable!() };
        let data: Vec<i32> = (1..=len as i32).collect();
        let a = caught(|| { Slice2::new((w, h), stride, &data[..]); }).is_ok();
        let mut d2 = data.clone();
        let b = caught(|| { MutSlice2::new((w, h), stride, &mut d2[..]); }).is_ok();
        rep.eval();
        if a != b {
            rep.violation(format!("ctor-disagree|{}", root.descr()), format!("Slice2::new accepted={a} MutSlice2::new accepted={b}"), obj! {"root" => root.descr(), "contents" => format!("{data:?}"), "recipe" => Vec::<String>::new(), "clause" => "ctor-disagree", "detail" => ""});
        }
        if a && !can_hold {
            rep.violation(format!("ctor-accepts-too-small|{}", root.descr()), "constructor accepted dimensions the data cannot hold".into(), obj! {"root" => root.descr(), "contents" => format!("{data:?}"), "recipe" => Vec::<String>::new(), "clause" => "ctor-accepts-too-small", "detail" => ""});
        }
        if a { rep.h("direct-accepted"); init.push(State { root, contents: data }); }
        else if can_hold { rep.h("direct-rejected-though-holdable(allowed)"); } else { rep.h("direct-rejected"); }
    }
    // dimensions whose required size exceeds the data by orders of magnitude - up to and beyond 2^32 cells - must be
    // rejected too (the size computation may not wrap or be skipped)
    for (w, h, stride, len) in [(1u32, 65537u32, 65536u32, 65536usize), (2, 65536, 65536, 100), (65536, 65537, 65536, 65536), (1, u32::MAX, 1, 10), (u32::MAX, 2, u32::MAX, 1000), (3, 1431655766, 3, 30), (16, 268435457, 16, 64), (1, 3, 2147483648, 8), (5, 1, 5, 4)] {
        rep.eval();
        let data: Vec<i32> = (1..=len as i32).collect();
        let mut d2 = data.clone();
        let need = (h as u128 - 1) * stride as u128 + w as u128;
        let (a, b) = (caught(|| { Slice2::new((w, h), stride, &data[..]); }).is_ok(), caught(|| { MutSlice2::new((w, h), stride, &mut d2[..]); }).is_ok());
        if (a || b) && need > len as u128 { rep.violation(format!("ctor-accepts-too-small|Direct {w}x{h} stride={stride} len={len}"), format!("a view of {w}x{h} with stride {stride} needs {need} elements but was constructed over {len} (Slice2 accepted={a}, MutSlice2 accepted={b})"), obj! {"root" => format!("Direct {w}x{h} stride={stride} len={len}"), "contents" => "[]", "recipe" => Vec::<String>::new(), "clause" => "ctor-accepts-too-small", "detail" => ""}); } else { rep.h("huge-direct-rejected"); }
    }
    // valid views whose extent h * stride exceeds 2^32 although (h-1) * stride + w does not - over zero-sized elements, so
    // that the 2^32-element backing store costs nothing: rows / rows_mut / iter / fill / row and point indexing agree with h, w
    // (every cell index still fits in u32, the type of the library's dimensions: larger views are outside its domain)
    for (w, h, stride) in [(1u32, 2u32, 2147483649u32), (2, 65535, 65538), (3, 3, 0x7FFF_FFFE), (1, 4, 0x4000_0001), (5, 2, 0xFFFF_FFF0)] {
        rep.eval();
        let need = (h as u64 - 1) * stride as u64 + w as u64;
        let mut data: Vec<()> = vec![(); need as usize];
        let tag = format!("Direct(zero-sized cells) {w}x{h} stride={stride}");
        let cv = |clause: &str, what: String| (format!("{clause}|{tag}"), what, obj! {"root" => tag.clone(), "contents" => "[]", "recipe" => Vec::<String>::new(), "clause" => clause, "detail" => ""});
        let res = caught(|| {
            let v = Slice2::new((w, h), stride, &data[..]);
            let rows: Vec<usize> = v.rows().map(|r| r.len()).collect();
            (v.dims(), rows.len(), rows.iter().all(|l| *l == w as usize), v.iter().count(), v.get(pt2(w - 1, h - 1)).is_some(), v.get(pt2(w, h - 1)).is_none() && v.get(pt2(0, h)).is_none(), v[h as usize - 1].len())
        });
        match res {
            Ok((dims, nrows, lens_ok, ncells, last_ok, oob_ok, lastrow)) => {
                if dims != (w, h) || nrows != h as usize || !lens_ok || ncells != (w * h) as usize || !last_ok || !oob_ok || lastrow != w as usize { let (k, wh, c) = cv("rows-count", format!("{tag}: dims {dims:?}, rows() yields {nrows} rows (all of width {w}: {lens_ok}), iter() {ncells} cells, last cell reachable {last_ok}, out-of-bounds rejected {oob_ok}, last row len {lastrow}")); rep.violation(k, wh, c); } else { rep.nontrivial(); rep.h("huge-zero-sized-view-read"); }
            }
            Err(p) => { let (k, wh, c) = cv("read-panics", format!("{tag}: reading a valid view panicked: {p}")); rep.violation(k, wh, c); }
        }
        let res = caught(|| {
            let mut v = MutSlice2::new((w, h), stride, &mut data[..]);
            let n = v.rows_mut().map(|r| { assert_eq!(r.len(), w as usize); }).count();
            let m = v.iter_mut().count();
            v.fill(());
            v.fill_with(|_, _| ());
            (n, m)
        });
        match res {
            Ok((n, m)) => { if n != h as usize || m != (w * h) as usize { let (k, wh, c) = cv("rows-count", format!("{tag}: rows_mut() yields {n} rows, iter_mut() {m} cells")); rep.violation(k, wh, c); } else { rep.h("huge-zero-sized-view-write"); } }
            Err(p) => { let (k, wh, c) = cv("write-panics", format!("{tag}: writing through a valid view panicked: {p}")); rep.violation(k, wh, c); }
        }
    }
    // ... and views with cells whose linear index does not fit in u32, the type all of the library's index arithmetic is
    // done in, must be rejected by the constructors even over (zero-sized) data that could hold them: accepted, they could
    // only panic or wrap on access
    for (w, h, stride) in [(3u32, 3u32, 0x8000_0000u32), (65536, 65537, 65536), (2, 3, 0xFFFF_FFFF), (0x8000_0000, 3, 0x8000_0000)] {
        rep.eval();
        let need = (h as u64 - 1) * stride as u64 + w as u64;
        let mut data: Vec<()> = vec![(); need as usize];
        let tag = format!("Direct(zero-sized cells) {w}x{h} stride={stride}");
        let (a, b) = (caught(|| { Slice2::new((w, h), stride, &data[..]); }).is_ok(), caught(|| { MutSlice2::new((w, h), stride, &mut data[..]); }).is_ok());
        if a || b { rep.violation(format!("ctor-accepts-unaddressable|{tag}"), format!("{tag}: needs {need} cells, i.e. indices beyond u32::MAX, yet was constructed (Slice2 accepted={a}, MutSlice2 accepted={b})"), obj! {"root" => tag.clone(), "contents" => "[]", "recipe" => Vec::<String>::new(), "clause" => "ctor-accepts-unaddressable", "detail" => ""}); } else { rep.h("unaddressable-view-rejected"); }
    }
    for w in 0..=maxd { for h in 0..=maxd { check_ctors(w, h, &mut rep); } }
    // BFS by levels; each level expanded in parallel
    let mut seen: HashMap<State, (Option<usize>, String)> = HashMap::new();
    let mut order: Vec<State> = vec![];
    let mut frontier: VecDeque<usize> = VecDeque::new();
    for s in init { if !seen.contains_key(&s) { seen.insert(s.clone(), (None, "init".into())); order.push(s); frontier.push_back(order.len() - 1); } }
    let mut depth = 0;
    let mut max_depth = 0;
    while !frontier.is_empty() {
        let level: Vec<usize> = frontier.drain(..).collect();
        let want_succ = depth < depth_bound;
        // deeper levels on big roots explode: beyond depth 1 only roots with <= 9 cells are expanded further (stated bound)
        let states: Vec<State> = level.iter().map(|&i| order[i].clone()).collect();
        let results = std::sync::Mutex::new(vec![]);
        let r = par_range(&cfg, states.len() as u64, |i, rp| {
            let st = &states[i as usize];
            let small = st.root.len() <= if quick { 6 } else if depth >= 2 { 4 } else { 9 };
            let ws = want_succ && (depth == 0 || small) && st.root.len() <= 16;
            let succ = expand(st, rp, &src, ws, depth == 0);
            rp.states += 1;
            rp.sample(fnv(&format!("{:?}{:?}", st.root, st.contents)), || obj! {"state" => st.root.descr(), "contents" => format!("{:?}", st.contents), "depth" => depth as u64, "successors" => succ.len()});
            if !succ.is_empty() { results.lock().unwrap().push((level[i as usize], succ)); }
        });
        rep.merge(r);
        max_depth = depth;
        let mut res = results.into_inner().unwrap();
        res.sort_by_key(|(i, _)| *i);
        for (pi, succ) in res {
            for (s, via) in succ {
                if !seen.contains_key(&s) {
                    seen.insert(s.clone(), (Some(pi), via));
                    order.push(s);
                    frontier.push_back(order.len() - 1);
                }
            }
        }
        depth += 1;
        if depth > depth_bound { break; }
    }
    rep.nontrivial = rep.states;
    rep.set("max_depth", max_depth as u64);
    rep.set("root_dims_bound", format!("Buf2 0..={maxd} x 0..={maxd}; direct constructors dims <= {}", if quick { 2 } else { 3 }));
    rep.set("unexpanded_frontier_states", frontier.len() as u64);
    let vac = rep.hist.get("oob-index-panics").copied().unwrap_or(0) == 0 || rep.transitions == 0;
    if vac { machinery_error("vacuous exploration: no oob panics observed or no transitions"); }
    rep.finish(&cfg, "model_checking",
        "BFS over (root, canonical contents); in every state all view recipes (0-2 nested slice/slice_mut steps over every sub-rectangle incl. one-past-bounds, all range spellings on the first level, direct Slice2::new/MutSlice2::new roots with strides/surplus) x all read ops are compared with a Vec model; every transition = recipe x write op on the real types followed by a full backing-store comparison. distinct_nontrivial = distinct states whose invariant was evaluated.",
        &["Views have no hidden state besides (dims, stride, borrowed data), so successor states are rebuilt from canonical contents", "in-bounds empty rectangles are valid views (like &v[len..len]); only row-indexing a zero-width view may panic (the statement lets rows() yield fewer than height() rows there), counted as zero-width-row-index-panics"]);
}

fn parse_root(s: &str) -> Root {
    let nums: Vec<usize> = s.split(|c: char| !c.is_ascii_digit()).filter(|t| !t.is_empty()).filter_map(|t| t.parse().ok()).collect();
    if s.starts_with("Buf2") { Root::Buf { w: nums[1] as u32, h: nums[2] as u32 } }
    else { Root::Direct { w: nums[0] as u32, h: nums[1] as u32, stride: nums[2] as u32, len: nums[3] } }
}
