//! C16 — colour conversions: exhaustive 8-bit domains, dense float grids, all packed words.
use re::math::color::{gray, hsl, hsla, rgb, rgba, Color3, Color3f, Color4, Color4f, Hsl};
use re::math::{Affine, Vector};
use vlib::*;

fn f3(c: [f32; 3]) -> J { J::Arr(c.iter().map(|x| fbits(*x)).collect()) }
fn pf3(j: &J) -> [f32; 3] { let a = j.as_arr().unwrap(); [parse_fbits(&a[0]).unwrap(), parse_fbits(&a[1]).unwrap(), parse_fbits(&a[2]).unwrap()] }

fn u8_rgb_roundtrip(c: [u8; 3], r: &mut Report) {
    r.eval();
    let case = || obj! {"kind" => "u8rgb", "c" => c.to_vec()};
    // (the components are read through the public accessors, which must agree with the channel array)
    let res = caught(|| { let h = rgb(c[0], c[1], c[2]).to_hsl(); if [h.h(), h.s(), h.l()] != h.0 { return Err(([h.h(), h.s(), h.l()], h.0)); } let b = h.to_rgb(); if [b.r(), b.g(), b.b()] != b.0 { return Err(([b.r(), b.g(), b.b()], b.0)); } Ok(([h.h(), h.s(), h.l()], b.0)) });
    let res = match res { Ok(Err((acc, arr))) => { r.violation(format!("u8-accessors|{c:?}"), format!("rgb{c:?}: accessors report {acc:?}, channel array is {arr:?}"), case()); return; } Ok(Ok(x)) => Ok(x), Err(p) => Err(p) };
    match res {
        Err(p) => r.violation(format!("u8-rgb-panic|{c:?}"), format!("rgb{c:?}.to_hsl().to_rgb() panicked: {p}"), case()),
        Ok((h, back)) => {
            let err = (0..3).map(|i| (back[i] as i32 - c[i] as i32).abs()).max().unwrap();
            r.h(&format!("u8-roundtrip-err-{err}"));
            if err > 8 {
                r.violation(format!("u8-rgb-roundtrip|sector{}|{c:?}", h[0] as u32 * 6 / 256), format!("rgb{c:?} -> hsl{h:?} -> rgb{back:?}: error {err} > 8"), case());
            }
            if c[0] == c[1] && c[1] == c[2] {
                if h[1] != 0 || h[2] != c[0] { r.violation(format!("u8-gray|{c:?}"), format!("gray {} -> hsl{h:?} (expected s=0, l={})", c[0], c[0]), case()); }
            } else { r.nontrivial(); }
        }
    }
}

fn u8_hsl_total(c: [u8; 3], r: &mut Report) {
    r.eval();
    match caught(|| hsl(c[0], c[1], c[2]).to_rgb().0) {
        Err(p) => r.violation(format!("u8-hsl-panic|{c:?}"), format!("hsl{c:?}.to_rgb() panicked: {p}"), obj! {"kind" => "u8hsl", "c" => c.to_vec()}),
        Ok(_) => { if c[1] != 0 { r.nontrivial(); } }
    }
    // alpha-carrying variants agree
    if c[0] % 16 == 0 {
        let a = caught(|| hsla(c[0], c[1], c[2], c[0] ^ 0x5a).to_rgba().0);
        let b = caught(|| hsl(c[0], c[1], c[2]).to_rgb().0);
        if let (Ok(a), Ok(b)) = (a, b) {
            if a[..3] != b[..] || a[3] != c[0] ^ 0x5a { r.violation(format!("u8-hsla|{c:?}"), format!("hsla.to_rgba() = {a:?}, hsl.to_rgb() = {b:?}"), obj! {"kind" => "u8hsl", "c" => c.to_vec()}); }
        }
    }
}

/// reference HSL -> RGB in f64 (textbook)
fn ref_hsl_to_rgb(h: f64, s: f64, l: f64) -> [f64; 3] {
    let c = (1.0 - (2.0 * l - 1.0).abs()) * s;
    let hp = (h * 6.0).rem_euclid(6.0);
    let x = c * (1.0 - (hp % 2.0 - 1.0).abs());
    let m = l - c / 2.0;
    let (r, g, b) = match hp.floor() as i32 { 0 => (c, x, 0.0), 1 => (x, c, 0.0), 2 => (0.0, c, x), 3 => (0.0, x, c), 4 => (x, 0.0, c), _ => (c, 0.0, x) };
    [r + m, g + m, b + m]
}

fn f32_rgb_roundtrip(c: [f32; 3], r: &mut Report) {
    r.eval();
    let case = || obj! {"kind" => "f32rgb", "c" => f3(c)};
    let key = |cl: &str| format!("{cl}|{:.4},{:.4},{:.4}", c[0], c[1], c[2]);
    let h = match caught(|| { let h = rgb(c[0], c[1], c[2]).to_hsl(); ([h.h(), h.s(), h.l()], h.0) }) {
        Err(p) => { r.violation(key("f32-to_hsl-panic"), format!("rgb{c:?}.to_hsl() panicked: {p}"), case()); return; }
        Ok((acc, arr)) => { if acc.map(f32::to_bits) != arr.map(f32::to_bits) { r.violation(key("f32-accessors"), format!("rgb{c:?}.to_hsl(): accessors h/s/l report {acc:?}, channel array is {arr:?}"), case()); return; } acc }
    };
    if h.iter().any(|x| !(*x >= 0.0 && *x <= 1.0)) {
        r.violation(key("f32-hsl-out-of-range"), format!("rgb{c:?}.to_hsl() = {h:?} out of [0,1]"), case());
        return;
    }
    if c[0] == c[1] && c[1] == c[2] {
        if h[1] != 0.0 || (h[2] - c[0]).abs() > 1e-6 { r.violation(key("f32-gray"), format!("gray {} -> hsl{h:?}", c[0]), case()); }
    }
    let back = match caught(|| hsl(h[0], h[1], h[2]).to_rgb().0) {
        Err(p) => { r.violation(key("f32-roundtrip-panic"), format!("rgb{c:?} -> hsl{h:?} -> to_rgb() panicked: {p}"), case()); return; }
        Ok(b) => b,
    };
    let err = (0..3).map(|i| (back[i] - c[i]).abs()).fold(0.0f32, f32::max);
r.margin("f32-roundtrip(1e-4 stated)", err as f64, 1e-4);
    if !(err <= 1e-4) {
        let sector = (h[0] * 6.0) as i32;
        let frac = h[0] * 6.0 - sector as f32;
        r.violation(format!("f32-rgb-roundtrip|sector{sector}{}|{:.4},{:.4},{:.4}", if frac < 0.5 { "lo" } else { "hi" }, c[0], c[1], c[2]),
            format!("rgb{c:?} -> hsl{h:?} -> rgb{back:?}: error {err} > 1e-4"), case());
    } else if !(c[0] == c[1] && c[1] == c[2]) { r.nontrivial(); }
}

fn f32_hsl_total(c: [f32; 3], r: &mut Report) {
    r.eval();
    let case = || obj! {"kind" => "f32hsl", "c" => f3(c)};
    let key = |cl: &str| format!("{cl}|{:.5},{:.4},{:.4}", c[0], c[1], c[2]);
    match caught(|| hsl(c[0], c[1], c[2]).to_rgb().0) {
        Err(p) => r.violation(key("f32-hsl-panic"), format!("hsl{c:?}.to_rgb() panicked: {p}"), case()),
        Ok(o) => {
            if o.iter().any(|x| !(*x >= 0.0 && *x <= 1.0)) {
                r.violation(key("f32-hsl-rgb-out-of-range"), format!("hsl{c:?}.to_rgb() = {o:?} out of [0,1]"), case());
            }
            let e = ref_hsl_to_rgb(c[0] as f64, c[1] as f64, c[2] as f64);
            let d = (0..3).map(|i| (o[i] as f64 - e[i]).abs()).fold(0.0, f64::max);
            if d > 1e-4 { r.h("diag:f32-hsl-to-rgb-differs-from-textbook(not judged)"); } else { r.nontrivial(); }
            if c[0] == 1.0 {
                if let Ok(z) = caught(|| hsl(0.0, c[1], c[2]).to_rgb().0) {
                    if (0..3).any(|i| (z[i] - o[i]).abs() > 1e-4) { r.violation(key("f32-hue1-vs-hue0"), format!("hue 1 -> {o:?}, hue 0 -> {z:?}"), case()); }
                }
            }
        }
    }
}

fn packing(w: u32, r: &mut Report) {
    r.eval();
    let [a, b, c, d] = w.to_be_bytes();
    let col: Color4 = rgba(a, b, c, d);
    let ok = col.to_rgba_u32() == w
        && col.to_argb_u32() == u32::from_be_bytes([d, a, b, c])
        && col.to_rgb().0 == [a, b, c]
        && col.to_rgb().to_rgb_u32() == u32::from_be_bytes([0, a, b, c])
        && col.to_rgb().to_rgba().0 == [a, b, c, 0xFF]
        && col.r() == a && col.g() == b && col.b() == c && col.a() == d;
    if !ok {
        r.violation(format!("packing|{w:#010x}"), format!("rgba({a},{b},{c},{d}): rgba_u32={:#010x} argb_u32={:#010x} rgb={:?} rgb_u32={:#010x}", col.to_rgba_u32(), col.to_argb_u32(), col.to_rgb().0, col.to_rgb().to_rgb_u32()), obj! {"kind" => "pack", "w" => w});
    }
}

fn u8_add(ch: u8, delta: i32, r: &mut Report) {
    r.eval();
    let exp = (ch as i64 + delta as i64).clamp(0, 255) as u8;
    let nd = delta.checked_neg().unwrap_or(i32::MAX); // second component: the opposite delta (i32::MIN has none)
    for dim4 in [false, true] {
        let got = caught(|| {
            if dim4 { let c: Color4 = rgba(ch, 7, 250, ch); c.add(&Vector::from([delta, nd, delta, 0])).0.to_vec() }
            else { let c: Color3 = rgb(ch, 7, 250); c.add(&Vector::from([delta, nd, delta])).0.to_vec() }
        });
        let e2 = (7i64 + nd as i64).clamp(0, 255) as u8;
        let e3 = (250i64 + delta as i64).clamp(0, 255) as u8;
        let ok = matches!(&got, Ok(g) if g[0] == exp && g[1] == e2 && g[2] == e3 && (!dim4 || g[3] == ch));
        if !ok {
            r.violation(format!("u8-add|{}|ch={ch} delta={delta}", if delta < 0 { "neg" } else { "pos" }), format!("({ch},7,250) + ({delta},{nd},{delta}) = {got:?}, expected ({exp},{e2},{e3})"), obj! {"kind" => "add", "ch" => ch, "delta" => delta});
        } else if exp as i64 != ch as i64 + delta as i64 { r.nontrivial(); }
    }
    // sub is the inverse where nothing saturates
    let a: Color3 = rgb(ch, 0, 255);
    let b: Color3 = rgb(255 - ch, ch, 3);
    if let Ok(d) = caught(|| a.sub(&b)) {
        if b.add(&d) != a { r.violation(format!("u8-sub|ch={ch}"), format!("b + (a - b) != a for a={a:?} b={b:?}"), obj! {"kind" => "add", "ch" => ch, "delta" => delta}); }
    }
}

fn to_u8_clamp(c: f32, r: &mut Report) {
    r.eval();
    let got = caught(|| (rgb(c, 0.5, c).to_color3().0, rgb(c, 0.5, c).to_color4().0, rgba(c, c, 0.25, c).to_color4().0, rgba(c, c, 0.25, c).to_color3().0));
    let case = obj! {"kind" => "clamp", "c" => fbits(c)};
    match got {
        Err(p) => r.violation(format!("to_color-panic|{c:?}"), format!("to_color3/4 panicked for {c:?}: {p}"), case),
        Ok((c3, c4, d4, d3)) => {
            let v = c3[0];
            let ok_val = if c.is_nan() { true } else if c <= 0.0 { v == 0 } else if c >= 1.0 { v == 255 } else { (v as f32 - c * 255.0).abs() <= 1.0 };
            let consistent = c3[2] == v && c4[0] == v && c4[3] == 0xFF && d4[0] == v && d4[1] == v && d4[3] == v && d3[0] == v && c3[1] == 127 && d4[2] == 63;
            if !ok_val || !consistent {
                r.violation(format!("to_color-clamp|{c:?}"), format!("channel {c:?} -> {v} (color3 {c3:?} color4 {c4:?} from4 {d4:?}/{d3:?})"), case);
            } else if !(0.0..=1.0).contains(&c) { r.nontrivial(); }
        }
    }
}

fn float_lattice() -> Vec<f32> {
    let mut v = vec![0.0, -0.0, 1.0, -1.0, 0.5, 2.0, 255.0, 256.0, 1e-8, -1e-8, 1e10, -1e10, f32::MAX, f32::MIN, f32::INFINITY, f32::NEG_INFINITY, f32::NAN, f32::MIN_POSITIVE, 0.999_999_94, 1.000_000_1];
    for k in 0..=510 { v.push(k as f32 / 510.0); }
    for k in 0..=255 { let x = k as f32 / 255.0; v.push(x); v.push(f32::from_bits(x.to_bits().wrapping_sub(1))); v.push(f32::from_bits(x.to_bits() + 1)); }
    v
}

fn replay_case(case: &J, r: &mut Report) {
    let kind = case.get("kind").and_then(|j| j.as_str()).unwrap_or("");
    let u3 = |k: &str| -> [u8; 3] { let a = case.get(k).unwrap().as_arr().unwrap(); [a[0].as_u64().unwrap() as u8, a[1].as_u64().unwrap() as u8, a[2].as_u64().unwrap() as u8] };
    match kind {
        "u8rgb" => u8_rgb_roundtrip(u3("c"), r),
        "u8hsl" => u8_hsl_total(u3("c"), r),
        "f32rgb" => f32_rgb_roundtrip(pf3(case.get("c").unwrap()), r),
        "f32hsl" => f32_hsl_total(pf3(case.get("c").unwrap()), r),
        "pack" => packing(case.get("w").unwrap().as_u64().unwrap() as u32, r),
        "add" => u8_add(case.get("ch").unwrap().as_u64().unwrap() as u8, case.get("delta").unwrap().as_i64().unwrap() as i32, r),
        "clamp" => to_u8_clamp(parse_fbits(case.get("c").unwrap()).unwrap(), r),
        k => machinery_error(&format!("unknown replay kind {k}")),
    }
}

fn main() {
    silence_panics();
    let cfg = Cfg::from_args(|_| "C16".into());
    if cfg.replay.is_some() { replay_main(&cfg, replay_case); }
    let quick = cfg.quick();
    let mut rep = Report::new();
    // all 2^24 RGB8 and all 2^24 HSL8
    rep.merge(par_range(&cfg, 1 << 24, |i, r| {
        let c = [(i >> 16) as u8, (i >> 8) as u8, i as u8];
        u8_rgb_roundtrip(c, r);
        u8_hsl_total(c, r);
    }));
    // float RGB grid + two-equal planes + sextant boundaries
    let n: u64 = if quick { 65 } else { 321 };
    rep.merge(par_range(&cfg, n * n * n, |i, r| {
        let g = |k: u64| k as f32 / (n - 1) as f32;
        f32_rgb_roundtrip([g(i % n), g(i / n % n), g(i / n / n)], r);
    }));
    let m: u64 = if quick { 257 } else { 1025 };
    rep.merge(par_range(&cfg, m * m * 6, |i, r| {
        // points on the six sextant boundaries (two channels equal, or one at max/min) and just off them
        let (a, b, k) = ((i % m) as f32 / (m - 1) as f32, (i / m % m) as f32 / (m - 1) as f32, i / m / m);
        let (lo, hi) = (a.min(b), a.max(b));
        let eps = f32::EPSILON * 4.0;
        let pts = match k {
            0 => [[hi, hi, lo], [hi, (hi - eps).max(lo), lo]], // yellow boundary
            1 => [[lo, hi, hi], [lo, hi, (hi - eps).max(lo)]], // cyan
            2 => [[hi, lo, hi], [(hi - eps).max(lo), lo, hi]], // magenta
            3 => [[hi, lo, lo], [hi, (lo + eps).min(hi), lo]], // red
            4 => [[lo, hi, lo], [lo, hi, (lo + eps).min(hi)]], // green
            _ => [[lo, lo, hi], [(lo + eps).min(hi), lo, hi]], // blue
        };
        for p in pts { f32_rgb_roundtrip(p, r); }
        // the same boundary colours with each channel moved by 1, 2 and 4 ulps either way (where that stays in range):
        // two channels that differ in the last bits only put the hue within rounding of a sextant boundary (or of 1.0)
        if (i % m) % 8 == 0 && (i / m % m) % 8 == 0 {
            for ch in 0..3 { for d in [-4i32, -2, -1, 1, 2, 4] {
                let mut q = pts[0];
                let nb = f32::from_bits((q[ch].to_bits() as i32 + d).max(0) as u32);
                if !(0.0..=1.0).contains(&nb) { continue; }
                q[ch] = nb;
                f32_rgb_roundtrip(q, r);
            }}
            // ... and at every distance from the boundary between an ulp and a third of the sextant: the middle channel a
            // fraction 2^-k or 3 * 2^-k of the chroma away from the channel it equals on the boundary
            if hi > lo {
                for kk in 2..=23 { for mul in [1.0f32, 3.0] {
                    let d = (hi - lo) * mul / (1u32 << kk) as f32;
                    let (near_hi, near_lo) = ((hi - d).max(lo), (lo + d).min(hi));
                    let q = match k { 0 => [hi, near_hi, lo], 1 => [lo, hi, near_hi], 2 => [near_hi, lo, hi], 3 => [hi, near_lo, lo], 4 => [lo, hi, near_lo], _ => [near_lo, lo, hi] };
                    f32_rgb_roundtrip(q, r);
                    // and approached from the other side (the neighbouring sextant)
                    let q2 = match k { 0 => [near_hi, hi, lo], 1 => [lo, near_hi, hi], 2 => [hi, lo, near_hi], 3 => [hi, lo, near_lo], 4 => [near_lo, hi, lo], _ => [lo, near_lo, hi] };
                    f32_rgb_roundtrip(q2, r);
                }}
            }
        }
    }));
    // float HSL grid: h in k/96 and k/6 +- ulps, s,l grids
    let mut hs: Vec<f32> = (0..=96).map(|k| k as f32 / 96.0).collect();
    for k in 0..=6 { let x = k as f32 / 6.0; for d in [-2i32, -1, 1, 2] { let y = f32::from_bits((x.to_bits() as i32 + d).max(0) as u32); if (0.0..=1.0).contains(&y) { hs.push(y); } } }
    for k in 0..1000 { hs.push(k as f32 * 0.001 + 0.0005); }
    let sl: u64 = if quick { 65 } else { 257 };
    let nh = hs.len() as u64;
    rep.merge(par_range(&cfg, nh * sl * sl, |i, r| {
        let g = |k: u64| k as f32 / (sl - 1) as f32;
        f32_hsl_total([hs[(i % nh) as usize], g(i / nh % sl), g(i / nh / sl)], r);
    }));
    // non-dyadic decimal grids (k/100): values whose products and differences round
    let dn: u64 = if quick { 101 } else { 401 };
    rep.merge(par_range(&cfg, dn * dn * dn, |i, r| {
        let g = |k: u64| k as f32 / (dn - 1) as f32;
        let c = [g(i % dn), g(i / dn % dn), g(i / dn / dn)];
        f32_hsl_total(c, r);
        f32_rgb_roundtrip(c, r);
    }));
    // grays and near-grays at extreme magnitudes
    let tiny = [0.0f32, 1e-45, 1e-38, 1e-30, 1e-20, 1e-10, 1e-7, 1e-5, 0.5, 0.999_999_94, 1.0];
    for (i, &a) in tiny.iter().enumerate() { for &b in &tiny[i..] {
        f32_rgb_roundtrip([a, a, a], &mut rep);
        for c in [[a, a, b], [a, b, a], [b, a, a], [a, b, b], [b, a, b], [b, b, a]] { f32_rgb_roundtrip(c, &mut rep); }
    }}
    // near-grays: chroma 1e-6 .. 5e-3 around every gray level k/32 (both signs, every channel pattern)
    rep.merge(par_range(&cfg, 33 * 9 * 12, |i, r| {
        let g = (i % 33) as f32 / 32.0;
        let d = [1e-6f32, 1e-5, 1e-4, 2e-4, 3.3e-4, 5e-4, 1e-3, 2e-3, 5e-3][(i / 33 % 9) as usize];
        let pat = i / 297;
        let sgn = if pat >= 6 { -1.0f32 } else { 1.0 };
        let m = [[1, 0, 0], [0, 1, 0], [0, 0, 1], [1, 1, 0], [0, 1, 1], [1, 0, 1]][(pat % 6) as usize];
        let c: [f32; 3] = std::array::from_fn(|k| g + sgn * d * m[k] as f32);
        if c.iter().all(|x| (0.0..=1.0).contains(x)) { f32_rgb_roundtrip(c, r); r.h("near-gray"); }
    }));
    // grays, float
    rep.merge(par_range(&cfg, 4097, |i, r| { let v = i as f32 / 4096.0; f32_rgb_roundtrip([v, v, v], r); let g: Color3f = gray(v); if g.0 != [v, v, v] { r.violation(format!("gray-ctor|{v}"), "gray() not replicated".into(), J::Null); } }));
    // RGBA / HSLA float wrappers keep alpha
    {
        let c: Color4f = rgba(0.25, 0.5, 0.75, 0.125);
        let h = c.to_hsla();
        let b = h.to_rgba();
        rep.eval();
        if h.0[3] != 0.125 || b.0[3] != 0.125 || c.to_rgb().0 != [0.25, 0.5, 0.75] || rgb(0.25f32, 0.5, 0.75).to_rgba().0 != [0.25, 0.5, 0.75, 1.0] {
            rep.violation("f32-alpha|fixed".into(), format!("alpha not kept/set: hsla {h:?} rgba {b:?}"), obj! {"kind" => "f32rgb", "c" => f3([0.25, 0.5, 0.75])});
        }
        let u: Color4 = rgba(10, 200, 90, 77);
        if u.to_hsla().0[3] != 77 || u.to_hsla().to_hsl().0 != rgb(10u8, 200, 90).to_hsl().0 { rep.violation("u8-alpha|fixed".into(), "to_hsla alpha/hsl mismatch".into(), obj! {"kind" => "u8rgb", "c" => vec![10u8, 200, 90]}); }
        let _: Color3<Hsl> = hsl(1u8, 2, 3);
    }
    // packed words
    if quick {
        rep.merge(par_range(&cfg, 1 << 24, |i, r| {
            // each byte from a 64-value lattice incl. 0, 255, 0x80 and all single bits
            let lat = |k: u64| -> u8 { let k = k as u8; if k < 8 { 1 << k } else if k < 16 { !(1u8 << (k - 8)) } else if k == 16 { 0 } else if k == 17 { 255 } else { k.wrapping_mul(37).wrapping_add(11) } };
            packing(u32::from_be_bytes([lat(i & 63), lat(i >> 6 & 63), lat(i >> 12 & 63), lat(i >> 18 & 63)]), r);
        }));
    } else {
        rep.merge(par_range(&cfg, 1 << 32, |i, r| packing(i as u32, r)));
    }
    // saturating add
    let deltas: Vec<i32> = (-300..=300).chain([-100000, 100000, i32::MAX - 255, i32::MIN + 255, 65536, -65536, i32::MAX, i32::MAX - 1, i32::MAX - 254, i32::MIN, i32::MIN + 1]).collect();
    let nd = deltas.len() as u64;
    rep.merge(par_range(&cfg, 256 * nd, |i, r| u8_add((i % 256) as u8, deltas[(i / 256) as usize], r)));
    // float -> u8 clamp
    let lat = float_lattice();
    rep.merge(par_range(&cfg, lat.len() as u64, |i, r| to_u8_clamp(lat[i as usize], r)));
    rep.sample(0, || obj! {"u8_rgb" => vec![255u8, 0, 128], "f32_rgb" => vec![0.8f32, 1.0, 0.0], "f32_hsl" => vec![0.2f32, 1.0, 0.5], "word" => "0x12345678", "add" => "(200,7,250)+(100,-100,100)"});
    rep.finish(&cfg, "exploration",
        "all 2^24 RGB8 -> HSL -> RGB (<=8/255), all 2^24 HSL8 -> RGB (total), float RGB grid n^3 plus the six sextant-boundary surfaces (on, one step off, and with single channels moved by 1-4 ulps) -> HSL -> RGB (<=1e-4, in range, grays), decimal k/100 grids for both directions, grays and near-grays at magnitudes 1e-45..1, near-grays with chroma 1e-6..5e-3 around 33 gray levels, float HSL grid (hue k/96, k/1000+.0005, k/6 +-2ulp; s,l grids) -> RGB in range and hue 1 == hue 0, packed-word byte order for all 2^32 RGBA words (quick: 64^4 lattice), u8 saturating add for every channel x delta in -300..300 and large deltas up to i32::MIN / i32::MAX, float->u8 clamp lattice incl. NaN/inf. non-trivial = chromatic colour / saturating sum / out-of-range channel.",
        &["float tolerance 1e-4 and 8/255 as stated", "float channel ranges are judged exactly (0 <= x <= 1, no slack)", "saturating add judged for every i32 delta class incl. i32::MIN / i32::MAX"]);
}
