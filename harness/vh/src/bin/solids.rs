//! C15 — generated solids: every sector/segment count up to a bound, radii lattice, capped/uncapped.
use re::geom::{vertex, Mesh, Normal3};
use re::math::{pt2, pt3, turns, vec2};
use re_geom::solids::*;
use std::collections::{BTreeMap, HashMap};
use vlib::*;

#[derive(Clone, Debug)]
enum Shape {
    Tetra, Octa, Dodeca, Icosa,
    Box3 { lo: [f32; 3], hi: [f32; 3] },
    /// `Box::cube(side)` (side < 0: `Box::default()`, the unit cube): extents are +-side/2 whatever the struct's fields say
    Cube { side: f32 },
    Sphere { sec: u32, seg: u32, r: f32 },
    Torus { maj: u32, min: u32, rmaj: f32, rmin: f32 },
    Cone { sec: u32, seg: u32, capped: bool, rb: f32, ra: f32 },
    Cyl { sec: u32, seg: u32, capped: bool, r: f32 },
    Capsule { sec: u32, body: u32, cap: u32, r: f32 },
    /// open polyline profile (k-th of a table), partial azimuth range in 1/8 turns
    Lathe { profile: u32, sec: u32, az0: i32, az1: i32, capped: bool },
    /// the same, built as a struct literal instead of through Lathe::new()
    LatheLit { profile: u32, sec: u32, az0: i32, az1: i32, capped: bool },
    /// one full turn starting at start400/400 of a turn (az_range assigned after construction)
    LatheTurn { profile: u32, sec: u32, start400: i32, capped: bool },
}

fn profiles(k: u32) -> Vec<(f32, f32, f32, f32)> {
    // (x, y, nx, ny): bottom to top, normals pointing away from the axis
    match k {
        0 => vec![(1.0, -1.0, 1.0, 0.0), (1.0, 1.0, 1.0, 0.0)],
        1 => vec![(0.5, -1.0, 1.0, -0.5), (1.5, 0.0, 1.0, 0.0), (0.5, 1.0, 1.0, 0.5)],
        2 => vec![(2.0, -0.5, 0.0, -1.0), (3.0, -0.5, 1.0, -1.0), (3.0, 0.5, 1.0, 1.0), (2.0, 0.5, 0.0, 1.0)],
        // hard edges: a profile point repeated with a second normal (flat-shaded bicone; drum with its flat ends in the profile)
        3 => vec![(0.0, -1.0, 1.0, -1.0), (1.0, 0.0, 1.0, -1.0), (1.0, 0.0, 1.0, 1.0), (0.0, 1.0, 1.0, 1.0)],
        // profiles wholly above, wholly below and just touching the plane y = 0 (nothing about a lathe depends on where along its
        // axis the profile sits)
        5 => vec![(1.0, 1.0, 1.0, 0.0), (1.0, 3.0, 1.0, 0.0)],
        6 => vec![(0.5, -3.0, 1.0, -0.5), (1.5, -2.0, 1.0, 0.0), (0.5, -1.0, 1.0, 0.5)],
        7 => vec![(1.0, -2.0, 1.0, 0.0), (1.0, 0.0, 1.0, 0.0)],
        _ => vec![(0.0, -1.0, 0.0, -1.0), (1.0, -1.0, 0.0, -1.0), (1.0, -1.0, 1.0, 0.0), (1.0, 1.0, 1.0, 0.0), (1.0, 1.0, 0.0, 1.0), (0.0, 1.0, 0.0, 1.0)],
    }
}

fn build(s: &Shape) -> Mesh<Normal3> {
    match *s {
        Shape::Tetra => Tetrahedron.build(),
        Shape::Octa => Octahedron.build(),
        Shape::Dodeca => Dodecahedron.build(),
        Shape::Icosa => Icosahedron.build(),
        Shape::Box3 { lo, hi } => Box { left_bot_near: pt3(lo[0], lo[1], lo[2]), right_top_far: pt3(hi[0], hi[1], hi[2]) }.build(),
        Shape::Cube { side } => if side < 0.0 { Box::default().build() } else { Box::cube(side).build() },
        Shape::Sphere { sec, seg, r } => Sphere { sectors: sec, segments: seg, radius: r }.build(),
        Shape::Torus { maj, min, rmaj, rmin } => Torus { major_radius: rmaj, minor_radius: rmin, major_sectors: maj, minor_sectors: min }.build(),
        Shape::Cone { sec, seg, capped, rb, ra } => Cone { sectors: sec, segments: seg, capped, base_radius: rb, apex_radius: ra }.build(),
        Shape::Cyl { sec, seg, capped, r } => Cylinder { sectors: sec, segments: seg, capped, radius: r }.build(),
        Shape::Capsule { sec, body, cap, r } => Capsule { sectors: sec, body_segments: body, cap_segments: cap, radius: r }.build(),
        Shape::Lathe { profile, sec, az0, az1, capped } => {
            let pts = profiles(profile).into_iter().map(|(x, y, nx, ny)| vertex(pt2(x, y), vec2(nx, ny)));
            let mut l = Lathe::new(pts, sec).capped(capped);
            l.az_range = turns(az0 as f32 / 8.0)..turns(az1 as f32 / 8.0);
            l.build()
        }
        Shape::LatheTurn { profile, sec, start400, capped } => {
            let pts = profiles(profile).into_iter().map(|(x, y, nx, ny)| vertex(pt2(x, y), vec2(nx, ny)));
            let mut l = Lathe::new(pts, sec).capped(capped);
            let s = start400 as f32 / 400.0;
            l.az_range = turns(s)..turns(s + 1.0);
            l.build()
        }
        Shape::LatheLit { profile, sec, az0, az1, capped } => {
            let points = profiles(profile).into_iter().map(|(x, y, nx, ny)| vertex(pt2(x, y), vec2(nx, ny))).collect();
            Lathe { points, sectors: sec, capped, az_range: turns(az0 as f32 / 8.0)..turns(az1 as f32 / 8.0) }.build()
        }
    }
}

type V3 = [f64; 3];
fn sub(a: V3, b: V3) -> V3 { [a[0] - b[0], a[1] - b[1], a[2] - b[2]] }
fn cross(a: V3, b: V3) -> V3 { [a[1] * b[2] - a[2] * b[1], a[2] * b[0] - a[0] * b[2], a[0] * b[1] - a[1] * b[0]] }
fn dot(a: V3, b: V3) -> f64 { a[0] * b[0] + a[1] * b[1] + a[2] * b[2] }
fn len(a: V3) -> f64 { dot(a, a).sqrt() }

/// Outward direction at point p for shapes with a well defined outside.
fn outward(s: &Shape, p: V3) -> Option<V3> {
    match *s {
        Shape::Tetra | Shape::Octa | Shape::Dodeca | Shape::Icosa | Shape::Sphere { .. } => Some(p),
        Shape::Box3 { lo, hi } => Some(sub(p, [(lo[0] + hi[0]) as f64 / 2.0, (lo[1] + hi[1]) as f64 / 2.0, (lo[2] + hi[2]) as f64 / 2.0])),
        Shape::Cube { .. } => Some(p),
        // coarse tori are far from the ideal surface: orientation is decided by edge pairing + signed volume instead
        Shape::Torus { .. } => None,
        // convex solids of revolution around the y axis, centred at the origin
        Shape::Cone { .. } | Shape::Cyl { .. } | Shape::Capsule { .. } => Some(p),
        Shape::Lathe { .. } | Shape::LatheLit { .. } | Shape::LatheTurn { .. } => None,
    }
}

fn on_surface(s: &Shape, p: V3) -> Option<f64> {
    // returns the residual of the surface equation (should be ~0), None if not defined
    let rad = (p[0] * p[0] + p[2] * p[2]).sqrt();
    match *s {
        Shape::Sphere { r, .. } => Some((len(p) - r as f64).abs() / r as f64),
        Shape::Tetra | Shape::Octa | Shape::Dodeca | Shape::Icosa => None,
        Shape::Box3 { lo, hi } => Some((0..3).map(|i| (p[i] - lo[i] as f64).abs().min((p[i] - hi[i] as f64).abs())).fold(0.0, f64::max)),
        // every vertex of a cube of side s centred at the origin is a corner: |coordinate| = s/2 on every axis
        Shape::Cube { side } => { let h = if side < 0.0 { 0.5 } else { side as f64 / 2.0 }; Some((0..3).map(|i| (p[i].abs() - h).abs()).fold(0.0, f64::max)) }
        Shape::Torus { rmaj, rmin, .. } => Some((((rad - rmaj as f64).powi(2) + p[1] * p[1]).sqrt() - rmin as f64).abs() / rmin as f64),
        Shape::Cyl { r, .. } => Some(((rad - r as f64).abs() / r as f64).max((p[1].abs() - 1.0).max(0.0))),
        Shape::Cone { rb, ra, .. } => { let t = (p[1] + 1.0) / 2.0; let r = rb as f64 + (ra as f64 - rb as f64) * t; Some((rad - r).abs() / (rb.max(ra) as f64).max(1e-9)).map(|e| e.max((p[1].abs() - 1.0).max(0.0))) }
        Shape::Capsule { r, .. } => { let y = p[1].clamp(-1.0, 1.0); Some((((p[1] - y).powi(2) + rad * rad).sqrt() - r as f64).abs() / r as f64) }
        Shape::Lathe { .. } | Shape::LatheLit { .. } | Shape::LatheTurn { .. } => None,
    }
}

fn closed(s: &Shape) -> Option<i64> {
    // expected Euler characteristic if closed
    match *s {
        Shape::Tetra | Shape::Octa | Shape::Dodeca | Shape::Icosa | Shape::Box3 { .. } | Shape::Cube { .. } | Shape::Sphere { .. } | Shape::Capsule { .. } => Some(2),
        Shape::Torus { .. } => Some(0),
        Shape::Cone { capped, .. } | Shape::Cyl { capped, .. } => if capped { Some(2) } else { None },
        // (profiles 3 and 4 start and end on the axis: closed with or without caps)
        Shape::LatheTurn { capped, profile, .. } => if capped || profile == 3 || profile == 4 { Some(2) } else { None },
        Shape::Lathe { capped, az0, az1, profile, .. } | Shape::LatheLit { capped, az0, az1, profile, .. } => if (capped || profile == 3 || profile == 4) && az1 - az0 == 8 { Some(2) } else { None },
    }
}

fn check(s: &Shape, r: &mut Report) {
    r.eval();
    let key = |cl: &str| format!("{cl}|{s:?}");
    let case = || obj! {"shape" => format!("{s:?}")};
    let m = match caught(|| build(s)) {
        Ok(m) => m,
        Err(p) => { r.violation(key("build-panic"), format!("{s:?}.build() panicked: {p}"), case()); return; }
    };
    let nv = m.verts.len();
    if m.faces.is_empty() || nv == 0 { r.violation(key("empty"), "no faces".into(), case()); return; }
    if m.faces.iter().any(|f| f.0.iter().any(|&i| i >= nv)) { r.violation(key("index"), "face index out of range".into(), case()); return; }
    let pos: Vec<V3> = m.verts.iter().map(|v| [v.pos.x() as f64, v.pos.y() as f64, v.pos.z() as f64]).collect();
    let nrm: Vec<V3> = m.verts.iter().map(|v| [v.attrib.x() as f64, v.attrib.y() as f64, v.attrib.z() as f64]).collect();
    let size = pos.iter().map(|p| len(*p)).fold(0.0, f64::max).max(1e-9);
    // unit normals
    for (i, n) in nrm.iter().enumerate() {
        r.margin("normal-length", (len(*n) - 1.0).abs(), 1e-4);
        if !((len(*n) - 1.0).abs() <= 1e-4) { r.violation(key("normal-length"), format!("vertex {i} normal {n:?} has length {}", len(*n)), case()); return; }
    }
    // surface equation
    for (i, p) in pos.iter().enumerate() {
        // residuals are relative to the radius parameter; f32 coordinates carry an error of ~1 ulp of the mesh extent
        let rmin = match *s { Shape::Sphere { r, .. } | Shape::Cyl { r, .. } | Shape::Capsule { r, .. } => r as f64, Shape::Torus { rmin, .. } => rmin as f64, Shape::Cone { rb, ra, .. } => rb.max(ra) as f64, _ => size };
        if let Some(e) = on_surface(s, *p) { r.margin("surface", e, 1e-4 + 8.0 * f32::EPSILON as f64 * size / rmin.max(1e-30)); }
        if let Some(e) = on_surface(s, *p) { if !(e <= 1e-4 + 8.0 * f32::EPSILON as f64 * size / rmin.max(1e-30)) { r.violation(key("off-surface"), format!("vertex {i} at {p:?}: surface residual {e:.3e}"), case()); return; } }
    }
    // merge coincident vertices
    // merge radius: 1e-4 of the smallest feature (the mesh extent, or a much smaller radius parameter)
    let feature = match *s {
        Shape::Sphere { r, .. } => r as f64,
        // (the body of these spans y = -1..1 in seg / body_segments steps whatever the radius)
        Shape::Cyl { r, seg, .. } => (r as f64).min(2.0 / seg as f64),
        Shape::Capsule { r, body, .. } => (r as f64).min(2.0 / body as f64),
        Shape::Torus { rmin, .. } => rmin as f64,
        Shape::Cone { rb, ra, seg, .. } => [rb as f64, ra as f64, 2.0 / seg as f64].into_iter().filter(|x| *x > 0.0).fold(f64::MAX, f64::min),
        _ => size,
    };
    // ... but never below the f32 resolution of the coordinates themselves
    // ... and the generators rotate the profile incrementally, so the seam closes only up to sectors x ulp: allow for that,
    // but never more than a quarter of the smallest spacing between neighbouring ring vertices
    let sectors = match *s { Shape::Sphere { sec, .. } | Shape::Cyl { sec, .. } | Shape::Cone { sec, .. } | Shape::Capsule { sec, .. } | Shape::Lathe { sec, .. } | Shape::LatheLit { sec, .. } | Shape::LatheTurn { sec, .. } => sec, Shape::Torus { maj, .. } => maj, _ => 1 } as f64;
    let drift = 4.0 * sectors * f32::EPSILON as f64 * size;
    let spacing = std::f64::consts::TAU * size.min(feature) / sectors.max(1.0);
    let eps = (1e-4 * size.min(feature)).max(16.0 * f32::EPSILON as f64 * size).max(drift.min(spacing / 4.0));
    let mut rep_of: Vec<usize> = (0..nv).collect();
    let mut grid: HashMap<(i64, i64, i64), Vec<usize>> = HashMap::new();
    for i in 0..nv {
        let c = (((pos[i][0] / eps / 4.0).floor()) as i64, ((pos[i][1] / eps / 4.0).floor()) as i64, ((pos[i][2] / eps / 4.0).floor()) as i64);
        let mut found = None;
        'o: for dx in -1..=1 { for dy in -1..=1 { for dz in -1..=1 {
            if let Some(l) = grid.get(&(c.0 + dx, c.1 + dy, c.2 + dz)) { for &j in l { if len(sub(pos[i], pos[j])) <= eps { found = Some(j); break 'o; } } }
        }}}
        match found { Some(j) => rep_of[i] = rep_of[j], None => grid.entry(c).or_default().push(i) }
    }
    // faces
    let mut edges: BTreeMap<(usize, usize), i32> = BTreeMap::new();
    let mut nfaces = 0i64;
    let mut sense: Option<bool> = None;
    for (fi, f) in m.faces.iter().enumerate() {
        let [a, b, c] = f.0;
        let (ra, rb, rc) = (rep_of[a], rep_of[b], rep_of[c]);
        let g = cross(sub(pos[b], pos[a]), sub(pos[c], pos[a]));
        let area = len(g) / 2.0;
        if ra == rb || rb == rc || ra == rc || area <= 1e-12 * size.min(feature) * size.min(feature) { r.h("degenerate-faces"); continue; }
        // topology counts every face with three distinct (merged) corners ...
        nfaces += 1;
        for (x, y) in [(ra, rb), (rb, rc), (rc, ra)] { *edges.entry((x, y)).or_insert(0) += 1; }
        // ... but the direction of a face is only meaningful when its area exceeds what the accumulated positional drift of
        // the generator (sectors x ulp) can produce along its longest edge
        let maxedge = [sub(pos[b], pos[a]), sub(pos[c], pos[b]), sub(pos[a], pos[c])].iter().map(|e| len(*e)).fold(0.0, f64::max);
        if area <= (drift * maxedge).max(1e-9 * size.min(feature) * size.min(feature)) { r.h("sliver-faces(direction not judged)"); continue; }
        // vertex normals on the same side as the geometric normal
        for &v in &[a, b, c] {
            if !(dot(nrm[v], g) > 0.0) { r.violation(key("normal-side"), format!("face {fi} {:?}: vertex {v} normal {:?} is not on the side of the geometric normal {g:?}", f.0, nrm[v]), case()); return; }
        }
        // same winding sense relative to the outside
        let cen = [(pos[a][0] + pos[b][0] + pos[c][0]) / 3.0, (pos[a][1] + pos[b][1] + pos[c][1]) / 3.0, (pos[a][2] + pos[b][2] + pos[c][2]) / 3.0];
        if let Some(o) = outward(s, cen) {
            let d = dot(g, o) / (len(g) * len(o)).max(1e-30);
            if d.abs() > 1e-6 {
                let out = d > 0.0;
                match sense { None => sense = Some(out), Some(sn) => if sn != out { r.violation(key("winding"), format!("face {fi} {:?} is wound {} while earlier faces are wound {}", f.0, if out { "outward" } else { "inward" }, if sn { "outward" } else { "inward" }), case()); return; } }
            }
        }
    }
    if sense == Some(false) { r.violation(key("winding-inward"), "all faces are wound inward (geometric normals point into the solid) although vertex normals agree with them".into(), case()); return; }
    if let Some(chi) = closed(s) {
        // watertight: every directed edge once, with its reverse
        for (&(x, y), &n) in &edges {
            let rev = edges.get(&(y, x)).copied().unwrap_or(0);
            if n != 1 || rev != 1 { r.violation(key("not-watertight"), format!("edge ({x},{y}) used {n} time(s), reverse {rev} time(s) after merging coincident vertices"), case()); return; }
        }
        let mut used: Vec<usize> = edges.keys().flat_map(|&(x, y)| [x, y]).collect();
        used.sort(); used.dedup();
        let (v, e, f) = (used.len() as i64, edges.len() as i64 / 2, nfaces);
        let vol: f64 = m.faces.iter().map(|f| { let [a, b, c] = f.0; dot(pos[a], cross(pos[b], pos[c])) / 6.0 }).sum();
        if !(vol > 1e-9 * size * size.min(feature) * size.min(feature)) { r.violation(key("winding-inward"), format!("closed mesh has signed volume {vol:.4e}: faces are wound inward (or inconsistently)"), case()); return; }
        if v - e + f != chi { r.violation(key("euler"), format!("V-E+F = {v}-{e}+{f} = {}, expected {chi}", v - e + f), case()); return; }
        r.h("closed-ok");
    } else {
        // open shapes: interior edges paired, boundary edges form rings (each boundary vertex has one in and one out boundary edge)
        let mut bout: BTreeMap<usize, i32> = BTreeMap::new();
        let mut bin: BTreeMap<usize, i32> = BTreeMap::new();
        let mut nb = 0;
        for (&(x, y), &n) in &edges {
            let rev = edges.get(&(y, x)).copied().unwrap_or(0);
            if n != 1 || rev > 1 { r.violation(key("open-nonmanifold"), format!("edge ({x},{y}) used {n} time(s), reverse {rev}"), case()); return; }
            if rev == 0 { nb += 1; *bout.entry(x).or_insert(0) += 1; *bin.entry(y).or_insert(0) += 1; }
        }
        if nb == 0 { r.violation(key("open-shape-closed"), "expected boundary edges on an uncapped / partial shape".into(), case()); return; }
        for (v, n) in &bout { if *n != 1 || bin.get(v) != Some(&1) { r.violation(key("open-boundary"), format!("boundary at merged vertex {v} is not a simple ring (out {n}, in {:?})", bin.get(v)), case()); return; } }
        let expected_boundary = match *s {
            Shape::Cone { sec, rb, ra, .. } => Some(sec as i64 * ((rb > 0.0) as i64 + (ra > 0.0) as i64)),
            Shape::Cyl { sec, .. } => Some(2 * sec as i64),
            _ => None,
        };
        if let Some(eb) = expected_boundary { if nb != eb { r.violation(key("open-boundary-count"), format!("{nb} boundary edges, expected {eb}"), case()); return; } }
        r.h("open-ok");
    }
    r.nontrivial();
}

fn shapes(quick: bool) -> Vec<Shape> {
    let mut v = vec![Shape::Tetra, Shape::Octa, Shape::Dodeca, Shape::Icosa];
    for (lo, hi) in [([-1.0f32; 3], [1.0f32; 3]), ([0.0, 0.0, 0.0], [1.0, 2.0, 3.0]), ([-20.0, 0.0, 0.01], [100.0, 50.0, 100.0]), ([5.0, 5.0, 5.0], [5.5, 9.0, 6.0]), ([-3.0, -2.0, -1.0], [-1.0, -1.5, 4.0])] { v.push(Shape::Box3 { lo, hi }); }
    for side in [-1.0f32, 1.0, 2.0, 0.37, 250.0, 1e-3] { v.push(Shape::Cube { side }); }
    let (msec, mseg) = if quick { (16, 10) } else { (48, 32) };
    let radii = [0.5f32, 1.0, 3.0];
    for sec in 3..=msec { for seg in 2..=mseg { for r in radii { v.push(Shape::Sphere { sec, seg, r }); } } }
    for maj in 3..=msec { for min in 3..=mseg { for (rmaj, rmin) in [(1.0f32, 0.25f32), (3.0, 1.0), (2.0, 0.5)] { v.push(Shape::Torus { maj, min, rmaj, rmin }); } } }
    let cseg = if quick { 6 } else { 16 };
    for sec in 3..=msec { for seg in 1..=cseg { for capped in [true, false] {
        for r in radii { v.push(Shape::Cyl { sec, seg, capped, r }); }
        for (rb, ra) in [(1.0f32, 0.0f32), (0.0, 1.0), (1.0, 0.5), (0.5, 3.0), (3.0, 0.5), (4.0, 0.0), (0.25, 0.0)] { v.push(Shape::Cone { sec, seg, capped, rb, ra }); }
    }}}
    let (mb, mc) = if quick { (4, 4) } else { (10, 10) };
    for sec in 3..=msec { for body in 1..=mb { for cap in 1..=mc { for r in radii { v.push(Shape::Capsule { sec, body, cap, r }); } } } }
    // magnitude sentinels: very small and very large radii on a thinned set of counts
    for r in [1e-7f32, 1e-6, 1e-5, 1e-4, 1e-3, 0.02, 100.0, 1e4] { for sec in [3u32, 7, 16] { for seg in [2u32, 5] {
        v.push(Shape::Sphere { sec, seg, r });
        v.push(Shape::Torus { maj: sec.max(3), min: seg + 2, rmaj: r * 4.0, rmin: r });
        // (the other generators span y = -1..1 whatever the radius: below 1e-4 a ring is no longer resolved by f32 at that extent)
        if r < 1e-4 { continue; }
        v.push(Shape::Cyl { sec, seg, capped: true, r });
        v.push(Shape::Cyl { sec, seg, capped: false, r });
        v.push(Shape::Capsule { sec, body: seg, cap: 3, r });
        v.push(Shape::Cone { sec, seg, capped: true, rb: r, ra: 0.0 });
        v.push(Shape::Cone { sec, seg, capped: true, rb: r, ra: r * 0.5 });
        if r < 1.0 { v.push(Shape::Torus { maj: sec.max(3), min: seg + 2, rmaj: 1.0, rmin: r }); }
    }}}
    // a ladder of radii in 3 % steps from 0.3 to 10 (and every hundredth around 1): a radius is also the length of the
    // profile normals the generators start from, so nothing may hinge on it being round, or far from 1
    {
        let mut ladder: Vec<f32> = (0..120).map(|k| 0.3 * 1.03f32.powi(k)).collect();
        ladder.extend((90..=110).filter(|k| *k != 100).map(|k| k as f32 / 100.0));
        for (i, &r) in ladder.iter().enumerate() {
            let (sec, seg) = ([5u32, 8, 3][i % 3], [3u32, 2, 6][i / 3 % 3]);
            v.push(Shape::Sphere { sec, seg, r });
            v.push(Shape::Torus { maj: sec, min: seg + 2, rmaj: r * 3.0, rmin: r });
            v.push(Shape::Torus { maj: sec, min: seg + 2, rmaj: 4.0, rmin: r.min(3.5) });
            v.push(Shape::Capsule { sec, body: seg, cap: 3, r });
            v.push(Shape::Cyl { sec, seg, capped: i % 2 == 0, r });
            v.push(Shape::Cone { sec, seg, capped: true, rb: r, ra: r * 0.4 });
        }
    }
    // scale sentinels: counts around 255/256/257 and a dense sphere
    for sec in [100u32, 255, 256, 257] {
        v.push(Shape::Sphere { sec, seg: 3, r: 1.0 });
        v.push(Shape::Cyl { sec, seg: 2, capped: true, r: 1.0 });
        v.push(Shape::Torus { maj: sec, min: 4, rmaj: 2.0, rmin: 0.5 });
        v.push(Shape::Capsule { sec, body: 2, cap: 2, r: 0.5 });
    }
    // full turns starting anywhere on a 1/400-turn grid (the sweep end minus start is a rounded f32 difference)
    for start400 in -400..=400 { for (profile, sec, capped) in [(0u32, 5u32, true), (1, 8, true), (3, 6, false), (5, 6, true), (6, 5, true), (7, 4, true)] { if quick && start400 % 2 != 0 && profile != 0 { continue; } if profile >= 5 && start400 % 50 != 0 { continue; } v.push(Shape::LatheTurn { profile, sec, start400, capped }); } }
    // many segments (accumulated altitude / height stepping): every count up to 200 on a few sector counts
    for seg in 11..=200u32 { for r in [0.5f32, 1.0, 3.0] { v.push(Shape::Sphere { sec: 3 + seg % 3, seg, r }); } v.push(Shape::Cone { sec: 4, seg, capped: true, rb: 1.0, ra: 0.0 }); v.push(Shape::Cone { sec: 4, seg, capped: true, rb: 0.0, ra: 0.4 }); v.push(Shape::Capsule { sec: 3, body: 1, cap: seg, r: 0.5 }); }
    // every sector count up to 300 on one member of each family (ring generation may work in blocks)
    for sec in 17..=300u32 { v.push(Shape::Sphere { sec, seg: 2 + sec % 2, r: 1.0 }); v.push(Shape::Torus { maj: sec, min: 3, rmaj: 2.0, rmin: 0.5 }); v.push(Shape::Cyl { sec, seg: 1, capped: true, r: 0.5 }); v.push(Shape::Cone { sec, seg: 1, capped: true, rb: 1.0, ra: 0.0 }); v.push(Shape::Capsule { sec, body: 1, cap: 2, r: 0.5 }); }
    // every tube sector count up to 100 x tube radii 0.25 .. 7.5 (the closed tube profile is built by accumulating an angle:
    // whether its end meets its start exactly depends on both)
    for min in 3..=100u32 { for rmin in [0.25f32, 0.5, 1.0, 2.0, 4.0, 7.5] { v.push(Shape::Torus { maj: 5, min, rmaj: rmin * 3.0, rmin }); } }
    // many sectors (accumulated rotation of the profile)
    for sec in [154u32, 155, 200, 500, 720, 1000, 2000] { v.push(Shape::Sphere { sec, seg: 2, r: 1.0 }); v.push(Shape::Cyl { sec, seg: 1, capped: true, r: 0.5 }); }
    v.push(Shape::Sphere { sec: 100, seg: 60, r: 3.0 });
    v.push(Shape::Torus { maj: 6, min: 257, rmaj: 3.0, rmin: 1.0 });
    v.push(Shape::Cone { sec: 5, seg: 300, capped: true, rb: 1.0, ra: 0.5 });
    for profile in 0..8 { for sec in 3..=msec.min(12) { for (az0, az1) in [(0, 8), (0, 4), (0, 2), (1, 3), (-2, 5), (0, 7), (3, 6), (4, 8), (5, 13), (-4, -1)] { for capped in [false, true] {
        v.push(Shape::Lathe { profile, sec, az0, az1, capped });
        if sec % 3 == 0 { v.push(Shape::LatheLit { profile, sec, az0, az1, capped }); }
    }}}}
    v
}

fn parse_shape(s: &str, all: &[Shape]) -> Option<Shape> { all.iter().find(|x| format!("{x:?}") == s).cloned() }

fn main() {
    silence_panics();
    let cfg = Cfg::from_args(|_| "C15".into());
    if cfg.replay.is_some() {
        let all = shapes(false);
        replay_main(&cfg, |c, r| match parse_shape(c.get("shape").and_then(|j| j.as_str()).unwrap_or(""), &all) { Some(s) => check(&s, r), None => machinery_error("shape not in family") });
    }
    let all = shapes(cfg.quick());
    let mut rep = par_range(&cfg, all.len() as u64, |i, r| {
        let s = &all[i as usize];
        // Lathe with a partial range or without caps: only generic checks apply (handled inside via closed()/outward())
        check(s, r);
        r.sample(i, || obj! {"shape" => format!("{s:?}")});
    });
    rep.set("shapes", all.len() as u64);
    rep.finish(&cfg, "exploration",
        "every Platonic solid; boxes over a corner lattice; Sphere/Torus/Cylinder/Cone/Capsule for EVERY sector and segment count from the minimum up to the tier bound x radii lattice {0.5, 1, 3} x capped/uncapped (cones with zero apex or base radius); radii 1e-7 .. 1e4 and a 3 % ladder of 140 radii from 0.3 to 10 (every hundredth between 0.9 and 1.1) on a thinned set of counts; Lathe profiles (non-unit profile normals) with full and partial azimuth ranges, built through Lathe::new and as struct literals; capped full-turn lathes starting at every multiple of 1/400 turn in -1..1; sector counts up to 2000 and every segment count up to 200. Per mesh: valid indices, unit normals, surface equation, vertex normals on the geometric-normal side of every non-degenerate face, one winding sense relative to the outside (outward), and after merging coincident vertices every directed edge exactly once with its reverse and V-E+F = 2 (torus 0) for closed solids / simple boundary rings of the expected size for open ones. non-trivial = mesh passed all applicable checks with >= 1 non-degenerate face.",
        &["merge epsilon 1e-4 x mesh size; degenerate = merged corners or area <= 1e-6 size^2", "outside defined per shape family (centre / axis / tube centre); generic Lathe profiles are not judged for outward sense", "partial-azimuth lathes are judged as open shapes"]);
}
