//! C17 (Bezier curves / splines) and C18 (angles, polar/spherical coordinates).
use re::math::angle::{degs, polar, rads, spherical, turns, Angle};
use re::math::color::{rgb, Color3f};
use re::math::spline::{smootherstep, smoothstep, BezierSpline, CubicBezier};
use re::math::{pt2, vec2, vec3, Affine, Linear, Point2, Vec2, Vec3};
use vlib::*;

// ------------------------------------------------------------------ C17

trait Comp: Affine<Diff: Linear<Scalar = f32> + Clone> + Clone + PartialEq + std::fmt::Debug {
    fn comps(&self) -> Vec<f64>;
    fn dcomps(d: &Self::Diff) -> Vec<f64>;
    fn make(c: &[f32]) -> Self;
    const N: usize;
    const NAME: &'static str;
}
impl Comp for f32 { fn comps(&self) -> Vec<f64> { vec![*self as f64] } fn dcomps(d: &f32) -> Vec<f64> { vec![*d as f64] } fn make(c: &[f32]) -> f32 { c[0] } const N: usize = 1; const NAME: &'static str = "f32"; }
impl Comp for Vec2 { fn comps(&self) -> Vec<f64> { self.0.iter().map(|x| *x as f64).collect() } fn dcomps(d: &Vec2) -> Vec<f64> { d.comps() } fn make(c: &[f32]) -> Vec2 { vec2(c[0], c[1]) } const N: usize = 2; const NAME: &'static str = "Vec2"; }
impl Comp for Vec3 { fn comps(&self) -> Vec<f64> { self.0.iter().map(|x| *x as f64).collect() } fn dcomps(d: &Vec3) -> Vec<f64> { d.comps() } fn make(c: &[f32]) -> Vec3 { vec3(c[0], c[1], c[2]) } const N: usize = 3; const NAME: &'static str = "Vec3"; }
impl Comp for Point2 { fn comps(&self) -> Vec<f64> { self.0.iter().map(|x| *x as f64).collect() } fn dcomps(d: &Vec2) -> Vec<f64> { d.comps() } fn make(c: &[f32]) -> Point2 { pt2(c[0], c[1]) } const N: usize = 2; const NAME: &'static str = "Point2"; }
// angles as control values (in units of a quarter turn: the value lattice then spans several revolutions, differences exceed
// half a turn and partial sums are negative - an angle is a magnitude here, not a direction)
impl Comp for Angle { fn comps(&self) -> Vec<f64> { vec![self.to_rads() as f64] } fn dcomps(d: &Angle) -> Vec<f64> { vec![d.to_rads() as f64] } fn make(c: &[f32]) -> Angle { re::math::rads(c[0] * std::f32::consts::FRAC_PI_2) } const N: usize = 1; const NAME: &'static str = "Angle"; }
impl Comp for Color3f { fn comps(&self) -> Vec<f64> { self.0.iter().map(|x| *x as f64).collect() } fn dcomps(d: &Color3f) -> Vec<f64> { d.comps() } fn make(c: &[f32]) -> Color3f { rgb(c[0], c[1], c[2]) } const N: usize = 3; const NAME: &'static str = "Color3f"; }

const VALS: [f32; 7] = [0.0, 1.0, -1.0, 0.5, 3.0, -1000.0, 1e-3];

fn ts() -> Vec<f32> {
    let mut v: Vec<f32> = (0..=64).map(|k| k as f32 / 64.0).collect();
    v.extend((1..60).map(|k| k as f32 / 60.0 + 0.003));
    v.extend([-1.0, -0.0, -1e-30, 1.0000001, 2.0, f32::NAN, f32::INFINITY, f32::NEG_INFINITY, 1e-30, 0.99999994, 0.1, 0.7]);
    v
}

fn bern(p: &[Vec<f64>; 4], t: f64) -> Vec<f64> {
    let u = 1.0 - t;
    (0..p[0].len()).map(|i| u * u * u * p[0][i] + 3.0 * u * u * t * p[1][i] + 3.0 * u * t * t * p[2][i] + t * t * t * p[3][i]).collect()
}
fn dbern(p: &[Vec<f64>; 4], t: f64) -> Vec<f64> {
    let u = 1.0 - t;
    (0..p[0].len()).map(|i| 3.0 * (u * u * (p[1][i] - p[0][i]) + 2.0 * u * t * (p[2][i] - p[1][i]) + t * t * (p[3][i] - p[2][i]))).collect()
}
fn maxdiff(a: &[f64], b: &[f64]) -> f64 { a.iter().zip(b).map(|(x, y)| (x - y).abs()).fold(0.0, |m, d| if d.is_nan() { f64::INFINITY } else { m.max(d) }) }

fn check_cubic<T: Comp>(ctrl: &[Vec<f32>; 4], r: &mut Report) {
    let pts: [T; 4] = [T::make(&ctrl[0]), T::make(&ctrl[1]), T::make(&ctrl[2]), T::make(&ctrl[3])];
    let c = CubicBezier(pts.clone());
    let pf: [Vec<f64>; 4] = [pts[0].comps(), pts[1].comps(), pts[2].comps(), pts[3].comps()];
    let scale = pf.iter().flatten().fold(1.0f64, |m, x| m.max(x.abs()));
    let tol = 1e-5 * scale;
    let case = |t: f32| obj! {"kind" => "cubic", "type" => T::NAME, "ctrl" => J::Arr(ctrl.iter().map(|p| J::Arr(p.iter().map(|x| fbits(*x)).collect())).collect()), "t" => fbits(t)};
    let key = |cl: &str, t: f32| format!("{cl}|{}|{ctrl:?}|t={t:e}", T::NAME);
    for t in ts() {
        r.eval();
        let res = caught(|| (c.eval(t), c.fast_eval(t), c.tangent(t)));
        let (e, fe, tg) = match res { Ok(x) => x, Err(p) => { r.violation(key("cubic-panic", t), format!("eval/fast_eval/tangent panicked at t={t}: {p}"), case(t)); continue; } };
        if t.is_nan() { r.h("cubic-nan-t-no-panic"); continue; }
        if t <= 0.0 || t >= 1.0 {
            let want = if t <= 0.0 { &pts[0] } else { &pts[3] };
            if &e != want || &fe != want { r.violation(key("cubic-ends", t), format!("t={t}: eval={e:?} fast_eval={fe:?}, expected control point {want:?} exactly"), case(t)); }
            let tc = if t <= 0.0 { 0.0 } else { 1.0 };
            r.margin("cubic-tangent", maxdiff(&T::dcomps(&tg), &dbern(&pf, tc)), 3.0 * tol);
            if maxdiff(&T::dcomps(&tg), &dbern(&pf, tc)) > 3.0 * tol { r.violation(key("cubic-tangent-ends", t), format!("tangent({t}) = {:?}, expected derivative at {tc}: {:?}", T::dcomps(&tg), dbern(&pf, tc)), case(t)); }
            continue;
        }
        let want = bern(&pf, t as f64);
        let (de, dfe) = (maxdiff(&e.comps(), &want), maxdiff(&fe.comps(), &want));
        r.margin("cubic-value", de.max(dfe), tol);
        if de > tol || dfe > tol {
            r.violation(key("cubic-value", t), format!("t={t}: eval={e:?} (err {de:.3e}) fast_eval={fe:?} (err {dfe:.3e}), Bernstein {want:?}, tol {tol:.1e}"), case(t));
        }
        // convex hull (bounding box) property
        for (nm, val) in [("eval", e.comps()), ("fast_eval", fe.comps())] {
            for i in 0..T::N {
                let (lo, hi) = pf.iter().fold((f64::INFINITY, f64::NEG_INFINITY), |(l, h), p| (l.min(p[i]), h.max(p[i])));
                if val[i] < lo - tol || val[i] > hi + tol { r.violation(key("cubic-hull", t), format!("{nm}({t}) component {i} = {} outside control box [{lo},{hi}]", val[i]), case(t)); }
            }
        }
        let dw = dbern(&pf, t as f64);
        r.margin("cubic-tangent", maxdiff(&T::dcomps(&tg), &dw), 3.0 * tol);
        if maxdiff(&T::dcomps(&tg), &dw) > 3.0 * tol { r.violation(key("cubic-tangent", t), format!("tangent({t}) = {:?}, derivative {dw:?}", T::dcomps(&tg)), case(t)); } else { r.nontrivial(); }
    }
}

/// The derivative does not depend on where the curve sits: control polygons on a small dyadic lattice, translated by
/// exactly representable offsets up to 2^20, must have a tangent that matches the f64 derivative of those very inputs to
/// within 1e-4 of the curve's own extent (not of its distance from the origin).
fn check_tangent_translated(i: u64, r: &mut Report) {
    const L: [f32; 4] = [0.0, 1.0, -2.0, 0.5];
    let base = [L[(i % 4) as usize], L[(i / 4 % 4) as usize], L[(i / 16 % 4) as usize], L[(i / 64 % 4) as usize]];
    let off = [0.0f32, 256.0, 65536.0, -1048576.0][(i / 256 % 4) as usize];
    let extent = base.iter().flat_map(|a| base.iter().map(move |b| (a - b).abs() as f64)).fold(0.0, f64::max);
    if extent == 0.0 { return; }
    let ctrl: [Vec<f32>; 4] = std::array::from_fn(|k| vec![base[k] + off]);
    let ctrl2: [Vec<f32>; 4] = std::array::from_fn(|k| vec![base[k] + off, base[3 - k] * 0.5 - off]);
    let case = || obj! {"kind" => "tangent-translated", "i" => i};
    for k in 0..=8 {
        let t = k as f32 / 8.0;
        r.eval();
        let c1 = CubicBezier([ctrl[0][0], ctrl[1][0], ctrl[2][0], ctrl[3][0]]);
        let c2 = CubicBezier(std::array::from_fn::<Vec2, 4, _>(|j| vec2(ctrl2[j][0], ctrl2[j][1])));
        let pf1: [Vec<f64>; 4] = std::array::from_fn(|j| vec![ctrl[j][0] as f64]);
        let pf2: [Vec<f64>; 4] = std::array::from_fn(|j| vec![ctrl2[j][0] as f64, ctrl2[j][1] as f64]);
        let (Ok(t1), Ok(t2)) = (caught(|| c1.tangent(t)), caught(|| c2.tangent(t))) else { r.violation(format!("cubic-panic|translated|{base:?}+{off}|t={t}"), "tangent panicked".into(), case()); return; };
        let (d1, d2) = (dbern(&pf1, t as f64), dbern(&pf2, t as f64));
        let e = (t1 as f64 - d1[0]).abs().max((t2.x() as f64 - d2[0]).abs()).max((t2.y() as f64 - d2[1]).abs());
        r.margin("cubic-tangent-translated", e, 1e-4 * extent);
        if e > 1e-4 * extent { r.violation(format!("cubic-tangent|translated|{base:?}+{off}|t={t}"), format!("control points {base:?} + {off}: tangent({t}) = {t1} / {:?}, derivative {} / {:?} (error {e:.3e}, curve extent {extent})", t2.0, d1[0], d2), case()); return; }
    }
    r.nontrivial();
}

fn spline_ctrl(n: usize, seed: usize, dim: usize) -> Vec<Vec<f32>> {
    (0..3 * n + 1).map(|i| (0..dim).map(|d| VALS[(i * 5 + seed * 3 + d * 2 + (i * i + seed) % 3) % 7]).collect()).collect()
}

fn check_spline<T: Comp>(n: usize, seed: usize, r: &mut Report) {
    let ctrl = spline_ctrl(n, seed, T::N);
    let pts: Vec<T> = ctrl.iter().map(|c| T::make(c)).collect();
    let s = BezierSpline::new(&pts);
    let pf: Vec<Vec<f64>> = pts.iter().map(|p| p.comps()).collect();
    let scale = pf.iter().flatten().fold(1.0f64, |m, x| m.max(x.abs()));
    let tol = 3e-4 * scale;
    let case = |t: f32| obj! {"kind" => "spline", "type" => T::NAME, "n" => n, "seed" => seed, "t" => fbits(t)};
    let key = |cl: &str, t: f32| format!("{cl}|{}|n={n}|seed={seed}|t={t:e}", T::NAME);
    let seg_ref = |t: f64| -> Vec<f64> {
        let x = (t * n as f64).clamp(0.0, n as f64);
        let k = (x.floor() as usize).min(n - 1);
        bern(&[pf[3 * k].clone(), pf[3 * k + 1].clone(), pf[3 * k + 2].clone(), pf[3 * k + 3].clone()], x - k as f64)
    };
    let mut tl: Vec<f32> = ts();
    for k in 0..=n { let t = k as f32 / n as f32; tl.extend([t, f32::from_bits(t.to_bits().wrapping_add(1)), f32::from_bits(t.to_bits().saturating_sub(1)), t + 0.37 / n as f32]); }
    for t in tl {
        r.eval();
        let (e, tg) = match caught(|| (s.eval(t), s.tangent(t))) { Ok(x) => x, Err(p) => { r.violation(key("spline-panic", t), format!("spline eval/tangent panicked at t={t}: {p}"), case(t)); continue; } };
        if t.is_nan() { continue; }
        // the spline's tangent is that of the owning cubic at the local parameter (clamped at the ends of the curve); next to
        // an interior join, where rounding may select either neighbour and the curve need not be smooth, it is not judged
        {
            let x = (t as f64 * n as f64).clamp(0.0, n as f64);
            let k = (x.floor() as usize).min(n - 1);
            let l = x - k as f64;
            let near_join = t > 0.0 && t < 1.0 && (l < 1e-4 || l > 1.0 - 1e-4) && k as f64 + l > 1e-4 && (k as f64 + l) < n as f64 - 1e-4;
            if !near_join {
                let want = dbern(&[pf[3 * k].clone(), pf[3 * k + 1].clone(), pf[3 * k + 2].clone(), pf[3 * k + 3].clone()], l);
                let d = maxdiff(&T::dcomps(&tg), &want);
                r.margin("spline-tangent", d, 10.0 * tol);
                if d > 10.0 * tol { r.violation(key("spline-tangent", t), format!("tangent({t}) = {:?}, the owning cubic (segment {k}, local parameter {l}) has derivative {want:?}", T::dcomps(&tg)), case(t)); }
            }
        }
        if t <= 0.0 || t >= 1.0 {
            let want = if t <= 0.0 { &pts[0] } else { &pts[3 * n] };
            if &e != want { r.violation(key("spline-ends", t), format!("eval({t}) = {e:?}, expected end control point {want:?} exactly"), case(t)); }
            continue;
        }
        let want = seg_ref(t as f64);
        let d = maxdiff(&e.comps(), &want);
        r.margin("spline-value", d, tol);
        if d > tol { r.violation(key("spline-value", t), format!("eval({t}) = {e:?}, owning cubic gives {want:?} (err {d:.3e}, tol {tol:.1e})"), case(t)); } else { r.nontrivial(); }
    }
    // joins: passes through every third control point; left/right limits agree
    for k in 0..=n {
        r.eval();
        let t = k as f32 / n as f32;
        let (lo, hi) = (f32::from_bits(t.to_bits().saturating_sub(1)), f32::from_bits(t.to_bits() + 1));
        if let Ok((a, b, c)) = caught(|| (s.eval(lo), s.eval(t), s.eval(hi))) {
            if maxdiff(&b.comps(), &pf[3 * k]) > tol { r.violation(key("spline-join-point", t), format!("eval({k}/{n}) = {b:?}, expected control point {:?}", pts[3 * k]), case(t)); }
            if k > 0 && k < n && (maxdiff(&a.comps(), &b.comps()) > tol || maxdiff(&c.comps(), &b.comps()) > tol) { r.violation(key("spline-join-continuity", t), format!("around t={k}/{n}: {a:?} | {b:?} | {c:?}"), case(t)); }
        }
    }
    // polyline approximation
    // criteria: |q - q'| <= thr per component (indices 0..5), and one-sided ones that look at the SIGN of the
    // documented error vector q - q' (real midpoint minus linear approximation): q - q' <= thr (indices 6, 7)
    for (ti, thr) in [1.0f32, 1e-1, 1e-2, 1e-4, 0.0, -1.0, 1e-2, 1e-3].into_iter().enumerate() {
        let signed = ti >= 6;
        if n > 4 && thr <= 0.0 && seed > 0 { continue; } // depth-bound runs are 2^D points; one polygon per n suffices
        if signed && n > 4 && seed > 1 { continue; }
        r.eval();
        let thr_s = thr * scale as f32;
        let halt = |d: &T::Diff| T::dcomps(d).iter().all(|x| if signed { *x <= thr_s as f64 } else { x.abs() <= thr_s as f64 });
        // termination: a bisection tree of depth 10+log2(len) asks the criterion at most once per internal node,
        // i.e. fewer than 2^(depth+1) times; a call beyond that budget is reported as non-termination (the
        // counting wrapper panics, which unwinds out of the library call) instead of waiting for the wall cap
        let budget = 1u64 << (10 + (3 * n as u32 + 1).ilog2() + 1);
        let asked = std::cell::Cell::new(0u64);
        let counted = |d: &T::Diff| { asked.set(asked.get() + 1); if asked.get() > budget { panic!("criterion asked more than 2^(depth+1) = {budget} times: the recursion depth bound is not honoured (non-termination)"); } halt(d) };
        let out = match caught(|| s.approximate(counted)) { Ok(o) => o, Err(p) => { r.violation(key("approx-panic", thr), format!("approximate panicked: {p}"), obj! {"kind" => "approx", "type" => T::NAME, "n" => n, "seed" => seed, "thr" => ti}); continue; } };
        let case = obj! {"kind" => "approx", "type" => T::NAME, "n" => n, "seed" => seed, "thr" => ti};
        let key = |cl: &str| format!("{cl}|{}|n={n}|seed={seed}|thr={thr}{}", T::NAME, if signed { "(one-sided)" } else { "" });
        if out.len() < 2 || out[0] != pts[0] || out[out.len() - 1] != pts[3 * n] {
            r.violation(key("approx-endpoints"), format!("polyline of {} points starts {:?} ends {:?}; curve endpoints {:?} {:?}", out.len(), out.first(), out.last(), pts[0], pts[3 * n]), case);
            continue;
        }
        let depth = 10 + (3 * n as u32 + 1).ilog2();
        // expected schedule by independent recursion over the public eval
        fn sched<T: Comp>(s: &BezierSpline<T>, a: f32, b: f32, dep: u32, halt: &dyn Fn(&T::Diff) -> bool, acc: &mut Vec<f32>) {
            let mid = (a + b) / 2.0;
            let (ap, bp) = (s.eval(a), s.eval(b));
            let real = s.eval(mid);
            let approx = ap.add(&bp.sub(&ap).mul(0.5));
            if dep == 0 || halt(&real.sub(&approx)) { acc.push(a); } else { sched(s, a, mid, dep - 1, halt, acc); sched(s, mid, b, dep - 1, halt, acc); }
        }
        let mut params = vec![];
        sched(&s, 0.0, 1.0, depth, &halt, &mut params);
        let exact = out.len() == params.len() + 1 && params.iter().zip(&out).all(|(t, p)| &s.eval(*t) == p);
        if exact { r.nontrivial(); r.h(&format!("approx-pieces-2^{}", (params.len() as f64).log2().round())); continue; }
        // fallback: property-level check (any valid schedule): greedy match onto the dyadic grid
        let grid = 1u32 << depth;
        let mut g = 0u32;
        let mut tsel = vec![];
        let mut okm = true;
        for p in &out[..out.len() - 1] {
            while g < grid && &s.eval(g as f32 / grid as f32) != p { g += 1; }
            if g >= grid { okm = false; break; }
            tsel.push(g); g += 1;
        }
        if !okm { r.violation(key("approx-not-on-curve"), format!("polyline points are not curve points at strictly increasing dyadic parameters (depth {depth}); {} points", out.len()), case); continue; }
        tsel.push(grid);
        let mut bad = None;
        for w in tsel.windows(2) {
            let (a, b) = (w[0], w[1]);
            let l = b - a;
            if !l.is_power_of_two() || a % l != 0 { bad = Some(format!("piece [{a},{b}]/{grid} is not a dyadic interval")); break; }
            if l > 1 {
                let (ap, bp, mp) = (s.eval(a as f32 / grid as f32), s.eval(b as f32 / grid as f32), s.eval((a + l / 2) as f32 / grid as f32));
                let approx = ap.add(&bp.sub(&ap).mul(0.5));
                if !halt(&mp.sub(&approx)) { bad = Some(format!("piece [{a},{b}]/{grid} neither meets the error criterion nor sits at the depth bound")); break; }
            }
        }
        match bad { Some(b) => r.violation(key("approx-piece"), b, case), None => { r.nontrivial(); r.h("approx-alternative-schedule-accepted"); } }
    }
}

fn run_spline(cfg: &Cfg) -> ! {
    let quick = cfg.quick();
    let mut rep = Report::new();
    // all 4-tuples over the value lattice (scalars)
    rep.merge(par_range(cfg, 7u64.pow(4), |i, r| {
        let c: [Vec<f32>; 4] = [vec![VALS[(i % 7) as usize]], vec![VALS[(i / 7 % 7) as usize]], vec![VALS[(i / 49 % 7) as usize]], vec![VALS[(i / 343) as usize]]];
        check_cubic::<f32>(&c, r);
        if i % 3 == 0 { check_cubic::<Angle>(&c, r); }
    }));
    // thorough: all 4-tuples over an 11-value lattice with non-dyadic members
    if !quick {
        const V2: [f32; 11] = [0.0, 1.0, -1.0, 0.5, 3.0, -1000.0, 1e-3, 0.1, -0.7, 7.3, -2.5e-3];
        rep.merge(par_range(cfg, 11u64.pow(4), |i, r| {
            let c: [Vec<f32>; 4] = [vec![V2[(i % 11) as usize]], vec![V2[(i / 11 % 11) as usize]], vec![V2[(i / 121 % 11) as usize]], vec![V2[(i / 1331) as usize]]];
            check_cubic::<f32>(&c, r);
        }));
    }
    rep.merge(par_range(cfg, 1024, check_tangent_translated));
    // pooled polygons for the vector / point / colour types
    let pool: u64 = if quick { 1200 } else { 60000 };
    rep.merge(par_range(cfg, pool, |i, r| {
        let c = |dim: usize| -> [Vec<f32>; 4] { std::array::from_fn(|k| (0..dim).map(|d| VALS[((i as usize) / 7usize.pow((k * 2 + d % 2) as u32 % 5) + k * 3 + d * 5 + i as usize) % 7]).collect()) };
        check_cubic::<Vec2>(&c(2), r);
        check_cubic::<Vec3>(&c(3), r);
        check_cubic::<Point2>(&c(2), r);
        check_cubic::<Color3f>(&c(3), r);
    }));
    let seeds: u64 = if quick { 12 } else { 240 };
    rep.merge(par_range(cfg, 8 * seeds, |i, r| {
        let (n, seed) = ((i % 8) as usize + 1, (i / 8) as usize);
        check_spline::<f32>(n, seed, r);
        check_spline::<Vec2>(n, seed, r);
        check_spline::<Point2>(n, seed, r);
        if seed < 4 { check_spline::<Angle>(n, seed, r); }
        if seed < 3 { check_spline::<Vec3>(n, seed, r); check_spline::<Color3f>(n, seed, r); }
    }));
    // thorough: every segment count 9..=64 (three polygons each)
    if !quick { rep.merge(par_range(cfg, 56 * 3, |i, r| { let (n, seed) = ((i % 56) as usize + 9, (i / 56) as usize); check_spline::<f32>(n, seed, r); check_spline::<Vec2>(n, seed + 1, r); })); }
    // scale sentinels: splines with many segments (control-point counts beyond 255), approximate() at depth
    rep.merge(par_range(cfg, 4, |i, r| { let n = [40usize, 85, 100, 300][i as usize]; check_spline::<f32>(n, 1, r); check_spline::<Vec2>(n, 2, r); }));
    // ... with the depth-bound runs (thresholds 0 and -1: 2^16 / 2^17 pieces) on either side of the segment counts at which
    // the depth bound 10 + log2(len) steps up (len = 64 at 21 segments, 128 at 43)
    rep.merge(par_range(cfg, 5, |i, r| { let n = [20usize, 21, 22, 42, 43][i as usize]; check_spline::<f32>(n, 0, r); if n == 21 { check_spline::<Vec2>(n, 0, r); } }));
    // step helpers
    for k in -64..=128 {
        let t = k as f32 / 64.0;
        rep.eval();
        let (a, b) = (smoothstep(t), smootherstep(t));
        let tc = (t as f64).clamp(0.0, 1.0);
        let (ea, eb) = (tc * tc * (3.0 - 2.0 * tc), tc * tc * tc * (10.0 + tc * (6.0 * tc - 15.0)));
        if (a as f64 - ea).abs() > 1e-5 || (b as f64 - eb).abs() > 1e-5 { rep.violation(format!("smoothstep|t={t}"), format!("smoothstep({t})={a} smootherstep={b}, expected {ea} {eb}"), J::Null); }
    }
    rep.sample(0, || obj! {"cubic_f32_ctrl" => vec![0.0f32, 3.0, -1000.0, 1e-3], "t" => "k/64, <0, >1, NaN", "spline" => "n=7 segments, t=3/7 +- ulp", "approximate_thresholds" => vec![1.0f32, 0.1, 0.01, 1e-4, 0.0, -1.0]});
    rep.finish(cfg, "exploration",
        "cubic Beziers: all 7^4 scalar control polygons and a pooled family for Vec2/Vec3/Point2/Color3f x t in {k/64} + {<0, -0, >1, NaN, +-inf, near-1}: eval and fast_eval vs f64 Bernstein (1e-5 scale), exact end points at and beyond the ends, bounding box, tangent vs derivative (also for 256 dyadic polygons translated by 256, 65536 and -2^20, judged relative to the curve's own extent); splines with 1..8 segments x control polygons x t lattice incl. k/n and k/n +- 1 ulp: owning cubic, through every third control point, join continuity; approximate() with thresholds from coarse to 0 and negative (forces the depth bound) and with one-sided criteria on the signed error vector q - q': endpoints exact, points are curve points at increasing dyadic parameters, every piece met the criterion or sits at depth 10+log2(len). non-trivial = interior parameter judged / polyline verified.",
        &["tolerances 1e-5 (cubic value; 3e-5 tangent) and 3e-4 (spline) relative to the largest control magnitude", "approximate(): first compared with an independent re-run of the bisection schedule; on mismatch a schedule-agnostic check decides"])
}

// ------------------------------------------------------------------ C18

fn circ_diff(a: f64, b: f64) -> f64 { let d = (a - b).rem_euclid(std::f64::consts::TAU); d.min(std::f64::consts::TAU - d) }

fn check_angle_deg(d: f32, r: &mut Report) { check_angle_impl(d as f64, r) }
fn check_angle(k: i32, r: &mut Report) {
    // k indexes the angle lattice
    let deg: f64 = if k.abs() <= 480 { k as f64 * 7.5 } else { [1e-6f64, 1e4, 1e6, -1e4, -1e6, 0.1, 33.3, -123.456, 2e36, -5e36, 1e30, 3e-30][(k.abs() as usize - 481) % 12] * 180.0 / std::f64::consts::PI };
    check_angle_impl(deg, r)
}
fn check_angle_impl(deg: f64, r: &mut Report) {
    let degf = deg as f32;
    let case = || obj! {"kind" => "angle", "deg" => fbits(degf)};
    let key = |cl: &str| format!("{cl}|deg={degf:e}");
    for d in [degf, f32::from_bits(degf.to_bits().wrapping_add(1)), f32::from_bits(degf.to_bits().wrapping_sub(1))] {
        if !d.is_finite() { continue; }
        r.eval();
        let a = degs(d);
        let rel = |x: f64, y: f64| (x - y).abs() <= 1e-6 * y.abs().max(1e-30) || (x - y).abs() < 1e-12;
        let (rd, tn) = (d as f64 * std::f64::consts::PI / 180.0, d as f64 / 360.0);
        if !rel(a.to_degs() as f64, d as f64) || !rel(a.to_rads() as f64, rd) || !rel(a.to_turns() as f64, tn)
            || !rel(rads(rd as f32).to_degs() as f64, (rd as f32) as f64 * 180.0 / std::f64::consts::PI) || !rel(turns(tn as f32).to_rads() as f64, (tn as f32) as f64 * std::f64::consts::TAU) || !rel(turns(tn as f32).to_degs() as f64, (tn as f32) as f64 * 360.0) {
            r.violation(key("unit-conversion"), format!("degs({d}): to_degs={} to_rads={} to_turns={}", a.to_degs(), a.to_rads(), a.to_turns()), case());
        }
        // trig
        let (s, c) = a.sin_cos();
        r.margin("sin-cos-identity", ((s as f64).powi(2) + (c as f64).powi(2) - 1.0).abs(), 1e-6); r.margin("sin-cos-vs-f64", ((s as f64) - (a.to_rads() as f64).sin()).abs().max(((c as f64) - (a.to_rads() as f64).cos()).abs()), 5e-7);
        if s != a.sin() || c != a.cos() || ((s as f64).powi(2) + (c as f64).powi(2) - 1.0).abs() > 1e-6 || ((s as f64) - (a.to_rads() as f64).sin()).abs() > 5e-7 || ((c as f64) - (a.to_rads() as f64).cos()).abs() > 5e-7 {
            r.violation(key("sin-cos"), format!("degs({d}): sin_cos=({s},{c}) sin={} cos={}", a.sin(), a.cos()), case());
        }
        // arithmetic, clamp, min, max on the magnitude
        let b = degs(33.0);
        let m = a.to_rads();
        let ok = (a + b).to_rads() == m + b.to_rads() && (a - b).to_rads() == m - b.to_rads() && (-a).to_rads() == -m && (a * 2.5).to_rads() == m * 2.5 && (a / 4.0).to_rads() == m / 4.0
            && a.min(b).to_rads() == m.min(b.to_rads()) && a.max(b).to_rads() == m.max(b.to_rads()) && a.clamp(degs(-45.0), degs(60.0)).to_rads() == m.clamp(degs(-45.0).to_rads(), degs(60.0).to_rads())
            && (a % b).to_rads() == m % b.to_rads()
            // scalar factors and divisors of every magnitude: the operator is the magnitude's own operator, whatever the operand
            && [1e-8f32, -3e-7, 1e-39, 1e30, -0.5].iter().all(|&k| { let (q, p) = (caught(|| (a / k).to_rads()), caught(|| (a * k).to_rads())); q.map_or(false, |q| q.to_bits() == (m / k).to_bits() || (q.is_nan() && (m / k).is_nan())) && p.map_or(false, |p| p.to_bits() == (m * k).to_bits() || (p.is_nan() && (m * k).is_nan())) });
        if !ok { r.violation(key("arith"), format!("operators/clamp/min/max on degs({d}) do not act on the magnitude"), case()); }
        // the same arithmetic through the Affine / Linear / Lerp trait entry points
        {
            use re::math::space::{Affine, Linear};
            use re::math::Lerp;
            let bm = b.to_rads();
            let lerp = a.lerp(&b, 0.25).to_rads() as f64;
            let want = m as f64 + (bm as f64 - m as f64) * 0.25;
            let ok = Affine::add(&a, &b).to_rads() == m + bm && Affine::sub(&a, &b).to_rads() == m - bm && Affine::sub(&b, &a).to_rads() == bm - m
                && Linear::mul(&a, 2.5).to_rads() == m * 2.5 && Linear::neg(&a).to_rads() == -m && (lerp - want).abs() <= 1e-5 * (1.0 + m.abs() as f64)
                // ... and the perspective division of an angle used as a varying is the division of its magnitude
                && { use re::math::vary::ZDiv; [2.0f32, 0.1, -4.0].iter().all(|&z| a.z_div(z).to_rads().to_bits() == (m / z).to_bits()) }
                // ... as is stepping it as a varying (vary / step / dv_dt)
                && { use re::math::Vary; let st = Vary::step(&a, &b).to_rads(); let it: Vec<f32> = a.vary(b, Some(3)).map(|x| x.to_rads()).collect(); st == m + bm && it.len() == 3 && it[0] == m && (it[2] as f64 - (m as f64 + 2.0 * bm as f64)).abs() <= 1e-5 * (1.0 + m.abs() as f64) && (a.dv_dt(&b, 0.5).to_rads() as f64 - (bm as f64 - m as f64) * 0.5).abs() <= 1e-5 * (1.0 + m.abs() as f64) };
            if !ok { r.violation(key("arith-traits"), format!("Affine/Linear/Lerp on degs({d}) and degs(33) do not act on the magnitude: add {} sub {} lerp(0.25) {lerp} (expected {want})", Affine::add(&a, &b).to_rads(), Affine::sub(&a, &b).to_rads()), case()); }
        }
        // wrap
        for (mn, mx) in [(0.0f32, 1.0f32), (-0.5, 0.5), (-0.25, 0.75), (1.0, 3.0), (-1000.0, -999.0), (0.0, 0.125), (-0.01, 0.02)] {
            for unit in 0..3 {
                r.eval();
                let (lo, hi) = match unit { 0 => (turns(mn), turns(mx)), 1 => (degs(mn * 360.0), degs(mx * 360.0)), _ => (rads(mn * std::f32::consts::TAU), rads(mx * std::f32::consts::TAU)) };
                let w = match caught(|| a.wrap(lo, hi)) { Ok(w) => w, Err(p) => { r.violation(key("wrap-panic"), format!("degs({d}).wrap({lo:?},{hi:?}) panicked: {p}"), case()); continue; } };
                let (x, wl, l, h) = (a.to_rads() as f64, w.to_rads() as f64, lo.to_rads() as f64, hi.to_rads() as f64);
                let span = h - l;
                let q = (x - wl) / span;
                // inside the interval: closed at the lower end, at the upper end only by rounding - no slack either way
                // (a result bit-equal to max is only legitimate when the exact wrapped value lies within rounding below max)
                let exact = l + (x - l).rem_euclid(span);
                let at_max_wrongly = wl == h && (h - exact) > 1e-6 * h.abs().max(span).max(x.abs() * 1e-1);
                let in_rng = wl >= l && wl <= h && !at_max_wrongly;
                let cong = (q - q.round()).abs() <= 1e-4 + 4.0 * (x.abs() * 6e-8) / span;
                if !in_rng || !cong {
                    let side = if x < l { "below-min" } else if x > h { "above-max" } else { "inside" };
                    r.violation(format!("wrap|{}|{side}|deg={degf:e}|{mn}..{mx}", if !in_rng { "range" } else { "congruence" }), format!("degs({d}).wrap([{mn},{mx}] turns) = {} rad; interval [{l},{h}]; (x-w)/span = {q}", wl), case());
                } else if x < l || x > h { r.nontrivial(); }
            }
        }
    }
}

/// wrap() far from the interval: inputs hundreds to tens of thousands of revolutions away, where a product
/// `len * n` is rounded at the magnitude of the input
fn check_wrap_far(i: u64, r: &mut Report) {
    let x = (500.0 + i as f32 * 0.017_31) * if i % 2 == 0 { 1.0 } else { -1.0 };
    let a = rads(x);
    for (k, (mn, mx)) in [(0.0f32, 1.0f32), (-0.5, 0.5), (-0.25, 0.75), (1.0, 3.0), (-1000.0, -999.0), (0.0, 0.125), (-0.01, 0.02)].into_iter().enumerate() {
        r.eval();
        let (lo, hi) = (turns(mn), turns(mx));
        let case = || obj! {"kind" => "wrapfar", "i" => i};
        let w = match caught(|| a.wrap(lo, hi)) { Ok(w) => w, Err(p) => { r.violation(format!("wrap-panic|far|{x}|{mn}..{mx}"), p, case()); continue; } };
        let (xd, wl, l, h) = (x as f64, w.to_rads() as f64, lo.to_rads() as f64, hi.to_rads() as f64);
        let span = h - l;
        let q = (xd - wl) / span;
        if !(wl >= l && wl <= h) { r.violation(format!("wrap|range|far|interval{k}|x={x}"), format!("rads({x}).wrap([{mn},{mx}] turns) = {wl} rad lies outside [{l},{h}]"), case()); }
        else if (q - q.round()).abs() > 1e-4 + 4.0 * (xd.abs() * 6e-8) / span { r.violation(format!("wrap|congruence|far|interval{k}|x={x}"), format!("rads({x}).wrap([{mn},{mx}] turns) = {wl}: (x-w)/span = {q}"), case()); }
        else { r.nontrivial(); }
    }
}

fn check_vec2(x: f32, y: f32, r: &mut Report) {
    r.eval();
    let v = vec2::<f32, ()>(x, y);
    // the From / Into entry points are the to_* methods
    {
        use re::math::angle::PolarVec;
        if let (Ok(a), Ok(b)) = (caught(|| PolarVec::from(v)), caught(|| v.to_polar())) { if a.r().to_bits() != b.r().to_bits() || a.az().to_rads().to_bits() != b.az().to_rads().to_bits() { r.violation(format!("polar-from|{x:e},{y:e}"), format!("PolarVec::from({v:?}) = {a:?} but to_polar() = {b:?}"), obj! {"kind" => "vec2", "x" => fbits(x), "y" => fbits(y)}); return; }
            let (c, d): (re::math::Vec2, re::math::Vec2) = (b.into(), b.to_cart()); if c.0.map(f32::to_bits) != d.0.map(f32::to_bits) { r.violation(format!("polar-into|{x:e},{y:e}"), format!("Vec2::from({b:?}) = {c:?} but to_cart() = {d:?}"), obj! {"kind" => "vec2", "x" => fbits(x), "y" => fbits(y)}); return; } }
    }
    let case = || obj! {"kind" => "vec2", "x" => fbits(x), "y" => fbits(y)};
    let key = |cl: &str| format!("{cl}|{x:e},{y:e}");
    let p = match caught(|| v.to_polar()) { Ok(p) => p, Err(e) => { r.violation(key("to_polar-panic"), e, case()); return; } };
    let len = ((x as f64).powi(2) + (y as f64).powi(2)).sqrt();
    let az = p.az().to_rads() as f64;
    // (below 1.1e-19 the squared length is a subnormal float with an absolute spacing of 1.4e-45: the radius inherits that)
    let rtol = 5e-6 * len + 1.5e-45 / len;
    r.margin("polar-radius", ((p.r() as f64) - len).abs(), rtol); r.margin("polar-az", circ_diff(az, (y as f64).atan2(x as f64)), 5e-6);
    if ((p.r() as f64) - len).abs() > rtol { r.violation(key("polar-radius"), format!("to_polar().r() = {}, length {len}", p.r()), case()); }
    if !(az >= -std::f64::consts::PI - 1e-6 && az <= std::f64::consts::PI + 1e-6) { r.violation(key("polar-az-range"), format!("azimuth {az} outside [-pi,pi]"), case()); }
    if circ_diff(az, (y as f64).atan2(x as f64)) > 5e-6 { r.violation(key("polar-az"), format!("({x},{y}).to_polar().az() = {az}, atan2 = {}", (y as f64).atan2(x as f64)), case()); }
    let back = p.to_cart();
    r.margin("polar-roundtrip", ((back.x() as f64 - x as f64).abs()).max((back.y() as f64 - y as f64).abs()), rtol);
    if ((back.x() as f64 - x as f64).abs()).max((back.y() as f64 - y as f64).abs()) > rtol { r.violation(key("polar-roundtrip"), format!("({x},{y}) -> {p:?} -> {back:?}"), case()); } else { r.nontrivial(); }
}

fn check_vec3(x: f32, y: f32, z: f32, r: &mut Report) {
    r.eval();
    let v = vec3::<f32, ()>(x, y, z);
    {
        use re::math::angle::SphericalVec;
        if let (Ok(a), Ok(b)) = (caught(|| SphericalVec::from(v)), caught(|| v.to_spherical())) { if a.r().to_bits() != b.r().to_bits() || a.az().to_rads().to_bits() != b.az().to_rads().to_bits() || a.alt().to_rads().to_bits() != b.alt().to_rads().to_bits() { r.violation(format!("spherical-from|{x:e},{y:e},{z:e}"), format!("SphericalVec::from({v:?}) = {a:?} but to_spherical() = {b:?}"), obj! {"kind" => "vec3", "x" => fbits(x), "y" => fbits(y), "z" => fbits(z)}); return; }
            let (c, d): (re::math::Vec3, re::math::Vec3) = (b.into(), b.to_cart()); if c.0.map(f32::to_bits) != d.0.map(f32::to_bits) { r.violation(format!("spherical-into|{x:e},{y:e},{z:e}"), format!("Vec3::from({b:?}) = {c:?} but to_cart() = {d:?}"), obj! {"kind" => "vec3", "x" => fbits(x), "y" => fbits(y), "z" => fbits(z)}); return; } }
    }
    let case = || obj! {"kind" => "vec3", "x" => fbits(x), "y" => fbits(y), "z" => fbits(z)};
    let key = |cl: &str| format!("{cl}|{x:e},{y:e},{z:e}");
    let s = match caught(|| v.to_spherical()) { Ok(p) => p, Err(e) => { r.violation(key("to_spherical-panic"), e, case()); return; } };
    let len = ((x as f64).powi(2) + (y as f64).powi(2) + (z as f64).powi(2)).sqrt();
    let (az, alt) = (s.az().to_rads() as f64, s.alt().to_rads() as f64);
    r.margin("spherical-radius", ((s.r() as f64) - len).abs(), 5e-6 * len);
    if ((s.r() as f64) - len).abs() > 5e-6 * len { r.violation(key("spherical-radius"), format!("r = {}, length {len}", s.r()), case()); }
    if !(az.abs() <= std::f64::consts::PI + 1e-6) || !(alt.abs() <= std::f64::consts::FRAC_PI_2 + 1e-6) { r.violation(key("spherical-range"), format!("az {az} alt {alt} out of range"), case()); }
    let ealt = (y as f64).atan2(((x as f64).powi(2) + (z as f64).powi(2)).sqrt());
    r.margin("spherical-alt", (alt - ealt).abs(), 5e-6); if x != 0.0 || z != 0.0 { r.margin("spherical-az", circ_diff(az, (z as f64).atan2(x as f64)), 5e-6); }
    if (alt - ealt).abs() > 5e-6 || ((x != 0.0 || z != 0.0) && circ_diff(az, (z as f64).atan2(x as f64)) > 5e-6) { r.violation(key("spherical-angles"), format!("({x},{y},{z}): az {az} alt {alt}; expected az {} alt {ealt}", (z as f64).atan2(x as f64)), case()); }
    let b = s.to_cart();
    let d = (b.x() as f64 - x as f64).abs().max((b.y() as f64 - y as f64).abs()).max((b.z() as f64 - z as f64).abs());
    r.margin("spherical-roundtrip", d, 5e-6 * len);
    if d > 5e-6 * len { r.violation(key("spherical-roundtrip"), format!("({x},{y},{z}) -> {s:?} -> {b:?}"), case()); } else { r.nontrivial(); }
}

fn check_polar_first(rr: f32, azd: f32, altd: f32, r: &mut Report) {
    r.eval();
    let case = || obj! {"kind" => "polar", "r" => fbits(rr), "az" => fbits(azd), "alt" => fbits(altd)};
    let key = |cl: &str| format!("{cl}|r={rr:e}|az={azd}|alt={altd}");
    let p = polar(rr, degs(azd));
    let c = p.to_cart();
    // Cartesian components against f64 trigonometry of the very angle stored (many revolutions included)
    let a64 = p.az().to_rads() as f64;
    r.margin("polar-to-cart", ((c.x() as f64 - rr as f64 * a64.cos()).abs()).max((c.y() as f64 - rr as f64 * a64.sin()).abs()), 2e-6 * rr as f64);
    if ((c.x() as f64 - rr as f64 * a64.cos()).abs()).max((c.y() as f64 - rr as f64 * a64.sin()).abs()) > 2e-6 * rr as f64 { r.violation(key("polar-to-cart"), format!("polar({rr},{azd}deg).to_cart() = {c:?}, f64: ({}, {})", rr as f64 * a64.cos(), rr as f64 * a64.sin()), case()); }
    let q = c.to_polar();
    r.margin("polar-inverse-r", (q.r() - rr).abs() as f64, 5e-6 * rr as f64); r.margin("polar-inverse-az", circ_diff(q.az().to_rads() as f64, p.az().to_rads() as f64), 5e-6);
    if ((q.r() - rr).abs() as f64) > 5e-6 * rr as f64 || circ_diff(q.az().to_rads() as f64, p.az().to_rads() as f64) > 5e-6 { r.violation(key("polar-inverse"), format!("polar({rr},{azd}deg) -> {c:?} -> {q:?}"), case()); }
    if altd.abs() < 90.0 {
        let s = spherical(rr, degs(azd), degs(altd));
        let (sc, l64) = (s.to_cart(), s.alt().to_rads() as f64);
        let want = [rr as f64 * a64.cos() * l64.cos(), rr as f64 * l64.sin(), rr as f64 * a64.sin() * l64.cos()];
        r.margin("spherical-to-cart", (0..3).map(|k| (sc.0[k] as f64 - want[k]).abs()).fold(0.0, f64::max), 2e-6 * rr as f64);
        if (0..3).any(|k| (sc.0[k] as f64 - want[k]).abs() > 2e-6 * rr as f64) { r.violation(key("spherical-to-cart"), format!("spherical({rr},{azd},{altd}).to_cart() = {sc:?}, f64: {want:?}"), case()); }
        let t = s.to_cart().to_spherical();
        r.margin("spherical-inverse-r", (t.r() - rr).abs() as f64, 5e-6 * rr as f64); r.margin("spherical-inverse-az", circ_diff(t.az().to_rads() as f64, s.az().to_rads() as f64), 5e-6); r.margin("spherical-inverse-alt", (t.alt().to_rads() - s.alt().to_rads()).abs() as f64, 5e-6);
        if ((t.r() - rr).abs() as f64) > 5e-6 * rr as f64 || circ_diff(t.az().to_rads() as f64, s.az().to_rads() as f64) > 5e-6 || ((t.alt().to_rads() - s.alt().to_rads()).abs() as f64) > 5e-6 { r.violation(key("spherical-inverse"), format!("spherical({rr},{azd},{altd}) -> {:?} -> {t:?}", s.to_cart()), case()); } else { r.nontrivial(); }
    }
    if p.r() != rr || p.az().to_rads() != degs(azd).to_rads() { r.violation(key("polar-accessors"), "r()/az() do not return the constructor arguments".into(), case()); }
}

// unit conversions over every binade: each of the three constructors crossed with each of the three getters, for
// magnitudes 2^-120 .. 2^127 (three mantissas, both signs). A result is judged whenever the ideal stored radians and
// the ideal result are both normal floats: an intermediate in another unit may not overflow or underflow on the way.
fn check_unit_extreme(i: u64, r: &mut Report) {
    let (e, mi, neg) = ((i / 6) as i32 - 120, (i % 6) / 2, i % 2 == 1);
    let x = [1.0f32, 1.37, 1.9999999][mi as usize] * 2f32.powi(e) * if neg { -1.0 } else { 1.0 };
    const UNITS: [(&str, f64); 3] = [("rads", 1.0), ("degs", std::f64::consts::PI / 180.0), ("turns", std::f64::consts::TAU)];
    let normal = |v: f64| v.abs() >= 1.2e-38 && v.abs() <= 3.4e38;
    for (ci, (cn, cu)) in UNITS.iter().enumerate() {
        let stored = x as f64 * cu;
        if !normal(stored) { continue; }
        let a = match ci { 0 => rads(x), 1 => degs(x), _ => turns(x) };
        for (gi, (gn, gu)) in UNITS.iter().enumerate() {
            let want = stored / gu;
            if !normal(want) { continue; }
            r.eval();
            let got = match gi { 0 => a.to_rads(), 1 => a.to_degs(), _ => a.to_turns() } as f64;
            let err = (got - want).abs() / want.abs();
            if !(err <= 1e-6) {
                r.violation(format!("unit-conversion|extreme|{cn}->{gn}|x={x:e}"), format!("{cn}({x:e}).to_{gn}() = {got:e}, expected {want:e} (both representable)"), obj! {"kind" => "unitx", "i" => i});
            } else { r.margin("unit-extreme", err, 1e-6); r.nontrivial(); }
        }
    }
}

fn run_angle(cfg: &Cfg) -> ! {
    let mut rep = Report::new();
    rep.merge(par_range(cfg, 248 * 6, check_unit_extreme));
    // (thorough: +-417 turns in 7.5-degree steps; +-2 turns in 0.005-degree steps)
    let ka: i64 = if cfg.quick() { 492 } else { 20_000 };
    rep.merge(par_range(cfg, (2 * ka + 1) as u64, |i, r| check_angle((i as i64 - ka) as i32, r)));
    if cfg.quick() { rep.merge(par_range(cfg, 1441, |i, r| check_angle_deg(i as f32 * 0.5 - 360.0 + 0.125, r))); }
    else { rep.merge(par_range(cfg, 288_001, |i, r| check_angle_deg((i as f64 * 0.005 - 720.0 + 0.00125) as f32, r))); }
    rep.merge(par_range(cfg, if cfg.quick() { 600_000 } else { 6_000_000 }, check_wrap_far));
    let mags = [1e-9f32, 1e-6, 1.0, 1e4];
    let n2: i64 = if cfg.quick() { 13 } else { 201 };
    rep.merge(par_range(cfg, (n2 * n2) as u64 * 4, |i, r| {
        let (a, b, m) = ((i as i64 % n2) - n2 / 2, (i as i64 / n2 % n2) - n2 / 2, mags[(i as i64 / n2 / n2) as usize]);
        if a == 0 && b == 0 { return; }
        check_vec2(a as f32 * m, b as f32 * m, r);
        check_vec2(a as f32 * m * 1.0000001, b as f32 * m * 0.333, r);
    }));
    let n3: i64 = if cfg.quick() { 9 } else { 61 };
    rep.merge(par_range(cfg, (n3 * n3 * n3) as u64 * 4, |i, r| {
        let (a, b, c, m) = ((i as i64 % n3) - n3 / 2, (i as i64 / n3 % n3) - n3 / 2, (i as i64 / n3 / n3 % n3) - n3 / 2, mags[(i as i64 / n3 / n3 / n3) as usize]);
        if a == 0 && b == 0 && c == 0 { return; }
        check_vec3(a as f32 * m, b as f32 * m, c as f32 * m, r);
    }));
    // near-zero vectors: lengths down to where the squared length is a subnormal float (2-D: 2e-21; 3-D, whose altitude is
    // derived from the radius: down to 3e-19, the squared length still a normal float)
    {
        let small2 = [1e-12f32, 1e-16, 3e-19, 1.2e-19, 5e-20, 1e-20, 2e-21];
        rep.merge(par_range(cfg, 13 * 13 * 7, |i, r| {
            let (a, b, m) = ((i as i64 % 13) - 6, (i as i64 / 13 % 13) - 6, small2[(i / 169) as usize]);
            if a == 0 && b == 0 { return; }
            // (scaled so that the longest lattice vector has about the stated length)
            check_vec2(a as f32 * m / 8.0, b as f32 * m / 8.0, r);
        }));
        let small3 = [1e-12f32, 1e-16, 3e-19];
        rep.merge(par_range(cfg, 9 * 9 * 9 * 3, |i, r| {
            let (a, b, c, m) = ((i as i64 % 9) - 4, (i as i64 / 9 % 9) - 4, (i as i64 / 81 % 9) - 4, small3[(i / 729) as usize]);
            if (a == 0 && b == 0 && c == 0) || a * a + b * b + c * c < 9 { return; }
            check_vec3(a as f32 * m / 3.0, b as f32 * m / 3.0, c as f32 * m / 3.0, r);
        }));
    }
    // mixed magnitudes per component: near-axis / near-pole vectors (aspect ratios up to 1e6)
    let mm = [0.0f32, 1e-6, -1e-4, 3e-4, -1e-2, 0.5, 1.0, -3.0, 1e3];
    rep.merge(par_range(cfg, 9 * 9 * 9, |i, r| {
        let (a, b, c) = (mm[(i % 9) as usize], mm[(i / 9 % 9) as usize], mm[(i / 81) as usize]);
        if a != 0.0 || b != 0.0 { check_vec2(a, b, r); }
        if a != 0.0 || b != 0.0 || c != 0.0 { check_vec3(a, b, c, r); check_vec3(-a, c, b, r); }
    }));
    rep.merge(par_range(cfg, 49 * 25 * 4, |i, r| {
        let (az, alt, m) = ((i % 49) as f32 * 7.5 - 180.0, (i / 49 % 25) as f32 * 7.5 - 90.0, mags[(i / 49 / 25) as usize]);
        check_polar_first(m, az, alt, r);
    }));
    // thorough: the same on a 0.9-degree grid (off the 7.5-degree lattice)
    if !cfg.quick() { rep.merge(par_range(cfg, 401 * 201 * 4, |i, r| {
        let (az, alt, m) = ((i % 401) as f32 * 0.9 - 180.0, (i / 401 % 201) as f32 * 0.9 - 90.0 + 0.0, mags[(i / 401 / 201) as usize]);
        check_polar_first(m, az, alt.clamp(-90.0, 90.0), r);
    })); }
    // altitudes close to the poles (cos(alt) down to 1.7e-4)
    rep.merge(par_range(cfg, 49 * 12, |i, r| {
        let alt = [80.0f32, 85.0, 88.0, 89.0, 89.9, 89.99, -80.0, -85.0, -88.0, -89.0, -89.9, -89.99][(i / 49) as usize];
        check_polar_first(1.0, (i % 49) as f32 * 7.5 - 180.0, alt, r);
    }));
    // the same over many revolutions: azimuth k*7.5 degrees + n turns
    rep.merge(par_range(cfg, 49 * 5 * 8, |i, r| {
        let n = [3.0f32, -3.0, 100.0, -100.0, 1000.0, -1000.0, 5000.0, -20000.0][(i / 245) as usize];
        let (az, alt) = ((i % 49) as f32 * 7.5 - 180.0 + n * 360.0, (i / 49 % 5) as f32 * 37.5 - 75.0);
        check_polar_first([1.0f32, 250.0][(i % 2) as usize], az, alt, r);
    }));
    let _: Angle = Angle::ZERO;
    rep.sample(0, || obj! {"angle_deg" => -1500.0, "wrap_interval_turns" => vec![0.0, 1.0], "vec2" => vec![-2e-7, 2e-7], "vec3" => vec![0.0, -5e-7, 0.0]});
    rep.finish(cfg, "exploration",
        "angles k*7.5 deg for |k|<=492 (+-10 turns; thorough |k|<=20000, +-417 turns, and +-2 turns in 0.005-degree steps; vector lattices 201^2 and 61^3 per magnitude; polar/spherical on a 0.9-degree grid) with +-1 ulp neighbours and {1e-6, 1e4, 1e6, 1e30, 2e36, 5e36, ...} rad: unit conversions in all directions (and every constructor x getter pair over all binades 2^-120..2^127, three mantissas, both signs, judged whenever stored radians and result are representable), sin/cos/sin_cos, operators/clamp/min/max on the magnitude, wrap into 7 intervals x 3 unit spellings (in range without slack, congruent), also for 600 000 (thorough 6 000 000) inputs 80 .. 16 000 revolutions away; Affine/Linear/Lerp trait entry points on angles; 2-D and 3-D vector lattices x magnitudes {1e-9,1e-6,1,1e4} minus zero, plus a 9^3 lattice mixing magnitudes 1e-6..1e3 per component (near-axis and near-pole vectors): radius = length, azimuth/altitude ranges and values vs f64 atan2, Cartesian->polar/spherical->Cartesian and the reverse order round trips; polar/spherical -> Cartesian components vs f64 trigonometry of the stored angle (2e-6), also for azimuths of +-3, +-100, +-1000, 5000 and -20000 turns. non-trivial = wrapped from outside the interval / round trip verified.",
        &["std trigonometry; tolerances 1e-4 relative (coordinates), 1e-4 rad (angles), 1e-6 relative (unit conversions)"])
}

fn main() {
    silence_panics();
    let cfg = Cfg::from_args(|s| if s == "spline" { "C17".into() } else { "C18".into() });
    if cfg.replay.is_some() {
        replay_main(&cfg, |c, r| {
            let g = |k: &str| c.get(k).and_then(|j| j.as_u64()).unwrap_or(0) as usize;
            let f = |k: &str| parse_fbits(c.get(k).unwrap()).unwrap();
            match c.get("kind").and_then(|j| j.as_str()).unwrap_or("") {
                "tangent-translated" => check_tangent_translated(c.get("i").unwrap().as_u64().unwrap(), r),
                "cubic" => {
                    let ctrl: Vec<Vec<f32>> = c.get("ctrl").unwrap().as_arr().unwrap().iter().map(|p| p.as_arr().unwrap().iter().map(|x| parse_fbits(x).unwrap()).collect()).collect();
                    let ctrl: [Vec<f32>; 4] = [ctrl[0].clone(), ctrl[1].clone(), ctrl[2].clone(), ctrl[3].clone()];
                    let mut rr = Report::new();
                    match c.get("type").and_then(|j| j.as_str()).unwrap_or("") { "f32" => check_cubic::<f32>(&ctrl, &mut rr), "Vec2" => check_cubic::<Vec2>(&ctrl, &mut rr), "Vec3" => check_cubic::<Vec3>(&ctrl, &mut rr), "Point2" => check_cubic::<Point2>(&ctrl, &mut rr), _ => check_cubic::<Color3f>(&ctrl, &mut rr) }
                    for (k, v) in rr.viols { r.violation(k, v.what, v.case); }
                }
                "spline" | "approx" => {
                    let mut rr = Report::new();
                    match c.get("type").and_then(|j| j.as_str()).unwrap_or("") { "f32" => check_spline::<f32>(g("n"), g("seed"), &mut rr), "Vec2" => check_spline::<Vec2>(g("n"), g("seed"), &mut rr), "Vec3" => check_spline::<Vec3>(g("n"), g("seed"), &mut rr), "Point2" => check_spline::<Point2>(g("n"), g("seed"), &mut rr), _ => check_spline::<Color3f>(g("n"), g("seed"), &mut rr) }
                    for (k, v) in rr.viols { r.violation(k, v.what, v.case); }
                }
                "angle" => check_angle_impl(parse_fbits(c.get("deg").unwrap()).unwrap() as f64, r),
                "vec2" => check_vec2(f("x"), f("y"), r),
                "vec3" => check_vec3(f("x"), f("y"), f("z"), r),
                "polar" => check_polar_first(f("r"), f("az"), f("alt"), r),
                "unitx" => check_unit_extreme(c.get("i").unwrap().as_u64().unwrap(), r),
                "wrapfar" => check_wrap_far(c.get("i").unwrap().as_u64().unwrap(), r),
                k => machinery_error(&format!("unknown replay kind {k}")),
            }
        });
    }
    if cfg.part.starts_with("spline") { run_spline(&cfg) } else { run_angle(&cfg) }
}
