//! C03 — frustum clipping: every triangle over a clip-space point lattice against the exact
//! triangle ∩ frustum polygon computed by vertex enumeration in the barycentric chart.
use re::geom::{vertex, Tri};
use re::math::{vec3, Vec3};
use re::render::clip::{view_frustum, Clip, ClipVec, ClipVert};
use vlib::*;

type P4 = [f32; 4];
type Attr = (Vec3, f32);
const SCAL: [f32; 3] = [3.0, -7.0, 11.0];

fn mk(t: &[P4; 3]) -> Tri<ClipVert<Attr>> {
    let unit = [vec3(1.0, 0.0, 0.0), vec3(0.0, 1.0, 0.0), vec3(0.0, 0.0, 1.0)];
    Tri(std::array::from_fn(|k| ClipVert::new(vertex(ClipVec::from(t[k]), (unit[k], SCAL[k])))))
}

fn clip(ts: &[Tri<ClipVert<Attr>>]) -> Result<Vec<Tri<ClipVert<Attr>>>, String> {
    caught(|| { let mut out = vec![]; view_frustum::clip(ts, &mut out); out })
}

/// plane distances (positive = outside), same convention as the library's doc: near, far, left, right, bottom, top
fn dists(p: &[f64; 4]) -> [f64; 6] { let [x, y, z, w] = *p; [-z - w, z - w, -x - w, x - w, -y - w, y - w] }

/// Exact visible polygon in the (u,v)=(l1,l2) chart by brute-force vertex enumeration. Returns CCW polygon.
fn ref_polygon(t: &[P4; 3]) -> Vec<[f64; 2]> { ref_polygon_m(t, 0.0) }
/// The same with the six frustum planes moved inwards by `margin` (outwards if negative), in units of the largest
/// coordinate magnitude: the set of points inside the frustum by at least that much.
fn ref_polygon_m(t: &[P4; 3], margin: f64) -> Vec<[f64; 2]> {
    // homogeneous coordinates: a common positive factor does not change the chart polygon - normalise the magnitude
    let m = t.iter().flatten().fold(0.0f64, |m, x| m.max(x.abs() as f64)).max(1e-300);
    let v: [[f64; 4]; 3] = t.map(|p| p.map(|c| c as f64 / m));
    let d: [[f64; 6]; 3] = [dists(&v[0]), dists(&v[1]), dists(&v[2])];
    // constraints g(u,v) = a + b u + c v >= 0
    let mut g: Vec<[f64; 3]> = vec![[1.0, -1.0, -1.0], [0.0, 1.0, 0.0], [0.0, 0.0, 1.0]];
    for i in 0..6 { g.push([-d[0][i] - margin, -(d[1][i] - d[0][i]), -(d[2][i] - d[0][i])]); }
    let scale = d.iter().flatten().fold(1.0f64, |m, x| m.max(x.abs()));
    // f64 evaluation of exactly representable f32 data: only rounding of the vertex solve has to be absorbed
    let eps = 1e-12 * scale;
    let mut pts: Vec<[f64; 2]> = vec![];
    for j in 0..g.len() { for k in j + 1..g.len() {
        let det = g[j][1] * g[k][2] - g[j][2] * g[k][1];
        if det.abs() < 1e-14 * scale * scale.max(1.0) { continue; }
        let u = (-g[j][0] * g[k][2] + g[k][0] * g[j][2]) / det;
        let w = (-g[j][1] * g[k][0] + g[k][1] * g[j][0]) / det;
        if g.iter().all(|c| c[0] + c[1] * u + c[2] * w >= -eps * (1.0 + c[1].abs() + c[2].abs()).max(1.0).min(1e6) - 1e-12) { pts.push([u, w]); }
    }}
    if pts.len() < 3 { return vec![]; }
    let c = [pts.iter().map(|p| p[0]).sum::<f64>() / pts.len() as f64, pts.iter().map(|p| p[1]).sum::<f64>() / pts.len() as f64];
    pts.sort_by(|a, b| (a[1] - c[1]).atan2(a[0] - c[0]).total_cmp(&(b[1] - c[1]).atan2(b[0] - c[0])));
    pts.dedup_by(|a, b| (a[0] - b[0]).abs() < 1e-12 && (a[1] - b[1]).abs() < 1e-12);
    pts
}
fn area(p: &[[f64; 2]]) -> f64 { let n = p.len(); if n < 3 { return 0.0; } (0..n).map(|i| p[i][0] * p[(i + 1) % n][1] - p[(i + 1) % n][0] * p[i][1]).sum::<f64>() / 2.0 }

fn trivial_class(t: &[P4; 3]) -> &'static str {
    let d: Vec<[f64; 6]> = t.iter().map(|p| dists(&p.map(|c| c as f64))).collect();
    if (0..6).any(|i| d.iter().all(|x| x[i] > 0.0)) { "hidden" } else if d.iter().all(|x| x.iter().all(|v| *v <= 0.0)) { "visible" } else { "clipped" }
}

/// The frustum is the intersection of six half-spaces, in whatever order they are listed, and what has been clipped against
/// some of them can be clipped against all of them afterwards. order 0: view_frustum::clip; 1..3: Clip::clip with the six
/// planes permuted; 4: clipped against the four side planes first, the result then against the whole frustum.
const ORDERS: [[usize; 6]; 4] = [[0, 1, 2, 3, 4, 5], [5, 4, 3, 2, 1, 0], [2, 3, 4, 5, 0, 1], [5, 0, 3, 1, 4, 2]];
fn clip_order(ts: &[Tri<ClipVert<Attr>>], order: usize) -> Result<Vec<Tri<ClipVert<Attr>>>, String> {
    if order == 0 { return clip(ts); }
    caught(|| {
        let mut out = vec![];
        if order == 4 {
            let mut mid = vec![];
            ts.clip(&view_frustum::PLANES[2..], &mut mid);
            view_frustum::clip(&mid[..], &mut out);
        } else {
            let planes: Vec<_> = ORDERS[order].iter().map(|&k| view_frustum::PLANES[k]).collect();
            ts.clip(&planes, &mut out);
        }
        out
    })
}

fn check_single(t: &[P4; 3], r: &mut Report) { check_single_order(t, 0, r) }

fn check_single_order(t: &[P4; 3], order: usize, r: &mut Report) {
    r.eval();
    let otag = ["", "|planes reversed", "|side planes first", "|planes shuffled", "|side planes, then re-clipped against the frustum"][order];
    let key = |cl: &str| format!("{cl}{otag}|{t:?}");
    let case = || obj! {"kind" => "single", "order" => order, "t" => J::Arr(t.iter().flatten().map(|x| fbits(*x)).collect())};
    let input = mk(t);
    let out = match clip_order(std::slice::from_ref(&input), order) { Ok(o) => o, Err(p) => { r.violation(key("clip-panic"), format!("clip panicked: {p}"), case()); return; } };
    let class = trivial_class(t);
    r.h(&format!("class:{class}"));
    r.h(&format!("outputs:{}", out.len()));
    match class {
        "visible" => { if out.len() != 1 || out[0] != input { r.violation(key("visible-not-unchanged"), format!("triangle inside the frustum was not emitted unchanged: {} outputs", out.len()), case()); } return; }
        "hidden" => { if !out.is_empty() { r.violation(key("hidden-not-empty"), format!("triangle wholly outside one plane produced {} outputs", out.len()), case()); } return; }
        _ => {}
    }
    let v: [[f64; 4]; 3] = t.map(|p| p.map(|c| c as f64));
    // (tolerances are relative to the magnitude of the input: homogeneous coordinates may be uniformly tiny)
    let scale = v.iter().flatten().fold(1e-30f64, |m, x| m.max(x.abs()));
    let poly = ref_polygon(t);
    let pa = area(&poly);
    // f32 rounding moves clip-space points by a few 1e-8 of the coordinate magnitude; where an edge runs almost inside a
    // frustum plane that is a visible amount of chart area. 'Beyond rounding' is therefore judged against the frustum
    // shrunk / grown by 2^-21 of the magnitude (4 ulp).
    const BAND: f64 = 1.0 / 2097152.0;
    let (poly_in, poly_out) = (ref_polygon_m(t, BAND), ref_polygon_m(t, -BAND));
    let (pa_in, pa_out) = (area(&poly_in), area(&poly_out));
    let mut sum = 0.0;
    let mut tris_uv: Vec<[[f64; 2]; 3]> = vec![];
    for (oi, Tri(vs)) in out.iter().enumerate() {
        let mut uv = [[0.0; 2]; 3];
        for (k, cv) in vs.iter().enumerate() {
            let l: [f64; 3] = [cv.attrib.0.x() as f64, cv.attrib.0.y() as f64, cv.attrib.0.z() as f64];
            let pos: [f64; 4] = cv.pos.0.map(|c| c as f64);
            // (1) position matches the carried barycentrics; scalar attribute is the same affine combination
            for c in 0..4 {
                let want: f64 = (0..3).map(|j| l[j] * v[j][c]).sum();
                r.margin("attr-vs-position", (pos[c] - want).abs(), 3e-6 * scale);
                if !((pos[c] - want).abs() <= 3e-6 * scale) { r.violation(key("attr-vs-position"), format!("output {oi} vertex {k}: position {pos:?} but carried barycentrics {l:?} give component {c} = {want}"), case()); return; }
            }
            let ws: f64 = (0..3).map(|j| l[j] * SCAL[j] as f64).sum();
            r.margin("scalar-attr", (cv.attrib.1 as f64 - ws).abs(), 1e-5 * 11.0);
            if !((cv.attrib.1 as f64 - ws).abs() <= 1e-5 * 11.0) { r.violation(key("scalar-attr"), format!("output {oi} vertex {k}: scalar attribute {} but barycentrics {l:?} give {ws}", cv.attrib.1), case()); return; }
            // (2) inside the triangle and the frustum
            if l.iter().any(|x| !(*x >= -3e-6)) || !((l[0] + l[1] + l[2] - 1.0).abs() <= 3e-6) { r.violation(key("outside-triangle"), format!("output {oi} vertex {k}: barycentrics {l:?} are outside the input triangle"), case()); return; }
            let dd = dists(&pos);
            r.margin("outside-frustum", dd.iter().cloned().fold(0.0, f64::max), 3e-6 * scale); r.margin("outside-triangle", l.iter().map(|x| -*x).fold(0.0, f64::max).max((l[0] + l[1] + l[2] - 1.0).abs()), 3e-6);
            if dd.iter().any(|x| !(*x <= 3e-6 * scale)) { r.violation(key("outside-frustum"), format!("output {oi} vertex {k}: position {pos:?} is outside the frustum (plane distances {dd:?})"), case()); return; }
            uv[k] = [l[1], l[2]];
        }
        let a = area(&uv);
        // (4) winding preserved (zero-area outputs tolerated and counted)
        if a < -1e-6 { r.violation(key("winding"), format!("output {oi} has reversed winding in the input's barycentric chart (signed area {a:.3e})"), case()); return; }
        if a.abs() <= 1e-6 { r.h("zero-area-outputs"); }
        sum += a;
        tris_uv.push(uv);
    }
    // (3) nothing lost, no overlap
    if pa_out < 1e-9 { r.h("visible-part-has-no-area"); if sum > 1e-6 { r.violation(key("area"), format!("visible part has no area but outputs cover {sum:.3e}"), case()); } return; }
    if pa_out - pa_in > 1e-5 { r.h("ill-conditioned(edge almost inside a frustum plane): area judged within the rounding band"); }
    r.margin("area", (pa_in - sum).max(sum - pa_out).max(0.0), 1e-5);
    if !(sum >= pa_in - 1e-5 && sum <= pa_out + 1e-5) { r.violation(format!("area|{}{otag}|{t:?}", if sum < pa { "lost" } else { "excess" }), format!("outputs cover area {sum:.6} of the barycentric chart, the visible part has area {pa:.6} ({} outputs)", out.len()), case()); return; }
    // sample points: each strictly-inside sample is in exactly one output
    let poly = if poly_in.len() >= 3 { poly_in.clone() } else { vec![] };
    if poly.is_empty() { r.nontrivial(); return; }
    let inside_poly = |p: [f64; 2], m: f64| { let n = poly.len(); (0..n).all(|i| { let (a, b) = (poly[i], poly[(i + 1) % n]); let e = (b[0] - a[0]) * (p[1] - a[1]) - (b[1] - a[1]) * (p[0] - a[0]); e / ((b[0] - a[0]).hypot(b[1] - a[1])).max(1e-12) > m }) };
    const G: usize = 24;
    for i in 1..G { for j in 1..G - i {
        let p = [i as f64 / G as f64 + 0.0031, j as f64 / G as f64 + 0.0017];
        if !inside_poly(p, 1e-4) { continue; }
        let mut n = 0; let mut near = false;
        for tr in &tris_uv {
            let es: Vec<f64> = (0..3).map(|k| { let (a, b) = (tr[k], tr[(k + 1) % 3]); ((b[0] - a[0]) * (p[1] - a[1]) - (b[1] - a[1]) * (p[0] - a[0])) / ((b[0] - a[0]).hypot(b[1] - a[1])).max(1e-12) }).collect();
            if es.iter().any(|e| e.abs() < 1e-5) { near = true; }
            if es.iter().all(|e| *e > 0.0) { n += 1; }
        }
        if !near && n != 1 { r.violation(format!("coverage|{}{otag}|{t:?}", if n == 0 { "gap" } else { "overlap" }), format!("chart point {p:?} inside the visible part lies in {n} output triangles"), case()); return; }
    }}
    r.nontrivial();
    r.h(&format!("planes-crossed:{}", { let d: Vec<[f64; 6]> = v.iter().map(dists).collect(); (0..6).filter(|&i| d.iter().any(|x| x[i] > 0.0) && d.iter().any(|x| x[i] < 0.0)).count() }));
}

/// The same triangle with a float colour as attribute (channels 3*lambda - 1, i.e. outside [0,1]): the outputs must carry
/// exactly the affine image of what the (Vec3, f32) run carries - attribute interpolation may not depend on the type.
fn check_color_attr(t: &[P4; 3], r: &mut Report) {
    use re::math::color::{rgb, Color3f};
    r.eval();
    let case = || obj! {"kind" => "color", "t" => J::Arr(t.iter().flatten().map(|x| fbits(*x)).collect())};
    let base = match clip(std::slice::from_ref(&mk(t))) { Ok(o) => o, Err(_) => return };
    let cols: [Color3f; 3] = [rgb(2.0, -1.0, -1.0), rgb(-1.0, 2.0, -1.0), rgb(-1.0, -1.0, 2.0)];
    let input: Tri<ClipVert<(Color3f, f32)>> = Tri(std::array::from_fn(|k| ClipVert::new(vertex(ClipVec::from(t[k]), (cols[k], SCAL[k])))));
    let out = match caught(|| { let mut out = vec![]; view_frustum::clip(std::slice::from_ref(&input), &mut out); out }) { Ok(o) => o, Err(p) => { r.violation(format!("clip-panic|color|{t:?}"), p, case()); return; } };
    if out.len() != base.len() { r.violation(format!("attr-type-dependence|count|{t:?}"), format!("{} outputs with a colour attribute, {} with a vector attribute", out.len(), base.len()), case()); return; }
    for (oi, (Tri(a), Tri(b))) in out.iter().zip(&base).enumerate() { for k in 0..3 {
        if a[k].pos != b[k].pos { r.violation(format!("attr-type-dependence|position|{t:?}"), format!("output {oi} vertex {k} differs in position between attribute types"), case()); return; }
        let l = [b[k].attrib.0.x(), b[k].attrib.0.y(), b[k].attrib.0.z()];
        for c in 0..3 { let want = 3.0 * l[c] as f64 - 1.0; if !((a[k].attrib.0 .0[c] as f64 - want).abs() <= 1e-5) { r.violation(format!("attr-color|{t:?}"), format!("output {oi} vertex {k}: colour channel {c} is {} but the linear attribute field has {want} there (barycentrics {l:?})", a[k].attrib.0 .0[c]), case()); return; } }
    }}
    // ... and with an Angle attribute whose vertex values are more than half a turn apart (0.2, 6.1, 3.0 rad)
    let angs = [0.2f32, 6.1, 3.0];
    let input: Tri<ClipVert<(re::math::Angle, f32)>> = Tri(std::array::from_fn(|k| ClipVert::new(vertex(ClipVec::from(t[k]), (re::math::rads(angs[k]), SCAL[k])))));
    let outa = match caught(|| { let mut out = vec![]; view_frustum::clip(std::slice::from_ref(&input), &mut out); out }) { Ok(o) => o, Err(p) => { r.violation(format!("clip-panic|angle|{t:?}"), p, case()); return; } };
    if outa.len() != base.len() { r.violation(format!("attr-type-dependence|count|{t:?}"), format!("{} outputs with an angle attribute, {} with a vector attribute", outa.len(), base.len()), case()); return; }
    for (oi, (Tri(a), Tri(b))) in outa.iter().zip(&base).enumerate() { for k in 0..3 {
        let l = [b[k].attrib.0.x(), b[k].attrib.0.y(), b[k].attrib.0.z()];
        let want: f64 = (0..3).map(|j| l[j] as f64 * angs[j] as f64).sum();
        if !((a[k].attrib.0.to_rads() as f64 - want).abs() <= 2e-5) { r.violation(format!("attr-angle|{t:?}"), format!("output {oi} vertex {k}: angle attribute is {} rad but the linear attribute field has {want} there (barycentrics {l:?})", a[k].attrib.0.to_rads()), case()); return; }
    }}
    if out.len() > 0 && trivial_class(t) == "clipped" { r.nontrivial(); }
}

fn check_batch(ts: &[[P4; 3]], r: &mut Report) {
    r.eval();
    let inputs: Vec<_> = ts.iter().map(mk).collect();
    let case = || obj! {"kind" => "batch", "ts" => J::Arr(ts.iter().map(|t| J::Arr(t.iter().flatten().map(|x| fbits(*x)).collect())).collect())};
    let all = match clip(&inputs) { Ok(o) => o, Err(p) => { r.violation(format!("batch-panic|{ts:?}"), p, case()); return; } };
    let mut single = vec![];
    for i in &inputs { match clip(std::slice::from_ref(i)) { Ok(o) => single.extend(o), Err(_) => return } }
    if all != single {
        r.violation(format!("batch-dependence|n={}|{ts:?}", ts.len()), format!("clipping {} triangles in one call gave {} outputs, one at a time {}; first difference at index {:?}", ts.len(), all.len(), single.len(), all.iter().zip(&single).position(|(a, b)| a != b)), case());
    } else if all.len() > ts.len() { r.nontrivial(); }
}

fn lattice(quick: bool) -> Vec<P4> {
    let (c, w): (Vec<f32>, Vec<f32>) = if quick { (vec![-2.0, -0.5, 0.25, 1.0], vec![-1.0, 1.0, 2.0]) } else { (vec![-2.0, -1.0, -0.5, 0.25, 1.0, 2.0], vec![-1.0, 0.5, 1.0, 2.0]) };
    let mut v = vec![];
    for &x in &c { for &y in &c { for &z in &c { for &ww in &w { v.push([x, y, z, ww]); } } } }
    v
}

fn parse_tri(a: &[J]) -> [P4; 3] { let f: Vec<f32> = a.iter().map(|x| parse_fbits(x).unwrap()).collect(); [[f[0], f[1], f[2], f[3]], [f[4], f[5], f[6], f[7]], [f[8], f[9], f[10], f[11]]] }

fn main() {
    silence_panics();
    let cfg = Cfg::from_args(|_| "C03".into());
    if cfg.replay.is_some() {
        replay_main(&cfg, |c, r| {
            if c.get("kind").and_then(|j| j.as_str()) == Some("single") { check_single_order(&parse_tri(c.get("t").unwrap().as_arr().unwrap()), c.get("order").and_then(|j| j.as_u64()).unwrap_or(0) as usize, r) }
            else if c.get("kind").and_then(|j| j.as_str()) == Some("color") { check_color_attr(&parse_tri(c.get("t").unwrap().as_arr().unwrap()), r) }
            else { let ts: Vec<[P4; 3]> = c.get("ts").unwrap().as_arr().unwrap().iter().map(|t| parse_tri(t.as_arr().unwrap())).collect(); check_batch(&ts, r) }
        });
    }
    let quick = cfg.quick();
    let pts = lattice(quick);
    let n = pts.len() as u64;
    let mut rep = par_range(&cfg, n * n * n, |i, r| { let t = [pts[(i % n) as usize], pts[(i / n % n) as usize], pts[(i / n / n) as usize]]; check_single(&t, r); if quick || i % 4 == 1 { check_single_order(&t, 1 + (i / 4 % 4) as usize, r); } });
    rep.set("lattice_points", n);
    // colour attribute (values outside [0,1]) on every 5th triangle
    rep.merge(par_range(&cfg, n * n * n / 5, |j, r| { let i = j * 5 + j % 5; check_color_attr(&[pts[(i % n) as usize], pts[(i / n % n) as usize], pts[(i / n / n) as usize]], r) }));
    // an off-lattice family: non-dyadic coordinates, unequal w of both signs (nothing lands exactly on a plane or at t = 1/2)
    {
        let (c, w): (Vec<f32>, Vec<f32>) = if quick { (vec![-1.3, 0.3, 0.7], vec![0.9, -0.6]) } else { (vec![-1.7, -1.3, -0.45, 0.3, 0.7, 1.9], vec![0.9, -0.6, 1.7, 0.13]) };
        let mut off: Vec<P4> = vec![];
        for &x in &c { for &y in &c { for &z in &c { for &ww in &w { off.push([x, y * 1.1, z * 0.93, ww]); } } } }
        let no = off.len() as u64;
        rep.set("off_lattice_points", no);
        rep.merge(par_range(&cfg, no * no * no, |i, r| { let t = [off[(i % no) as usize], off[(i / no % no) as usize], off[(i / no / no) as usize]]; check_single(&t, r); check_single_order(&t, 1 + (i / 3 % 4) as usize, r); if i % 7 == 0 { check_color_attr(&t, r); } }));
    }
    // magnitude families: the whole lattice (with vertices a hair outside / inside the planes) scaled by 2^-12 and 2^-20
    let near: Vec<P4> = {
        let e = 1.0f32 + 1.0 / 65536.0;
        let (xy, z): (Vec<f32>, Vec<f32>) = if quick { (vec![-0.5, 0.25, e, -e], vec![-e, 0.25, 2.0 - e]) } else { (vec![-2.0, -0.5, 0.25, e, -e, 2.0 - e], vec![-e, 0.25, e, 2.0 - e]) };
        let mut v = vec![];
        for &x in &xy { for &y in &xy { for &zz in &z { for ww in [1.0f32, -1.0] { if ww > 0.0 || (x == 0.25 && y < 0.0) { v.push([x, y, zz, ww]); } } } } }
        v
    };
    let nn = near.len() as u64;
    rep.set("near_plane_lattice_points", nn);
    // (scales 1, 2^-12, 2^-20, 2^-26, 2^-80 and 2^30: clip space has no unit)
    // ... and 2^-127, 2^-129: every coordinate a subnormal float with 20-22 significant bits left (plane distances and their
    // differences are subnormal too; smaller scales lose the precision the tolerances presume)
    for sc in [1.0f32, 0.000244140625, 9.5367431640625e-7, 1.4901161e-8, 8.271806e-25, 1073741824.0, 5.877472e-39, 1.469368e-39] {
        rep.merge(par_range(&cfg, nn * nn * nn, |i, r| { let t = [near[(i % nn) as usize], near[(i / nn % nn) as usize], near[(i / nn / nn) as usize]].map(|p| p.map(|c| c * sc)); check_single(&t, r); r.h("scaled-near-plane-family"); }));
    }
    // batch pool: first triangle of each (class, output-count, outcode signature) class, 64 triangles
    let mut pool: Vec<[P4; 3]> = vec![];
    let mut seen = std::collections::HashSet::new();
    let mut per_class: std::collections::HashMap<(&'static str, usize), usize> = Default::default();
    let qp = lattice(true);
    let qn = qp.len();
    // pass 1: four triangles of every (trivial class, number of outputs) combination, so that e.g.
    // "needs clipping but nothing survives" is guaranteed to be in the pool; pass 2: outcode variety
    for pass in 0..2 {
        for i in 0..qn * qn * qn {
            if pool.len() >= 96 { break; }
            let t = [qp[(i * 7919) % qn], qp[(i / qn * 31 + i) % qn], qp[(i / qn / qn + i * 13) % qn]];
            let d: Vec<[f64; 6]> = t.iter().map(|p| dists(&p.map(|c| c as f64))).collect();
            let sig: Vec<u8> = d.iter().map(|x| x.iter().enumerate().map(|(k, v)| ((*v > 0.0) as u8) << k).sum()).collect();
            let nout = clip(&[mk(&t)]).map(|o| o.len()).unwrap_or(99);
            if pass == 0 {
                let c = per_class.entry((trivial_class(&t), nout)).or_insert(0);
                let cap = if nout == 0 && trivial_class(&t) == "clipped" { 32 } else { 4 };
                if *c < cap && seen.insert((sig, nout)) { *c += 1; pool.push(t); }
            } else if seen.insert((sig, nout)) { pool.push(t); }
        }
    }
    rep.set("batch_pool_classes", format!("{:?}", { let mut v: Vec<_> = per_class.iter().collect(); v.sort(); v }));
    let np = pool.len() as u64;
    rep.set("batch_pool", np);
    rep.merge(par_range(&cfg, np * np, |i, r| check_batch(&[pool[(i % np) as usize], pool[(i / np) as usize]], r)));
    let trip = if quick { np * np * 8 } else { np * np * np };
    rep.merge(par_range(&cfg, trip, |i, r| check_batch(&[pool[(i % np) as usize], pool[(i / np % np) as usize], pool[((i / np / np) * if quick { 7 } else { 1 } % np) as usize]], r)));
    // every ordered triple of pool members drawn from two representatives of each trivial class (visible / needs clipping /
    // hidden) - in particular visible, hidden, visible with nothing needing the clipper in between
    {
        let mut reps: Vec<[P4; 3]> = vec![];
        for cls in ["visible", "clipped", "hidden"] { reps.extend(pool.iter().filter(|t| trivial_class(t) == cls).take(3).cloned()); }
        let nr = reps.len() as u64;
        rep.set("class_representatives", nr);
        rep.merge(par_range(&cfg, nr * nr * nr, |i, r| check_batch(&[reps[(i % nr) as usize], reps[(i / nr % nr) as usize], reps[(i / nr / nr) as usize]], r)));
        rep.merge(par_range(&cfg, nr * nr * nr * nr, |i, r| check_batch(&[reps[(i % nr) as usize], reps[(i / nr % nr) as usize], reps[(i / nr / nr % nr) as usize], reps[(i / nr / nr / nr) as usize]], r)));
    }
    // scale sentinel: hundreds of triangles in one call (every pool member several times, interleaved orders)
    for stride in [1usize, 7, 31] {
        let big: Vec<[P4; 3]> = (0..600).map(|k| pool[(k * stride + k / 96) % pool.len()]).collect();
        check_batch(&big, &mut rep);
    }
    rep.sample(0, || obj! {"triangle" => vec![vec![-2.0f32, 1.0, -0.5, 2.0], vec![1.0, 1.0, 1.0, -1.0], vec![-0.5, -2.0, 1.0, 1.0]], "attributes" => "barycentric unit vectors + scalar (3,-7,11)"});
    rep.finish(&cfg, "exploration",
        "every ordered triple of a clip-space point lattice (x,y,z in C, w in W incl. negative w; thorough adds on-plane values) is clipped singly, as is an off-lattice family (non-dyadic coordinates, unequal w of both signs), and a second lattice with coordinates 2^-16 inside/outside the planes at scales 1, 2^-12 and 2^-20; every 5th triangle also with a Color3f attribute whose channels lie outside [0,1]; per output vertex: position == affine combination given by the carried barycentric attribute (so the attribute field is intact), scalar attribute likewise, inside triangle and frustum; outputs keep the input's orientation in the barycentric chart, their areas sum to the area of the exact visible polygon (vertex enumeration over the 9 bounding lines, f64 on dyadic data; judged between the polygons of the frustum shrunk and grown by 2^-21 of the coordinate magnitude, which differ only where an edge runs almost inside a plane) and a 24x24 chart sample grid finds every interior point in exactly one output; trivially inside => unchanged bit-for-bit, wholly outside one plane => nothing; batches: every pair and (quick: a subset of, thorough: every) triple from a 96-triangle pool (32 of them needing clipping yet vanishing entirely) clipped in one call == concatenation of single results. non-trivial = genuinely clipped triangle with positive visible area.",
        &["tolerances 1e-5 relative to the coordinate scale; zero-area outputs tolerated", "lattice, not all floats"]);
}
