//! C01 (image), C02 (safety), C06 (order independence), C07 (configuration & statistics).
use re::geom::{vertex, Tri, Vertex};
use re::math::mat::{orthographic, perspective, viewport, Mat4x4, RealToProj};
use re::math::{pt2, pt3, Point3};
use re::render::clip::ClipVec;
use re::render::ctx::{DepthSort, FaceCull};
use re::render::raster::Frag;
use re::render::shader::{FragmentShader, VertexShader};
use re::render::{render, Context, Framebuf, View};
use re::util::buf::Buf2;
use std::cmp::Ordering;
use std::collections::{HashSet, VecDeque};
use vlib::pipe::*;
use vlib::*;

fn ctx_plain() -> Context { Context { face_cull: None, ..Context::default() } }

fn rank_deficient(t: &[V4; 3]) -> bool {
    let m: [[f64; 4]; 3] = t.map(|p| p.map(|c| c as f64));
    let scale = m.iter().flatten().fold(1e-30f64, |a, x| a.max(x.abs()));
    let minor = |c: [usize; 3]| m[0][c[0]] * (m[1][c[1]] * m[2][c[2]] - m[1][c[2]] * m[2][c[1]]) - m[0][c[1]] * (m[1][c[0]] * m[2][c[2]] - m[1][c[2]] * m[2][c[0]]) + m[0][c[2]] * (m[1][c[0]] * m[2][c[1]] - m[1][c[1]] * m[2][c[0]]);
    [[0, 1, 2], [0, 1, 3], [0, 2, 3], [1, 2, 3]].iter().all(|c| minor(*c).abs() <= 1e-5 * scale * scale * scale) // 'through the origin' up to the f32 rounding of the lattice values (0.3, -0.35 ...)
}

fn clip_class(t: &[V4; 3]) -> &'static str {
    let d = |p: &V4| { let [x, y, z, w] = p.map(|c| c as f64); [-z - w, z - w, -x - w, x - w, -y - w, y - w] };
    let ds: Vec<[f64; 6]> = t.iter().map(d).collect();
    if (0..6).any(|i| ds.iter().all(|x| x[i] > 0.0)) { "hidden" } else if ds.iter().all(|x| x.iter().all(|v| *v <= 0.0)) { "visible" } else { "clipped" }
}

fn scene_json(s: &Scene) -> J {
    obj! {"bw" => s.bw, "bh" => s.bh, "vp" => vec![s.vp.0, s.vp.1, s.vp.2, s.vp.3],
          "tris" => J::Arr(s.tris.iter().map(|t| J::Arr(t.v.iter().flatten().chain(t.a.iter()).map(|x| fbits(*x)).collect())).collect())}
}
fn scene_from(j: &J) -> Scene {
    let g = |k: &str| j.get(k).and_then(|x| x.as_u64()).unwrap_or(0) as u32;
    let vp: Vec<u32> = j.get("vp").unwrap().as_arr().unwrap().iter().map(|x| x.as_u64().unwrap() as u32).collect();
    let tris = j.get("tris").unwrap().as_arr().unwrap().iter().map(|t| { let f: Vec<f32> = t.as_arr().unwrap().iter().map(|x| parse_fbits(x).unwrap()).collect(); STri { v: [[f[0], f[1], f[2], f[3]], [f[4], f[5], f[6], f[7]], [f[8], f[9], f[10], f[11]]], a: [f[12], f[13], f[14]] } }).collect();
    Scene { tris, bw: g("bw"), bh: g("bh"), vp: (vp[0], vp[1], vp[2], vp[3]) }
}
fn short(s: &Scene) -> String { format!("{}x{}vp{:?}|{}", s.bw, s.bh, s.vp, s.tris.iter().map(|t| format!("{:?}", t.v)).collect::<Vec<_>>().join(";")) }

const DOORS: [Door; 3] = [Door::Render, Door::Batch, Door::Camera];
const KINDS: [TargetKind; 4] = [TargetKind::Owned, TargetKind::SubView, TargetKind::ColorOnly, TargetKind::ColorOnlySub];

// ------------------------------------------------------------------ C01

fn check_image(scene: &Scene, door: Door, kind: TargetKind, r: &mut Report) { check_image_ctx(scene, door, kind, 0, r) }
/// painter: 0 = default context (depth test Less, no sort); 1 = BackToFront sort (the depth test has nothing to test on a
/// colour-only target); 2 = BackToFront sort with the depth test disabled
/// (the argument also carries, in bits 2.., the initial depth-buffer content: 0 = distinct tiny positive values,
/// 1 = distinct negative values, 2 = -0.0, 3 = f32::MIN, 4 = -infinity - every one of them farther than any fragment)
/// painter 3 = depth-only pass: colour writes off (Framebuf targets)
fn check_image_ctx(scene: &Scene, door: Door, kind: TargetKind, mode: u8, r: &mut Report) {
    r.eval();
    // bits 5..: the varying type that carries the attribute between the shader stages (0 = f32)
    let (painter, dinit, vary) = (mode & 3, (mode >> 2) & 7, VARY_KINDS[(mode >> 5) as usize % 6]);
    let dsent = |idx: usize| -> f32 { match dinit { 0 => depth_sentinel(idx), 1 => -1.0 - idx as f32 * 0.125, 2 => -0.0, 3 => f32::MIN, _ => f32::NEG_INFINITY } };
    let n_px = (scene.bw * scene.bh) as usize;
    let (prior_c, prior_d): (Vec<u32>, Vec<f32>) = ((0..n_px).map(color_sentinel).collect(), (0..n_px).map(dsent).collect());
    let case = || obj! {"kind" => "image", "scene" => scene_json(scene), "door" => format!("{door:?}"), "target" => format!("{kind:?}"), "painter" => mode as u64};
    let tag = format!("{door:?}|{kind:?}|p{painter}d{dinit}{}|{}", if vary == VaryKind::F32 { String::new() } else { format!("|{vary:?}") }, short(scene));
    let ctx = match painter { 0 => ctx_plain(), 1 => Context { depth_sort: Some(DepthSort::BackToFront), ..ctx_plain() }, 2 => Context { depth_sort: Some(DepthSort::BackToFront), depth_test: None, ..ctx_plain() },
        // 3 = depth pre-pass: colour writes off, depth test and depth writes on (Framebuf targets): colours stay, depths as ever
        _ => Context { color_write: false, ..ctx_plain() } };
    let prepass = painter == 3;
    let out = match render_scene_vary(vary, scene, None, door, kind, &ctx, Discard::Never, if dinit == 0 { None } else { Some((&prior_c, &prior_d)) }) {
        Ok(o) => o,
        Err(p) => { r.violation(format!("render-panic|{tag}"), format!("rendering panicked: {p}"), case()); return; }
    };
    if !out.parent_intact { r.violation(format!("parent-buffer-written|{tag}"), "cells of the enclosing buffer outside the sub-view target were modified".into(), case()); return; }
    let orc = Oracle::new(scene);
    let mut inside = 0;
    for j in 0..scene.bh { for i in 0..scene.bw {
        let idx = (j * scene.bw + i) as usize;
        let (cw, dw) = (out.color[idx], out.depth.as_ref().map(|d| d[idx]));
        match orc.pixel(i, j) {
            Truth::Ambiguous(why) => { r.h(&format!("masked:{why}")); }
            Truth::Outside => {
                if cw != color_sentinel(idx) || dw.map_or(false, |d| d.to_bits() != dsent(idx).to_bits()) {
                    r.violation(format!("outside-written|{tag}"), format!("pixel ({i},{j}) lies unambiguously outside every visible part but holds colour {cw:#x} depth {dw:?} (sentinels {:#x}, {})", color_sentinel(idx), dsent(idx)), case());
                    return;
                }
            }
            Truth::Inside { tri, attr, invw } => {
                inside += 1;
                if prepass {
                    if cw != color_sentinel(idx) { r.violation(format!("prepass-colour-written|{tag}"), format!("pixel ({i},{j}): colour {cw:#x} written although color_write = false"), case()); return; }
                    if let Some(d) = dw { if !((d as f64 - invw).abs() <= 0.002 * invw) { r.violation(format!("depth|prepass|{tag}"), format!("pixel ({i},{j}) (triangle {tri}): depth after a depth-only pass {d}, expected 1/w = {invw}"), case()); return; } }
                    continue;
                }
                if cw == color_sentinel(idx) { r.violation(format!("inside-not-drawn|{tag}"), format!("pixel ({i},{j}) lies unambiguously inside the visible part of triangle {tri} but was not drawn"), case()); return; }
                let got = unpack(cw) as f64;
                r.margin("attribute(0.5% stated)", (got - attr).abs(), 0.005);
                if !((got - attr).abs() <= 0.005) { r.violation(format!("attribute|{tag}"), format!("pixel ({i},{j}) (triangle {tri}): attribute {got}, perspective-correct value {attr}"), case()); return; }
                if let Some(d) = dw { r.margin("depth(0.2% stated)", (d as f64 - invw).abs(), 0.002 * invw); }
                if let Some(d) = dw { if !((d as f64 - invw).abs() <= 0.002 * invw) { r.violation(format!("depth|{tag}"), format!("pixel ({i},{j}) (triangle {tri}): depth {d}, expected 1/w = {invw}"), case()); return; } }
            }
        }
    }}
    if inside > 0 && (scene.tris.len() > 1 || clip_class(&scene.tris[0].v) == "clipped") { r.nontrivial(); }
    if scene.tris.len() == 1 { r.h(&format!("single:{}:{}", clip_class(&scene.tris[0].v), if inside > 0 { "seen" } else { "unseen" })); }
}

/// The default context (back-face culling on) at large screen coordinates: a small front-facing triangle around a pixel
/// centre far from the origin must be drawn there, the same triangle with reversed winding must leave the buffer alone.
fn check_default_context_large(i: u64, r: &mut Report) {
    r.eval();
    // (both coordinates large: 2048 x 2048 target, centres along the diagonal and in the far corner)
    let (bw, bh) = (2048u32, 2048u32);
    let (cx, cy) = [(2u32, 2u32), (517, 1900), (1000, 1000), (1531, 700), (2040, 2041), (2046, 1777)][(i % 6) as usize];
    let size = [0.75f32, 0.4, 0.2, 0.11][(i / 6 % 4) as usize];
    let shape: [[f32; 2]; 3] = [[[-1.0, -0.7], [1.0, -0.6], [0.0, 1.0]], [[-1.0, 0.9], [0.1, -1.0], [0.9, 0.8]], [[-0.6, -1.0], [0.9, 0.2], [-0.8, 0.7]]][(i / 24 % 3) as usize];
    let w = [1.0f32, 2.5][(i / 72 % 2) as usize];
    let (pcx, pcy) = (cx as f32 + 0.5, cy as f32 + 0.5);
    let mut t = STri { v: std::array::from_fn(|k| { let (px, py) = (pcx + size * shape[k][0], pcy + size * shape[k][1]); [(px / 1024.0 - 1.0) * w, (py / 1024.0 - 1.0) * w, 0.1 * w, w] }), a: PERMS[(i % 6) as usize] };
    let s: Vec<[f64; 2]> = (0..3).map(|k| [(pcx + size * shape[k][0]) as f64, (pcy + size * shape[k][1]) as f64]).collect();
    let mut area2 = (s[1][0] - s[0][0]) * (s[2][1] - s[0][1]) - (s[1][1] - s[0][1]) * (s[2][0] - s[0][0]);
    let want_front = i / 144 % 2 == 0;
    // convention (C07): positive on-screen signed area is a back face
    if (area2 < 0.0) != want_front { t = STri { v: [t.v[0], t.v[2], t.v[1]], a: [t.a[0], t.a[2], t.a[1]] }; area2 = -area2; }
    let _ = area2;
    let scene = Scene { tris: vec![t.clone()], bw, bh, vp: (0, 0, bw, bh) };
    let case = || obj! {"kind" => "default-ctx", "i" => i};
    let tag = format!("default-context|x={cx}|size={size}|{}", if want_front { "front" } else { "back" });
    let out = match render_scene(&scene, None, DOORS[(i % 3) as usize], [TargetKind::Owned, TargetKind::ColorOnly][(i / 3 % 2) as usize], &Context::default(), Discard::Never, None) { Ok(o) => o, Err(p) => { r.violation(format!("render-panic|{tag}"), p, case()); return; } };
    let orc = Oracle::new(&scene);
    let idx = (cy * bw + cx) as usize;
    match orc.pixel(cx, cy) {
        Truth::Inside { attr, .. } => {
            let drawn = out.color[idx] != color_sentinel(idx);
            if want_front && !drawn { r.violation(format!("inside-not-drawn|{tag}"), format!("front-facing triangle of {size} px around pixel ({cx},{cy}) of a 2048 x 2048 target was not drawn under the default context"), case()); return; }
            if want_front && !((unpack(out.color[idx]) as f64 - attr).abs() <= 0.005) { r.violation(format!("attribute|{tag}"), format!("pixel ({cx},{cy}): attribute {} expected {attr}", unpack(out.color[idx])), case()); return; }
            if !want_front && ((cy.saturating_sub(2))..(cy + 3).min(bh)).any(|y| ((cx.saturating_sub(2))..(cx + 3).min(bw)).any(|x| { let p = (y * bw + x) as usize; out.color[p] != color_sentinel(p) })) { r.violation(format!("outside-written|{tag}"), format!("back-facing triangle of {size} px around pixel ({cx},{cy}) was drawn under the default context (back-face culling)"), case()); return; }
            r.nontrivial();
        }
        _ => r.h("default-context:centre-ambiguous"),
    }
}

fn image_lattice(quick: bool) -> Vec<V4> {
    let (xy, z, w): (Vec<f32>, Vec<f32>, Vec<f32>) = if quick { (vec![-1.5, -0.35, 1.2], vec![-1.5, 0.4, 2.0], vec![-1.0, 0.5, 2.0]) }
        else { (vec![-2.0, -1.0, -0.35, 0.3, 1.0, 2.0], vec![-2.0, -0.5, 0.4, 1.0, 2.0], vec![-1.0, 0.5, 1.0, 2.0]) };
    let mut v = vec![];
    for &x in &xy { for &y in &xy { for &zz in &z { for &ww in &w { v.push([x, y, zz, ww]); } } } }
    v
}
const PERMS: [[f32; 3]; 6] = [[0.0, 1.0, 0.25], [0.0, 0.25, 1.0], [1.0, 0.0, 0.25], [1.0, 0.25, 0.0], [0.25, 0.0, 1.0], [0.25, 1.0, 0.0]];
fn viewports(quick: bool) -> Vec<(u32, u32, (u32, u32, u32, u32))> {
    let mut v = vec![(8, 8, (0, 0, 8, 8)), (8, 6, (1, 2, 7, 5))];
    // (a wide and a tall target - columns/rows beyond 255 - are exercised on a subset of scenes, see run_image)
    if !quick { v.extend([(5, 5, (2, 2, 3, 3)), (1, 1, (0, 0, 1, 1)), (16, 9, (0, 0, 16, 9)), (9, 7, (0, 0, 9, 7))]); } else { v.push((7, 5, (0, 0, 7, 5))); }
    v
}

fn run_image(cfg: &Cfg) -> ! {
    let quick = cfg.quick();
    let pts = image_lattice(quick);
    let n = pts.len() as u64;
    let vps = viewports(quick);
    let nv = vps.len() as u64;
    let mut rep = Report::new();
    // thorough: the 720-point lattice has 3.7e8 ordered triples; each gets one viewport/door/target by rotation
    let total = n * n * n;
    rep.merge(par_range(cfg, total, |i, r| {
        let t = [pts[(i % n) as usize], pts[(i / n % n) as usize], pts[(i / n / n) as usize]];
        if rank_deficient(&t) { r.h("filtered:plane-through-clip-origin"); return; }
        let a = PERMS[(i % 6) as usize];
        let passes: Vec<u64> = if quick { (0..nv).collect() } else { vec![i % nv] };
        for vi in passes {
            let (bw, bh, vp) = vps[vi as usize];
            let scene = Scene { tris: vec![STri { v: t, a }], bw, bh, vp };
            if i % 8 == 0 { for d in DOORS { for k in KINDS { check_image(&scene, d, k, r); } } }
            if i % 512 == 7 && vi == 0 {
                // scale sentinels: 300x3 and 3x300 targets, viewport offset inside
                for (bw, bh, vp) in [(300u32, 3u32, (2u32, 0u32, 300u32, 3u32)), (3, 300, (0, 40, 3, 300))] { check_image(&Scene { tris: scene.tris.clone(), bw, bh, vp }, DOORS[(i / 512 % 3) as usize], KINDS[(i / 1536 % 4) as usize], r); }
            }
            else { check_image(&scene, DOORS[((i / 8 + vi) % 3) as usize], KINDS[((i / 24 + vi) % 4) as usize], r); }
            // the attribute carried by other varying types (Point2, Vec3, Color4f, a tuple, Angle): one scene in six
            if i % 6 == 4 && vi == 0 { check_image_ctx(&scene, DOORS[(i / 6 % 3) as usize], KINDS[(i / 18 % 4) as usize], (1 + (i / 6 % 5) as u8) << 5, r); r.h("other-varying-type"); }
            if i % 16 == 5 && vi == 0 {
                // homogeneous scale: the same scene with all clip coordinates multiplied by 2^-20 (and by 2^7) is the same image
                for sc in [9.5367431640625e-7f32, 128.0] { let tris = scene.tris.iter().map(|t| STri { v: t.v.map(|p| p.map(|c| c * sc)), a: t.a }).collect(); check_image(&Scene { tris, bw, bh, vp }, DOORS[(i / 16 % 3) as usize], KINDS[(i / 48 % 4) as usize], r); r.h("scaled-scene"); }
            }
        }
    }));
    // multi-triangle scenes from a pool of 24 (first member of each outcode-signature x w-sign class)
    let mut pool: Vec<STri> = vec![];
    let mut seen = HashSet::new();
    let mut n_invisible = 0usize;
    let qp = image_lattice(true);
    let qn = qp.len();
    for i in 0..qn * qn * qn {
        let t = [qp[(i * 31) % qn], qp[(i / qn * 7 + i) % qn], qp[(i / qn / qn + i * 3) % qn]];
        if rank_deficient(&t) || clip_class(&t) == "hidden" { continue; }
        let sig: Vec<(u8, bool)> = t.iter().map(|p| { let [x, y, z, w] = *p; (((x > w) as u8) | ((x < -w) as u8) << 1 | ((y > w) as u8) << 2 | ((y < -w) as u8) << 3 | ((z > w) as u8) << 4 | ((z < -w) as u8) << 5, w > 0.0) }).collect();
        // keep only triangles that actually show up
        let sc = Scene { tris: vec![STri { v: t, a: PERMS[i % 6] }], bw: 8, bh: 8, vp: (0, 0, 8, 8) };
        let o = Oracle::new(&sc);
        let vis = (0..8).flat_map(|j| (0..8).map(move |i| (i, j))).filter(|&(i, j)| matches!(o.pixel(i, j), Truth::Inside { .. })).count();
        // 24 visibly drawn triangles plus 12 that need clipping but contribute no pixel (they must not disturb their neighbours)
        let invisible_clipped = vis == 0 && clip_class(&t) == "clipped";
        if invisible_clipped && n_invisible >= 12 { continue; }
        if (vis >= 3 && pool.len() - n_invisible < 24 || invisible_clipped) && seen.insert(sig) { pool.push(sc.tris[0].clone()); if invisible_clipped { n_invisible += 1; } if pool.len() >= 36 { break; } }
    }
    let np = pool.len() as u64;
    rep.set("multi_triangle_pool", np);
    let ntrip = if quick { np * np * 4 } else { np * np * np };
    rep.merge(par_range(cfg, np * np + ntrip, |i, r| {
        let idx: Vec<usize> = if i < np * np { vec![(i % np) as usize, (i / np) as usize] } else { let k = i - np * np; vec![(k % np) as usize, (k / np % np) as usize, ((k / np / np) * if quick { 5 } else { 1 } % np) as usize] };
        for (bw, bh, vp) in [(8u32, 8u32, (0u32, 0u32, 8u32, 8u32)), (8, 6, (1, 2, 7, 5))] {
            let scene = Scene { tris: idx.iter().map(|&k| pool[k].clone()).collect(), bw, bh, vp };
            check_image(&scene, DOORS[(i % 3) as usize], KINDS[(i / 3 % 2) as usize], r);
            // other initial depth-buffer contents (negative, -0.0, most negative, -inf): one in five scenes
            if i % 5 == 2 { let dm = 1 + (i / 5 % 4) as u8; check_image_ctx(&scene, DOORS[(i / 7 % 3) as usize], KINDS[(i / 3 % 2) as usize], dm << 2, r); r.h("initial-depth-variant"); }
            // depth-only pass (colour writes off) on the Framebuf targets: one in four scenes, every initial depth content in turn
            if i % 4 == 1 { check_image_ctx(&scene, DOORS[(i / 4 % 3) as usize], KINDS[(i / 12 % 2) as usize], 3 | (((i / 24 % 5) as u8) << 2), r); r.h("depth-prepass"); }
        }
    }));
    rep.merge(par_range(cfg, 288, check_default_context_large));
    // strong perspective at scale: triangles spanning a tall (or wide) target whose w runs over three decades (0.01 .. 10) -
    // 1/w falls from 100 to 0.1 along hundreds of rows (or columns): a value stepped by repeated addition drifts there
    rep.merge(par_range(cfg, 16, |i, r| {
        let (tall, big) = (i % 2 == 0, [256u32, 700, 1024, 2048][(i / 2 % 4) as usize]);
        let (wn, wf) = if i / 8 == 0 { (0.01f32, 10.0f32) } else { (10.0, 0.01) };
        // apex at one end of the long axis, the opposite side at the other end
        let v = if tall { [[0.0, -wn, 0.0, wn], [-wf, wf, 0.0, wf], [wf, wf, 0.0, wf]] } else { [[-wn, 0.0, 0.0, wn], [wf, -wf, 0.0, wf], [wf, wf, 0.0, wf]] };
        let (bw, bh) = if tall { (48, big) } else { (big, 48) };
        let scene = Scene { tris: vec![STri { v, a: PERMS[(i % 6) as usize] }], bw, bh, vp: (0, 0, bw, bh) };
        // (violations are re-keyed by family and orientation, so that a finding can be listed by its prefix)
        let mut tmp = Report::new();
        check_image(&scene, DOORS[(i % 3) as usize], TargetKind::Owned, &mut tmp);
        let fam = format!("strong perspective along {} {}px, w {wn}..{wf}", if tall { "y" } else { "x" }, big);
        let viols: Vec<_> = std::mem::take(&mut tmp.viols).into_iter().collect();
        r.merge(tmp);
        for (k, v) in viols { let (class, rest) = k.split_once('|').unwrap_or((k.as_str(), "")); r.violation(format!("{class}|{fam}|{rest}"), v.what, v.case); }
        r.h("strong-perspective-scene");
    }));
    // painter scenes: triangles with pairwise disjoint depth ranges of their visible parts, back-to-front sorted, on a
    // colour-only target (and with the depth test off on a full one): the nearest triangle must still win
    let opool = order_pool();
    let on = opool.len() as u64;
    let wr: Vec<Option<(f64, f64)>> = opool.iter().map(|t| visible_screen_polygon(&t.v, (0, 0, 8, 8)).map(|x| x.1)).collect();
    let disjoint = |ix: &[usize]| ix.iter().all(|&a| ix.iter().all(|&b| a == b || match (wr[a], wr[b]) { (Some(x), Some(y)) => x.1 < y.0 * 0.999 || y.1 < x.0 * 0.999, _ => true }));
    rep.merge(par_range(cfg, on * on * on, |i, r| {
        let (a, b, c) = ((i % on) as usize, (i / on % on) as usize, (i / on / on) as usize);
        let ix: Vec<usize> = if c == a { if a == b { return; } vec![a, b] } else if a == b || b == c { return; } else { vec![a, b, c] };
        if !disjoint(&ix) { r.h("painter:ranges-overlap"); return; }
        let scene = Scene { tris: ix.iter().map(|&k| opool[k].clone()).collect(), bw: 8, bh: 8, vp: (0, 0, 8, 8) };
        check_image_ctx(&scene, DOORS[(i % 3) as usize], [TargetKind::ColorOnly, TargetKind::ColorOnlySub][(i / 3 % 2) as usize], 1, r);
        check_image_ctx(&scene, DOORS[((i + 1) % 3) as usize], [TargetKind::Owned, TargetKind::SubView][(i % 2) as usize], 2, r);
        r.h("painter:scene");
    }));
    rep.sample(0, || obj! {"scene" => "single triangle [[-1.5,1.2,0.4,2],[1.2,-0.35,2,-1],[-0.35,-1.5,-1.5,0.5]] attrs (0,1,0.25), buffer 8x6, viewport x1..7 y2..5, door Batch, target SubView"});
    rep.sample(1, || obj! {"multi" => "ordered triples from a 24-triangle pool of visible triangles with distinct outcode signatures"});
    rep.finish(cfg, "exploration",
        "scenes = every ordered vertex triple of a clip-space lattice (x,y,z,w incl. negative w; triangles whose plane passes through the clip-space origin filtered and counted) x attribute permutation x viewport/buffer family x front door {render, Batch, Camera} x target {Framebuf<Buf2>, Framebuf<MutSlice2> over strided sub-views of larger buffers, colour-only Buf2, colour-only strided MutSlice2 sub-view}; plus every ordered pair and triple from a 24-triangle pool; plus 1 in 16 scenes re-rendered with all clip coordinates scaled by 2^-20 and 2^7 (same image); plus one scene in six with the attribute carried by a Point2, Vec3, Color4f, (Vec2,f32) or Angle varying instead of f32; plus one multi-triangle scene in five with the depth buffer initialised to negative values, -0.0, f32::MIN or -infinity; plus small triangles (0.11 .. 0.75 px) in both windings around pixel centres up to (2046, 2041) of a 2048 x 2048 target under the default context (back-face culling); plus one multi-triangle scene in four as a depth-only pass (colour writes off, Framebuf targets, all five initial depth contents): colours intact, 1/w as ever; plus painter scenes (pairs/triples of the C06 pool with disjoint visible depth ranges, BackToFront sort, colour-only target or depth test off). Oracle: independent f64 per-pixel reference (projective barycentric solve, nearest by 1/w) with the statement's ambiguity mask (16 probes at 0.03 px, internal fan edges from the public clip API, 0.1% depth ties): inside => attribute within 0.5% and 1/w within 0.2%, outside => sentinel colour and depth intact. non-trivial = scene with >=1 judged inside pixel that is clipped or multi-triangle.",
        &["attribute range is 1 (values 0, 0.25, 1)", "the fragment shader smuggles the attribute's bit pattern through the colour word", "initial depth = per-pixel distinct values < 3e-7"]);
}

// ------------------------------------------------------------------ C02

type Vtx3 = Vertex<Point3<View>, f32>;
#[derive(Clone)]
struct ProjShader;
impl<'a> VertexShader<Vtx3, &'a Mat4x4<RealToProj<View>>> for ProjShader {
    type Output = Vertex<ClipVec, f32>;
    fn shade_vertex(&self, v: Vtx3, m: &'a Mat4x4<RealToProj<View>>) -> Self::Output { vertex(m.apply(&v.pos), v.attrib) }
}
impl FragmentShader<f32> for ProjShader {
    fn shade_fragment(&self, f: Frag<f32>) -> Option<re::math::color::Color4> { let [a, b, c, d] = f.var.to_bits().to_be_bytes(); Some(re::math::color::rgba(a, b, c, d)) }
}

#[derive(Clone, Copy, Debug)]
struct SafetyCfg { proj: u8, bw: u32, bh: u32, vp: (u32, u32, u32, u32), flags: u32, sub: bool }

fn ctx_from(flags: u32) -> Context {
    // flags: cull(3) x sort(3) x test(4) x color_write(2) x depth_write(2) = 144
    let cull = [None, Some(FaceCull::Back), Some(FaceCull::Front)][(flags % 3) as usize];
    let sort = [None, Some(DepthSort::FrontToBack), Some(DepthSort::BackToFront)][(flags / 3 % 3) as usize];
    let test = [None, Some(Ordering::Less), Some(Ordering::Greater), Some(Ordering::Equal)][(flags / 9 % 4) as usize];
    Context { face_cull: cull, depth_sort: sort, depth_test: test, color_write: flags / 36 % 2 == 0, depth_write: flags / 72 % 2 == 0, ..Context::default() }
}

const SCALE_TINY: f32 = 1.0 / 134217728.0;
const SCALE_HUGE: f32 = 1048576.0;

fn proj_matrix(p: u8) -> Mat4x4<RealToProj<View>> {
    match p {
        0 => perspective(1.0, 1.0, 1.0..2.0),
        1 => perspective(1.0, 1.0, 1.0..1000.0),
        2 => perspective(0.5, 1.4, 1.0..1000.0),
        3 => perspective(2.0, 0.75, 1.0..2.0),
        // a scene measured in millimetres: near = 0.001, far/near = 1000
        7 => perspective(1.0, 1.0, 0.001..1.0),
        // the unit of length is arbitrary: near = 2^-27 (7.5e-9) and near = 2^20, far/near = 1000
        8 => perspective(1.0, 1.0, SCALE_TINY..1000.0 * SCALE_TINY),
        9 => perspective(1.0, 1.0, SCALE_HUGE..1000.0 * SCALE_HUGE),
        // extreme focal and aspect ratios (a 174-degree and a 5.7-degree field of view)
        // wide targets: long focal ratios magnify the rounding of a clipped vertex
        13 => perspective(4.0, 1.0, 1.0..1000.0),
        14 => perspective(8.0, 1.0, 1.0..1000.0),
        10 => perspective(0.05, 1.0, 1.0..1000.0),
        11 => perspective(20.0, 3.0, 1.0..1000.0),
        12 => perspective(1.0, 0.02, 1.0..1000.0),
        4 => orthographic(pt3(-1.0, -1.0, -1.0), pt3(1.0, 1.0, 1.0)),
        5 => orthographic(pt3(-1000.0, -1.0, 0.5), pt3(1000.0, 3.0, 1000.0)),
        _ => orthographic(pt3(0.5, -3.0, 1.0), pt3(3.0, -0.5, 2.0)),
    }
}

fn check_safety(t: &[[f32; 3]], sc: SafetyCfg, r: &mut Report) {
    r.eval();
    let case = || obj! {"kind" => "safety", "verts" => J::Arr(t.iter().flatten().map(|x| fbits(*x)).collect()), "proj" => sc.proj, "bw" => sc.bw, "bh" => sc.bh, "vp" => vec![sc.vp.0, sc.vp.1, sc.vp.2, sc.vp.3], "flags" => sc.flags, "sub" => sc.sub};
    let tag = || format!("proj{}|{}x{}vp{:?}|flags{}|{}|{:?}", sc.proj, sc.bw, sc.bh, sc.vp, sc.flags, if sc.sub { "subview" } else { "owned" }, t);
    let verts: Vec<Vtx3> = t.iter().enumerate().map(|(i, p)| vertex(pt3(p[0], p[1], p[2]), [0.0f32, 1.0, 0.25][i % 3])).collect();
    let faces: Vec<Tri<usize>> = (0..t.len() / 3).map(|i| Tri([3 * i, 3 * i + 1, 3 * i + 2])).collect();
    let m = proj_matrix(sc.proj);
    let ctx = ctx_from(sc.flags);
    let (bw, bh) = (sc.bw, sc.bh);
    let vpm = viewport(pt2(sc.vp.0, sc.vp.1)..pt2(sc.vp.2, sc.vp.3));
    let n = (bw * bh) as usize;
    let (pw, ph, ox, oy) = if sc.sub { (bw + 3, bh + 2, 2, 1) } else { (bw, bh, 0, 0) };
    let mut pc: Buf2<u32> = Buf2::new_with((pw, ph), |x, y| 0x7E57_0000 | (y * pw + x));
    let mut pd: Buf2<f32> = Buf2::new_with((pw, ph), |x, y| 1e-9 * (1 + y * pw + x) as f32);
    let res = {
        let mut fb = Framebuf { color_buf: pc.slice_mut((ox..ox + bw, oy..oy + bh)), depth_buf: pd.slice_mut((ox..ox + bw, oy..oy + bh)) };
        caught(|| render(&faces, &verts, &ProjShader, &m, vpm, &mut fb, &ctx))
    };
    if let Err(p) = res {
        let cls = if p.contains("out of range") || p.contains("out of bounds") || p.contains("index") { "index" } else if p.contains("unwrap") { "unwrap" } else if p.contains("overflow") { "overflow" } else { "other" };
        r.violation(format!("render-panic|{cls}|{}", tag()), format!("render panicked: {p}"), case());
        return;
    }
    let _ = n;
    let mut wrote = false;
    for y in 0..ph { for x in 0..pw {
        let (c, d) = (pc[[x, y]], pd[[x, y]]);
        // (a viewport given bottom-up or right-to-left covers the same pixels)
        let (vl, vr, vt, vb) = (sc.vp.0.min(sc.vp.2), sc.vp.0.max(sc.vp.2), sc.vp.1.min(sc.vp.3), sc.vp.1.max(sc.vp.3));
        let inside_vp = x >= ox + vl && x < ox + vr && y >= oy + vt && y < oy + vb;
        let sent = c == (0x7E57_0000 | (y * pw + x)) && d.to_bits() == (1e-9 * (1 + y * pw + x) as f32).to_bits();
        if !sent { wrote = true; }
        if !inside_vp && !sent { r.violation(format!("outside-viewport-written|{}", tag()), format!("cell ({x},{y}) of the {pw}x{ph} buffer lies outside the viewport but was modified (colour {c:#x}, depth {d})"), case()); return; }
        if d.is_nan() { r.violation(format!("nan-depth|{}", tag()), format!("depth buffer holds NaN at ({x},{y})"), case()); return; }
    }}
    if wrote { r.nontrivial(); r.h("drew"); } else { r.h("drew-nothing"); }
}

/// The camera door: Camera::new(dims).viewport(request) with requests that overhang the frame must clamp to the frame -
/// no panic, nothing written outside frame ∩ request.
fn check_safety_camera(t: &[[f32; 3]], dims: (u32, u32), req: (u32, u32, u32, u32), alt: bool, r: &mut Report) {
    use re::render::{Camera, World};
    use re::math::mat::RealToReal;
    r.eval();
    struct CamShader;
    impl<'a> VertexShader<Vertex<Point3<World>, f32>, (&'a Mat4x4<RealToProj<World>>, ())> for CamShader {
        type Output = Vertex<ClipVec, f32>;
        fn shade_vertex(&self, v: Vertex<Point3<World>, f32>, (m, _): (&'a Mat4x4<RealToProj<World>>, ())) -> Self::Output { vertex(m.apply(&v.pos), v.attrib) }
    }
    impl FragmentShader<f32> for CamShader { fn shade_fragment(&self, _: Frag<f32>) -> Option<re::math::color::Color4> { Some(re::math::color::rgba(1, 2, 3, 4)) } }
    let case = || obj! {"kind" => "safety-camera", "verts" => J::Arr(t.iter().flatten().map(|x| fbits(*x)).collect()), "dims" => vec![dims.0, dims.1], "req" => vec![req.0, req.1, req.2, req.3], "alt" => alt};
    let tag = format!("camera|{dims:?}|req{req:?}|{t:?}");
    let verts: Vec<Vertex<Point3<World>, f32>> = t.iter().map(|p| vertex(pt3(p[0], p[1], p[2]), 0.5)).collect();
    // (both builder orders, by parity of the request's origin: mode() then viewport(), and viewport() then mode())
    // requests that do not meet the frame (or have no width or height): the projection is set up before the viewport, or
    // (`alt`) after it - perspective() then has no aspect ratio to work with and may refuse, by its
    // documented assertion; what it may not do is hand over a camera whose render() panics
    let empty = req.0.min(dims.0) >= req.2.min(dims.0) || req.1.min(dims.1) >= req.3.min(dims.1);
    let persp_first = empty && !alt;
    let cam = match caught(|| { let id = Mat4x4::<RealToReal<3, World, View>>::identity(); if persp_first { Camera::new(dims).mode(id).perspective(1.0, 1.0..1000.0).viewport((req.0..req.2, req.1..req.3)) } else if (req.0 + req.1) % 2 == 1 { Camera::new(dims).viewport((req.0..req.2, req.1..req.3)).mode(id).perspective(1.0, 1.0..1000.0) } else { Camera::new(dims).mode(id).viewport((req.0..req.2, req.1..req.3)).perspective(1.0, 1.0..1000.0) } }) { Ok(c) => c, Err(p) if empty && p.contains("aspect ratio") => { r.h("camera-setup:perspective-refuses-empty-viewport"); return; } Err(p) => { r.violation(format!("render-panic|camera-setup|{tag}"), format!("Camera::viewport({req:?}) on a {dims:?} frame panicked: {p}"), case()); return; } };
    let mut fb = Framebuf { color_buf: Buf2::<u32>::new_from(dims, (0..).map(|i| 0x7E57_0000 | i)), depth_buf: Buf2::<f32>::new_from(dims, (0..).map(|i| 1e-9 * (1 + i) as f32)) };
    let to_world: Mat4x4<RealToReal<3, World, World>> = Mat4x4::identity();
    if let Err(p) = caught(|| cam.render([Tri([0, 1, 2])], &verts, &to_world, &CamShader, (), &mut fb, &Context { face_cull: None, ..Context::default() })) { r.violation(format!("render-panic|camera|{tag}"), format!("Camera::render with an overhanging viewport request panicked: {p}"), case()); return; }
    let mut wrote = false;
    for y in 0..dims.1 { for x in 0..dims.0 {
        let i = y * dims.0 + x;
        let sent = fb.color_buf[[x, y]] == (0x7E57_0000 | i) && fb.depth_buf[[x, y]].to_bits() == (1e-9 * (1 + i) as f32).to_bits();
        if !sent { wrote = true; }
        let inside = x >= req.0 && x < req.2 && y >= req.1 && y < req.3;
        if !inside && !sent { r.violation(format!("outside-viewport-written|{tag}"), format!("pixel ({x},{y}) lies outside the requested viewport but was modified"), case()); return; }
        if fb.depth_buf[[x, y]].is_nan() { r.violation(format!("nan-depth|{tag}"), format!("NaN depth at ({x},{y})"), case()); return; }
    }}
    if wrote { r.nontrivial(); r.h("camera-drew"); }
}

fn safety_lattice(quick: bool, far: f32) -> Vec<[f32; 3]> {
    let e = 1.0 + 1.0 / 1048576.0;
    let (xy, z): (Vec<f32>, Vec<f32>) = if quick {
        (vec![0.0, -1.0, 3.0, -1000.0], vec![-1000.0, -1.0, 0.0, 1.0, e, far, 1000.0])
    } else {
        (vec![0.0, 0.5, -0.5, 1.0, -1.0, 3.0, -3.0, 1000.0, -1000.0], vec![-1000.0, -1.0, 0.0, 0.5, 1.0, e, 2.0, far / 2.0, far, far * e, 1000.0])
    };
    let mut v = vec![];
    for &x in &xy { for &y in &xy { for &zz in &z { v.push([x, y, zz]); } } }
    v.sort_by(|a, b| a.partial_cmp(b).unwrap()); v.dedup();
    v
}

fn safety_cfgs() -> Vec<(u32, u32, (u32, u32, u32, u32))> {
    vec![(7, 5, (0, 0, 7, 5)), (1, 1, (0, 0, 1, 1)), (2, 3, (0, 0, 2, 3)), (7, 5, (6, 4, 7, 5)), (7, 5, (2, 1, 5, 4)), (16, 16, (0, 3, 16, 16)), (16, 16, (0, 0, 16, 16)), (7, 5, (0, 0, 1, 1)), (9, 9, (4, 0, 9, 3)),
        // mirrored viewports: bottom-up (the y-up idiom), right-to-left, both
        (7, 5, (0, 5, 7, 0)), (7, 5, (5, 1, 2, 4)), (16, 16, (16, 16, 0, 3))]
}

fn run_safety(cfg: &Cfg) -> ! {
    let quick = cfg.quick();
    let mut rep = Report::new();
    let cfgs = safety_cfgs();
    let nc = cfgs.len() as u64;
    let flagsets = [13u32 + 0, 0 + 0 * 9, 2 + 2 * 3 + 1 * 9, 0 + 36 + 72]; // default-ish (Back cull, Less), no test, front-cull+back-to-front+Less, writes off
    for (pi, far) in [(0u8, 2.0f32), (1, 1000.0), (2, 1000.0), (3, 2.0), (4, 1.0), (5, 1000.0), (6, 2.0), (10, 1000.0), (11, 1000.0), (12, 1000.0)] {
        if quick && (pi == 3 || pi == 6) { continue; }
        let pts = safety_lattice(quick || pi >= 2, far);
        let n = pts.len() as u64;
        rep.set(&format!("lattice_points:proj{pi}"), n);
        rep.merge(par_range(cfg, n * n * n, |i, r| {
            let t = [pts[(i % n) as usize], pts[(i / n % n) as usize], pts[(i / n / n) as usize]];
            let (bw, bh, vp) = cfgs[((i + i / n) % nc) as usize];
            let sc = SafetyCfg { proj: pi, bw, bh, vp, flags: flagsets[(i / 7 % 4) as usize], sub: i % 3 == 0 };
            check_safety(&t, sc, r);
            if i % 5 == 0 { let (bw, bh, vp) = cfgs[((i / 5) % nc) as usize]; check_safety(&t, SafetyCfg { proj: pi, bw, bh, vp, flags: 9, sub: true }, r); }
        }));
    }
    // the same soups in other units of length (every coordinate and near/far scaled by 2^-27 and by 2^20)
    for (pi, sc) in [(8u8, SCALE_TINY), (9, SCALE_HUGE)] {
        let pts: Vec<[f32; 3]> = safety_lattice(true, 1000.0).iter().map(|p| p.map(|c| c * sc)).collect();
        let n = pts.len() as u64;
        rep.set(&format!("lattice_points:proj{pi}"), n);
        let stride = if quick { 3 } else { 1 };
        rep.merge(par_range(cfg, n * n * n / stride, |j, r| {
            let i = j * stride + j % stride;
            let t = [pts[(i % n) as usize], pts[(i / n % n) as usize], pts[(i / n / n) as usize]];
            let (bw, bh, vp) = cfgs[((i + i / n) % nc) as usize];
            check_safety(&t, SafetyCfg { proj: pi, bw, bh, vp, flags: flagsets[(i / 7 % 4) as usize], sub: i % 3 == 0 }, r);
            r.h("rescaled-scene");
        }));
    }
    // scale: one call with 1100 and with 2500 triangles (clipped and unclipped ones mixed), debug assertions armed
    for n in [1100usize, 2500] {
        let pts = safety_lattice(true, 1000.0);
        let t: Vec<[f32; 3]> = (0..3 * n).map(|k| pts[(k * 7919 + k / 3 * 13) % pts.len()]).collect();
        check_safety(&t, SafetyCfg { proj: 1, bw: 16, bh: 16, vp: (0, 3, 16, 16), flags: 0, sub: false }, &mut rep);
        check_safety(&t, SafetyCfg { proj: 5, bw: 7, bh: 5, vp: (2, 1, 5, 4), flags: 13, sub: true }, &mut rep);
        rep.h("thousand-triangle-call");
    }
    // wide targets x far vertices: a vertex just inside the near plane and two vertices hundreds of units away on either side of
    // the eye plane - the edges cross the side planes close to the viewer, where the rounding error of an intersection
    // computed from the far end point (1e-7 of ITS distance) is a sizeable fraction of w; on a target thousands of pixels
    // wide that is most of a pixel
    {
        let mut near_pts: Vec<[f32; 3]> = vec![[0.0, 0.0, 1.05], [1.3862858, -2.1977615, 1.1363802]];
        for sx in [-1.0f32, 1.0] { for sy in [-1.0f32, 1.0] { near_pts.push([0.07658726 * sx, 0.22268659 * sy, 1.1060327]); } }
        let mut far_pts: Vec<[f32; 3]> = vec![[1000.0, 1000.0, 1000.0], [-1000.0, 3.0, -1000.0]];
        for b in [[796.3793f32, 981.8133, 457.11987], [530.47815, 44.172913, -505.40768], [438.91547, 540.42676, 660.78845], [614.0768, 70.73633, -665.72485], [861.4812, 590.69104, 144.27612], [418.86646, 658.664, -201.41888]] { for sx in [-1.0f32, 1.0] { for sy in [-1.0f32, 1.0] { far_pts.push([b[0] * sx, b[1] * sy, b[2]]); } } }
        let (nn, nf) = (near_pts.len() as u64, far_pts.len() as u64);
        let wide = [(13u8, 4096u32, 4u32), (1, 16384, 4), (14, 2048, 6), (13, 6, 4096), (2, 8192, 3)];
        rep.merge(par_range(cfg, nn * nf * nf * 5 * 2, |i, r| {
            let (a, b, c, k, inset) = (i % nn, i / nn % nf, i / nn / nf % nf, (i / nn / nf / nf % 5) as usize, i / nn / nf / nf / 5 == 1);
            if b == c { return; }
            let (proj, bw, bh) = wide[k];
            let t = [far_pts[b as usize], near_pts[a as usize], far_pts[c as usize]];
            // (second pass: the same viewport inset by (16, 2) in a larger target - a vertex beyond the left or top plane then
            // lands on pixels that exist)
            if inset { check_safety(&t, SafetyCfg { proj, bw: bw + 32, bh: bh + 4, vp: (16, 2, 16 + bw, 2 + bh), flags: [0u32, 13, 9][(i % 3) as usize], sub: i % 2 == 1 }, r); r.h("wide-target-far-vertex-scene-inset"); return; }
            check_safety(&t, SafetyCfg { proj, bw, bh, vp: (0, 0, bw, bh), flags: [0u32, 13, 9][(i % 3) as usize], sub: i % 2 == 1 }, r);
            r.h("wide-target-far-vertex-scene");
        }));
    }
    // large targets: tall triangles with a nearly vertical edge that ends exactly on the right (left) border of a 16384 px wide
    // viewport, starting j f32 steps of the NDC coordinate inside it (0.5 .. 3 px): the edge's change per row is of the order
    // of the f32 spacing of its position, so a position stepped by repeated addition rounds the same way a thousand times
    rep.merge(par_range(cfg, 16, |i, r| {
        let j = [500u32, 740, 1000, 1850, 1940, 2500, 3140, 4000][(i % 8) as usize];
        let m = if i / 8 == 0 { 1.0f32 } else { -1.0 };
        let x_top = 1.0 - j as f32 * (2.0f32).powi(-23);
        // (orthographic unit box: view x, y are NDC)
        let t = [[x_top * m, -1.0, 0.0], [(x_top - 0.01) * m, -1.0, 0.0], [1.0 * m, 1.0, 0.0]];
        check_safety(&t, SafetyCfg { proj: 4, bw: 16384, bh: 1200, vp: (0, 0, 16384, 1200), flags: 0, sub: false }, r);
        r.h("large-target-scene");
    }));
    // the camera door with viewport requests that overhang the frame
    {
        let pts = safety_lattice(true, 1000.0);
        let n = pts.len() as u64;
        let reqs = [((7u32, 5u32), (0u32, 0u32, 100u32, 100u32)), ((7, 5), (3, 0, 40, 5)), ((7, 5), (2, 1, 9, 3)), ((5, 7), (0, 3, 4, 30)), ((16, 9), (0, 0, 16, 16)), ((9, 16), (0, 0, 16, 16)),
            // requests without height or width, and requests wholly right of, below, or diagonally off the frame
            ((8, 8), (2, 3, 6, 3)), ((8, 8), (3, 2, 3, 6)), ((8, 8), (10, 2, 20, 6)), ((8, 8), (2, 12, 6, 20)), ((16, 9), (20, 20, 30, 30)), ((8, 8), (8, 0, 9, 8))];
        rep.merge(par_range(cfg, n * n * n / if quick { 7 } else { 1 }, |j, r| {
            let i = if quick { j * 7 + j % 7 } else { j };
            let t = [pts[(i % n) as usize], pts[(i / n % n) as usize], pts[((i / n / n) % n) as usize]];
            let (dims, req) = reqs[(i % 12) as usize];
            check_safety_camera(&t, dims, req, i / 12 % 2 == 1, r);
        }));
    }
    // a millimetre-scale scene (near 0.001) on wide and tall targets: vertices a few 1e-7 outside the side planes in
    // absolute clip coordinates are most of a pixel outside at this scale and width
    {
        let mut pts: Vec<[f32; 3]> = vec![];
        for z in [0.0015f32, 0.004, 0.1, 0.95] { for x in [0.0f32, 0.5, -0.5, 1.0006, -1.0006, 1.0003, -0.9] { for y in [0.0f32, 0.4, -1.0006, 1.0003] { pts.push([x * z, y * z, z]); } } }
        let n = pts.len() as u64;
        let wide = [(2056u32, 3u32, (0u32, 0u32, 2048u32, 3u32)), (2056, 3, (8, 0, 2056, 3)), (3, 2056, (0, 0, 3, 2048)), (3, 2056, (0, 8, 3, 2056)), (2048, 2, (0, 0, 2048, 2))];
        rep.set("millimetre_scene_points", n);
        rep.merge(par_range(cfg, n * n * n / if quick { 5 } else { 1 }, |j, r| {
            let i = if quick { j * 5 + j % 5 } else { j };
            let t = [pts[(i % n) as usize], pts[(i / n % n) as usize], pts[((i / n / n) % n) as usize]];
            let (bw, bh, vp) = wide[(i % 5) as usize];
            check_safety(&t, SafetyCfg { proj: 7, bw, bh, vp, flags: [13u32, 0, 9][(i / 5 % 3) as usize], sub: i % 2 == 0 }, r);
            r.h("millimetre-scene");
        }));
    }
    // full 144 flag combinations x 256-scene core set (soups of 1-3 triangles incl. coincident and degenerate ones)
    let core = safety_lattice(true, 2.0);
    let cn = core.len() as u64;
    rep.merge(par_range(cfg, 256 * 144, |i, r| {
        let (s, flags) = (i % 256, (i / 256) as u32);
        let k = s.wrapping_mul(2654435761) % (cn * cn * cn);
        let a = [core[(k % cn) as usize], core[(k / cn % cn) as usize], core[(k / cn / cn) as usize]];
        let mut soup = a.to_vec();
        if s % 3 >= 1 { soup.extend(a); } // coincident triangle
        if s % 3 == 2 { soup.extend([a[0], a[0], a[1]]); } // degenerate
        let (bw, bh, vp) = cfgs[(s % nc) as usize];
        for proj in [0u8, 1, 4] { check_safety(&soup, SafetyCfg { proj, bw, bh, vp, flags, sub: s % 2 == 0 }, r); }
    }));
    // sub-pixel and huge triangles around every lattice point
    let pts = safety_lattice(true, 2.0);
    rep.merge(par_range(cfg, pts.len() as u64 * 14 * 3, |i, r| {
        let p = pts[(i as usize / 42) % pts.len()];
        let k = (i % 14) as i32;
        let d = (2.0f32).powi(-4 - k);
        let t = [p, [p[0] + d, p[1], p[2]], [p[0], p[1] + d, p[2] + if k % 2 == 0 { d } else { 0.0 }]];
        let (bw, bh, vp) = cfgs[(i % nc) as usize];
        check_safety(&t, SafetyCfg { proj: [0u8, 1, 4][(i / 14 % 3) as usize], bw, bh, vp, flags: [13, 0, 9][(i % 3) as usize], sub: true }, r);
    }));
    // tessellated walls (2 x nx x ny triangles) at small tilts: many primitives with (nearly) equal depth keys,
    // through every depth_sort / cull / test combination
    let tilts = [0.0f32, 1e-6, 2e-5, 3e-4, 1e-3, 0.02, 0.3, 1.0];
    rep.merge(par_range(cfg, tilts.len() as u64 * tilts.len() as u64 * 3 * 36 * 3, |i, r| {
        let nt = tilts.len() as u64;
        let (tx, ty, g, fl, pj) = (tilts[(i % nt) as usize], tilts[(i / nt % nt) as usize], i / nt / nt % 3, (i / nt / nt / 3 % 36) as u32, i / nt / nt / 108);
        let (nx, ny) = [(2usize, 2usize), (5, 3), (6, 6)][g as usize];
        let mut soup = vec![];
        let p = |ix: usize, iy: usize| -> [f32; 3] { let (x, y) = (ix as f32 / nx as f32 * 2.4 - 1.2, iy as f32 / ny as f32 * 2.4 - 1.2); [x, y, 1.5 + tx * x + ty * y] };
        for iy in 0..ny { for ix in 0..nx { soup.extend([p(ix, iy), p(ix + 1, iy), p(ix + 1, iy + 1), p(ix, iy), p(ix + 1, iy + 1), p(ix, iy + 1)]); } }
        let (bw, bh, vp) = cfgs[(i % nc) as usize];
        check_safety(&soup, SafetyCfg { proj: [0u8, 1, 4][pj as usize], bw, bh, vp, flags: fl, sub: i % 2 == 0 }, r);
    }));
    rep.sample(0, || obj! {"view_space_triangle" => vec![vec![-1000.0f32, 3.0, 1.0], vec![0.0, 0.0, 0.0], vec![3.0, -1.0, 1000.0]], "projection" => "perspective(1,1,1..1000)", "buffer" => "7x5 sub-view, viewport (2,1)..(5,4)", "flags" => "cull Back, test Less"});
    rep.finish(cfg, "exploration",
        "view-space triangle soups: every ordered vertex triple (repeats included: degenerate and zero-area triangles) over an adversarial lattice in units of near (0, +-0.5, +-1, +-3, +-1000; z behind the eye, 0, on near, near(1+2^-20), far/2, far, far(1+2^-20), 1000) through the library's own perspective (far/near 2 and 1000; also the far/near 1000 soups with every length scaled by 2^-27 and by 2^20; also a millimetre-scale scene with near 0.001 on 2048-pixel wide/tall targets; also through Camera::render with viewport requests that overhang the frame; focal 0.05 .. 20, aspect 0.02 .. 3) and orthographic matrices and viewport(), into buffers 1x1..16x16 with full, 1x1, interior and edge-touching viewports, owned and strided sub-view targets, with 4 Context flag sets by rotation; plus all 144 flag combinations x 256 soups of 1-3 (coincident / degenerate) triangles x 3 projections, sub-pixel triangles of size 2^-4..2^-17 at every lattice point, and tessellated walls of 8/30/72 triangles at tilts 0..1 (many nearly equal depth keys) under 36 cull/sort/test combinations. Oracle: no panic, every cell outside the viewport (incl. the enclosing parent buffers) keeps its sentinel, no NaN in the depth buffer. non-trivial = the scene wrote at least one cell.",
        &["|coordinate| <= 1000 x near, far/near <= 1000", "clip-space origin unreachable through these matrices (see DESIGN C02)"]);
}

// ------------------------------------------------------------------ C06 (explicit-state)

/// One scene of n triangles: explore every history of render() calls that submits each triangle exactly once.
fn explore_order(scene: &Scene, r: &mut Report, scene_id: u64, discard: Discard) { explore_order_cull(scene, r, scene_id, discard, None) }

/// `cull`: the face-culling mode of every call of the exploration (and of the solo renders that serve as its oracle): which
/// triangles are drawn may depend on it, but not on the depth-sort setting, the order or the partition.
fn explore_order_cull(scene: &Scene, r: &mut Report, scene_id: u64, discard: Discard, cull: Option<FaceCull>) {
    let ctx_plain = || Context { face_cull: cull, ..Context::default() };
    let n = scene.tris.len();
    let sorts = [None, Some(DepthSort::FrontToBack), Some(DepthSort::BackToFront)];
    let px = (scene.bw * scene.bh) as usize;
    let case = |hist: &Vec<(Vec<usize>, usize)>| obj! {"kind" => "order", "discard" => format!("{discard:?}"), "scene" => scene_json(scene), "history" => J::Arr(hist.iter().map(|(o, s)| obj! {"tris" => o.clone(), "sort" => *s}).collect())};
    // per-triangle solo renders: coverage and depth (differential oracle)
    let mut solo: Vec<(Vec<u32>, Vec<f32>)> = vec![];
    for i in 0..n {
        match render_scene(scene, Some(&[i]), Door::Render, TargetKind::Owned, &ctx_plain(), discard, None) {
            Ok(o) => solo.push((o.color, o.depth.unwrap())),
            Err(p) => { r.violation(format!("render-panic|{}", short(scene)), p, case(&vec![(vec![i], 0)])); return; }
        }
    }
    let covered = |i: usize, p: usize| solo[i].0[p] != color_sentinel(p);
    // reference reciprocal depth of each triangle at each pixel centre (f64 projective solve, independent of the renderer):
    // which fragment is "nearest" - and whether two are tied - is decided by geometry, not by what the solo renders stored
    let refz: Vec<Vec<Option<f64>>> = (0..px).map(|p| { let (c, _) = candidates(scene, (p as u32 % scene.bw) as f64 + 0.5, (p as u32 / scene.bw) as f64 + 0.5); (0..n).map(|i| c.iter().find(|x| x.0 == i).map(|x| x.2)).collect() }).collect();
    // expected buffers for a set of submitted triangles; None where an exact depth tie makes the winner undefined
    let expected = |mask: u32| -> Vec<Option<(u32, u32)>> {
        (0..px).map(|p| {
            let mut best: Option<(f64, usize)> = None; let mut tie = false;
            for i in 0..n { if mask >> i & 1 == 1 && covered(i, p) {
                // (pixels a triangle covers only by edge/clip rounding have no reference depth: fall back on the stored one)
                let (z, sz) = (refz[p][i].unwrap_or(solo[i].1[p] as f64), solo[i].1[p]);
                match best {
                    None => best = Some((z, i)),
                    Some((bz, bi)) => {
                        // clear cases (> 1e-5 relative apart) are decided by geometry; close calls by the stored f32 depths,
                        // which is what a correct depth test compares - exactly equal stored depths are a tie
                        let clear = refz[p][i].is_some() && refz[p][bi].is_some() && (z - bz).abs() > 1e-5 * z.abs().max(bz.abs());
                        let nearer = if clear { z > bz } else { sz > solo[bi].1[p] };
                        if !clear && sz == solo[bi].1[p] { tie = true; } else if nearer { best = Some((z, i)); tie = false; }
                    }
                }
            } }
            if tie { None } else { Some(match best { None => (color_sentinel(p), depth_sentinel(p).to_bits()), Some((_, i)) => (solo[i].0[p], solo[i].1[p].to_bits()) }) }
        }).collect()
    };
    let overlap = (0..px).filter(|&p| (0..n).filter(|&i| covered(i, p)).count() >= 2).count();
    if overlap > 0 { r.h("scenes-with-overlap"); } else { r.h("scenes-without-overlap"); }
    // BFS over states (mask, colour, depth)
    type St = (u32, Vec<u32>, Vec<u32>);
    let init: St = (0, (0..px).map(color_sentinel).collect(), (0..px).map(|p| depth_sentinel(p).to_bits()).collect());
    let mut seen: HashSet<St> = HashSet::new();
    seen.insert(init.clone());
    let mut queue: VecDeque<(St, Vec<(Vec<usize>, usize)>)> = VecDeque::from([(init, vec![])]);
    let mut terminals: HashSet<(Vec<u32>, Vec<u32>)> = HashSet::new();
    while let Some((st, hist)) = queue.pop_front() {
        r.states += 1;
        let full = (1u32 << n) - 1;
        if st.0 == full { terminals.insert((st.1.clone(), st.2.clone())); continue; }
        let rest: Vec<usize> = (0..n).filter(|i| st.0 >> i & 1 == 0).collect();
        // every non-empty ordered subset of the remaining triangles
        let mut subsets: Vec<Vec<usize>> = vec![];
        fn perms(rest: &[usize], cur: &mut Vec<usize>, out: &mut Vec<Vec<usize>>) { if !cur.is_empty() { out.push(cur.clone()); } for &x in rest { if !cur.contains(&x) { cur.push(x); perms(rest, cur, out); cur.pop(); } } }
        perms(&rest, &mut vec![], &mut subsets);
        for sub in subsets { for (si, sort) in sorts.iter().enumerate() {
            let ctx = Context { depth_sort: *sort, ..ctx_plain() };
            let depth_f: Vec<f32> = st.2.iter().map(|b| f32::from_bits(*b)).collect();
            let out = match render_scene(scene, Some(&sub), Door::Render, TargetKind::Owned, &ctx, discard, Some((&st.1, &depth_f))) {
                Ok(o) => o,
                Err(p) => { let mut h = hist.clone(); h.push((sub.clone(), si)); r.violation(format!("render-panic|{}", short(scene)), p, case(&h)); return; }
            };
            r.transitions += 1; r.eval();
            let mask = sub.iter().fold(st.0, |m, i| m | 1 << i);
            let nd: Vec<u32> = out.depth.unwrap().iter().map(|d| d.to_bits()).collect();
            let exp = expected(mask);
            let mut h = hist.clone(); h.push((sub.clone(), si));
            for p in 0..px {
                if let Some((ec, ed)) = exp[p] {
                    if out.color[p] != ec || nd[p] != ed {
                        let kind = if sub.len() > 1 && si > 0 { "sorted-call" } else if hist.is_empty() && sub.len() == n { "single-call" } else { "split-calls" };
                        r.violation(format!("order-dependence|{kind}|{discard:?}|scene{scene_id}|{}", short(scene)), format!("after history {h:?} pixel {p} holds colour {:#x} depth {} but the nearest submitted fragment there has colour {ec:#x} depth {}", out.color[p], f32::from_bits(nd[p]), f32::from_bits(ed)), case(&h));
                        return;
                    }
                }
            }
            // canonical state: exempt (tied) pixels normalised so that they cannot split states
            let key: St = (mask, out.color.iter().enumerate().map(|(p, c)| if exp[p].is_some() { *c } else { 0 }).collect(), nd.iter().enumerate().map(|(p, d)| if exp[p].is_some() { *d } else { 0 }).collect());
            if seen.insert(key) { queue.push_back(((mask, out.color.clone(), nd), h)); }
        }}
    }
    if terminals.len() > 1 { r.h("multiple-terminal-buffers(tied pixels only)"); }
    // second clause: depth test off + back-to-front sort == depth-buffered image when depth ranges are disjoint
    // depth range of each triangle's visible part (triangles of which nothing is visible constrain nothing)
    let zr: Vec<Option<(f64, f64)>> = scene.tris.iter().map(|t| visible_screen_polygon(&t.v, scene.vp).map(|x| x.1)).collect();
    let disjoint = (0..n).all(|i| (0..n).all(|j| i == j || match (zr[i], zr[j]) { (Some(a), Some(b)) => {
        // (layers of constant depth are disjoint as soon as their depths differ - by an ulp, if that is all; ranges of tilted
        // triangles, which the sort key only summarises, must be clear of each other by 1e-4)
        if a.0 == a.1 && b.0 == b.1 { a.1 != b.0 } else { a.1 < b.0 * 0.9999 || b.1 < a.0 * 0.9999 } }, _ => true }));
    if disjoint {
        r.eval();
        let ctx = Context { depth_test: None, depth_sort: Some(DepthSort::BackToFront), ..ctx_plain() };
        // (both submission orders: a sort that leaves ties in submission order is only exposed by one of them)
        for all in [(0..n).rev().collect::<Vec<usize>>(), (0..n).collect::<Vec<usize>>()] {
        if let (Ok(a), Ok(b)) = (render_scene(scene, Some(&all), Door::Render, TargetKind::Owned, &ctx, discard, None), render_scene(scene, None, Door::Render, TargetKind::Owned, &ctx_plain(), discard, None)) {
            r.transitions += 1;
            let full = expected((1 << n) - 1);
            if (0..px).any(|p| full[p].is_some() && a.color[p] != b.color[p]) {
                let p = (0..px).find(|&p| full[p].is_some() && a.color[p] != b.color[p]).unwrap();
                r.violation(format!("painter|scene{scene_id}|{}", short(scene)), format!("depth test off + BackToFront differs from the depth-buffered image at pixel {p}: {:#x} vs {:#x}", a.color[p], b.color[p]), obj! {"kind" => "painter", "scene" => scene_json(scene)});
            } else if let Some(p) = (0..px).find(|&p| full[p].is_some() && a.depth.as_ref().unwrap()[p].to_bits() != b.depth.as_ref().unwrap()[p].to_bits()) {
                // the depth buffer too: with the test off every fragment passes and, depth writes being on, leaves its depth -
                // painted back to front, the last one at each pixel is the nearest
                r.violation(format!("painter|depth-buffer|scene{scene_id}|{}", short(scene)), format!("depth test off + BackToFront (depth writes on) leaves depth {:e} at pixel {p}, the depth-buffered pass {:e}", a.depth.as_ref().unwrap()[p], b.depth.as_ref().unwrap()[p]), obj! {"kind" => "painter", "scene" => scene_json(scene)});
            } else { r.h("painter-clause-checked"); }
        }
        }
    }
    r.nontrivial += (overlap > 0) as u64;
}

/// A depth-only pass (colour writes off) followed by a colour pass is the two-pass way of getting "each pixel ends with the
/// nearest fragment covering it": the depth buffer a depth-only pass leaves - under every depth-sort setting, with and without
/// a discarding shader - is the one the ordinary pass leaves, the colour buffer is untouched, and a colour pass over it with
/// the test `Equal` then paints exactly the image of the ordinary pass.
fn check_depth_prepass(scene: &Scene, scene_id: u64, r: &mut Report) {
    let px = (scene.bw * scene.bh) as usize;
    for discard in [Discard::Never, Discard::Parity] { for (si, sort) in [None, Some(DepthSort::FrontToBack), Some(DepthSort::BackToFront)].into_iter().enumerate() {
        r.eval();
        let case = || obj! {"kind" => "prepass", "scene" => scene_json(scene), "id" => scene_id};
        let tag = format!("{discard:?}|sort{si}|scene{scene_id}|{}", short(scene));
        let plain = Context { depth_sort: sort, ..ctx_plain() };
        let pre = Context { color_write: false, ..plain.clone() };
        let (a, b) = match (render_scene(scene, None, Door::Render, TargetKind::Owned, &pre, discard, None), render_scene(scene, None, Door::Render, TargetKind::Owned, &plain, discard, None)) { (Ok(a), Ok(b)) => (a, b), _ => { r.violation(format!("render-panic|prepass|{tag}"), "render panicked".into(), case()); return; } };
        if let Some(p) = (0..px).find(|&p| a.color[p] != color_sentinel(p)) { r.violation(format!("order-dependence|prepass-colour|{tag}"), format!("depth-only pass (colour writes off) modified the colour of pixel {p}"), case()); return; }
        let (ad, bd) = (a.depth.as_ref().unwrap(), b.depth.as_ref().unwrap());
        if let Some(p) = (0..px).find(|&p| ad[p].to_bits() != bd[p].to_bits()) { r.violation(format!("order-dependence|prepass-depth|{tag}"), format!("after a depth-only pass (colour writes off) pixel {p} holds depth {:e}, after the ordinary pass {:e}: it is not the nearest fragment covering the pixel", ad[p], bd[p]), case()); return; }
        // colour pass over the pre-pass depth: test Equal, depth writes off
        let eq = Context { depth_test: Some(Ordering::Equal), depth_write: false, depth_sort: sort, ..ctx_plain() };
        if let Ok(c) = render_scene(scene, None, Door::Render, TargetKind::Owned, &eq, discard, Some((&a.color, ad))) {
            // (exact depth ties between different triangles make the Equal pass paint the last of them: exempt pixels whose
            // colour differs only for that reason - those where two triangles store the same depth)
            if let Some(p) = (0..px).find(|&p| c.color[p] != b.color[p] && !(0..scene.tris.len()).filter(|&k| render_scene(scene, Some(&[k]), Door::Render, TargetKind::Owned, &plain, discard, None).map_or(false, |o| o.depth.unwrap()[p].to_bits() == bd[p].to_bits() && o.color[p] != color_sentinel(p))).nth(1).is_some()) {
                r.violation(format!("order-dependence|prepass-colour-pass|{tag}"), format!("depth-only pass, then a colour pass with the test Equal: pixel {p} holds {:#x}, the ordinary pass gives {:#x}", c.color[p], b.color[p]), case()); return;
            }
        }
        r.nontrivial();
    }}
}

/// The first clause under the library's orthographic projection: overlapping triangles at different view depths, projected with
/// orthographic(), in both submission orders - each pixel of the overlap ends with the nearer one.
/// Nearest-fragment clause at scale, judged by the independent f64 reference instead of solo renders (which share any
/// interpolation error with the joint render): two coincident tall triangles in strong perspective (1/w from 8 at the
/// apex to 0.002 along edges several hundred rows long), the second 1.5 % farther everywhere; in both submission orders
/// every unambiguous interior pixel must end with the nearer one.
fn check_tall_perspective(i: u64, r: &mut Report) {
    r.eval();
    let h = [600u32, 1000][(i % 2) as usize];
    let (sx, sy) = (if i / 2 % 2 == 0 { 1.0f32 } else { -1.0 }, if i / 4 % 2 == 0 { 1.0f32 } else { -1.0 });
    let door = [Door::Render, Door::Batch][(i / 8 % 2) as usize];
    let ndc = [[-0.8f32 * sx, -0.98 * sy], [-0.8 * sx, 0.98 * sy], [0.8 * sx, 0.98 * sy]];
    let ws = [0.125f32, 500.0, 500.0];
    let mk = |s: f32, a: [f32; 3]| STri { v: std::array::from_fn(|k| [ndc[k][0] * ws[k] * s, ndc[k][1] * ws[k] * s, 0.0, ws[k] * s]), a };
    // the rival: i < 16: the same triangle 1.5 % farther; otherwise a constant-depth triangle over the same footprint whose
    // 1/w is aimed 0.5 % or 1 % below or above the tall triangle's smallest 1/w at an interior pixel centre (f64 reference)
    let rival = if i < 16 { mk(1.015, [0.7, 0.8, 0.9]) } else {
        let solo = Scene { tris: vec![mk(1.0, [0.1, 0.2, 0.3])], bw: 8, bh: h, vp: (0, 0, 8, h) };
        let so = Oracle::new(&solo);
        let mut least = f64::MAX;
        for j in 0..h { for x in 0..8u32 { if let Truth::Inside { invw, .. } = so.pixel(x, j) { least = least.min(invw); } } }
        let wc = (1.0 / (least * [0.995f64, 1.005, 0.99, 1.01][(i / 16 - 1) as usize % 4])) as f32;
        STri { v: std::array::from_fn(|k| [ndc[k][0] * wc, ndc[k][1] * wc, 0.0, wc]), a: [0.7, 0.8, 0.9] } };
    let sc = Scene { tris: vec![mk(1.0, [0.1, 0.2, 0.3]), rival], bw: 8, bh: h, vp: (0, 0, 8, h) };
    let case = || obj! {"kind" => "tall-perspective", "i" => i};
    let tag = format!("{h} rows|rival {}|apex {}{}|{door:?}", i / 16, if sy > 0.0 { "first" } else { "last" }, if sx > 0.0 { " left" } else { " right" });
    let orc = Oracle::new(&sc);
    let mut judged = 0;
    for order in [[0usize, 1], [1, 0]] {
        let out = match render_scene(&sc, Some(&order), door, TargetKind::Owned, &ctx_plain(), Discard::Never, None) { Ok(o) => o, Err(p) => { r.violation(format!("render-panic|tall-perspective|{tag}"), p, case()); return; } };
        for j in 0..h { for x in 0..8u32 {
            if let Truth::Inside { tri, .. } = orc.pixel(x, j) {
                let idx = (j * 8 + x) as usize;
                if out.color[idx] == color_sentinel(idx) { continue; } // coverage is C01's business
                judged += 1;
                let got = unpack(out.color[idx]);
                // judged where the two surfaces are at least 0.3 % apart in the f64 reference (the statement's tie band is 0.1 %)
                let (cands, _) = candidates(&sc, x as f64 + 0.5, j as f64 + 0.5);
                if cands.len() == 2 && (cands[0].2 - cands[1].2).abs() < 0.003 * cands[0].2.max(cands[1].2) { judged -= 1; continue; }
                if cands.len() == 2 && tri == 1 && got < 0.5 { r.violation(format!("nearest|tall-perspective|rival {}|{tag}|order {order:?}", i / 16), format!("pixel ({x},{j}): the tall triangle won (attribute {got}) although the constant-depth one is more than 0.3 % nearer there, order {order:?}"), case()); return; }
                if tri == 0 && got > 0.5 { r.violation(format!("nearest|tall-perspective|{tag}|order {order:?}"), format!("pixel ({x},{j}): the triangle 1.5 % farther away won (attribute {got}) when submitted in order {order:?}"), case()); return; }
            }
        }}
    }
    if judged > 0 { r.nontrivial(); }
}

fn check_ortho_depth(i: u64, r: &mut Report) {
    r.eval();
    let m = orthographic(pt3(-1.0, -1.0, 1.0), pt3(1.0, 1.0, 10.0));
    let depths = [(2.0f32, 5.0f32), (1.5, 9.0), (3.0, 3.5), (5.0, 2.0)][(i % 4) as usize];
    let foot = [[[-0.9f32, -0.9], [0.9, -0.8], [-0.1, 0.9]], [[-0.7, 0.8], [0.8, 0.7], [0.0, -0.9]], [[-0.9, -0.2], [0.9, -0.3], [0.9, 0.6]]];
    let (fa, fb) = (foot[(i / 4 % 3) as usize], foot[((i / 4 + 1) % 3) as usize]);
    let mk = |xy: [[f32; 2]; 3], z: f32, a: f32| STri { v: std::array::from_fn(|k| m.apply(&pt3(xy[k][0], xy[k][1], z)).0), a: [a, a + 0.01, a + 0.02] };
    let sc = Scene { tris: vec![mk(fa, depths.0, 0.2), mk(fb, depths.1, 0.7)], bw: 8, bh: 8, vp: (0, 0, 8, 8) };
    let case = || obj! {"kind" => "ortho-depth", "i" => i};
    let tag = format!("view depths {} and {}|footprints {}", depths.0, depths.1, i / 4 % 3);
    let run = |o: &[usize]| render_scene(&sc, Some(o), Door::Render, TargetKind::Owned, &ctx_plain(), Discard::Never, None);
    let (Ok(ab), Ok(ba), Ok(a), Ok(b)) = (run(&[0, 1]), run(&[1, 0]), run(&[0]), run(&[1])) else { r.violation(format!("render-panic|orthographic|{tag}"), "render panicked".into(), case()); return; };
    let near = if depths.0 < depths.1 { &a } else { &b };
    let both: Vec<usize> = (0..64).filter(|&p| a.color[p] != color_sentinel(p) && b.color[p] != color_sentinel(p)).collect();
    if both.is_empty() { r.h("ortho-depth:no-overlap"); return; }
    let wrong = |o: &Rendered| both.iter().filter(|&&p| o.color[p] != near.color[p]).count();
    let (w1, w2) = (wrong(&ab), wrong(&ba));
    if w1 + w2 > 0 || ab.color != ba.color {
        r.violation(format!("order-dependence|orthographic|{tag}"), format!("two overlapping triangles at view depths {} and {} under orthographic(): of the {} pixels both cover, {} (submitted near-first: {}) do not show the nearer one; the two submission orders differ in {} pixels", depths.0, depths.1, both.len(), w2.max(w1), if depths.0 < depths.1 { w1 } else { w2 }, (0..64).filter(|&p| ab.color[p] != ba.color[p]).count()), case());
        return;
    }
    r.nontrivial();
}

fn order_pool() -> Vec<STri> {
    // Triangles given by NDC footprint and view depth w per vertex, turned into clip space with a real
    // perspective depth mapping (near 0.1, far 10), so that 1/w (depth buffer) and clip z (depth sort) agree.
    let (e22, e23) = (10.1f32 / 9.9, -2.0f32 / 9.9);
    let mk = |xy: [[f32; 2]; 3], w: [f32; 3], a: f32| STri { v: std::array::from_fn(|k| [xy[k][0] * w[k], xy[k][1] * w[k], e22 * w[k] + e23, w[k]]), a: [a, a + 0.01, a + 0.02] };
    let f0 = [[-0.9, -0.9], [0.9, -0.8], [-0.1, 0.9]];
    let f1 = [[-0.7, 0.8], [0.8, 0.7], [0.0, -0.9]];
    vec![
        // flat layers at distinct depths with different footprints
        mk(f0, [1.0; 3], 0.1),
        mk(f1, [2.0; 3], 0.2),
        mk([[-0.9, -0.2], [0.9, -0.3], [0.9, 0.6]], [3.0; 3], 0.3),
        // very near layer: summed clip z is negative (w < 0.198)
        mk([[-0.5, -0.9], [0.7, 0.2], [-0.8, 0.7]], [0.15; 3], 0.4),
        // same footprint as #0 at another depth
        mk(f0, [4.0; 3], 0.5),
        // interpenetrating pair: depth varies across the triangle and the order flips inside the overlap
        mk([[-0.9, -0.5], [0.9, -0.5], [0.0, 0.9]], [0.5, 6.0, 2.0], 0.6),
        mk([[-0.9, 0.5], [0.9, 0.5], [0.0, -0.9]], [6.0, 0.5, 2.0], 0.7),
        // partially clipped by the near plane (one vertex at w < near) and by the side planes
        mk([[-1.0, -1.0], [1.5, -0.5], [0.0, 1.2]], [2.0, 1.5, 0.05], 0.8),
        mk([[-1.5, 0.5], [1.0, 1.0], [0.5, -1.5]], [1.0, 1.0, 2.0], 0.9),
        mk([[0.2, 0.2], [0.9, 0.3], [0.5, 0.9]], [1.25; 3], 0.15),
        // culled away completely (outside the right plane)
        mk([[1.5, 0.0], [2.5, 0.5], [2.0, -0.5]], [1.0; 3], 0.25),
        // reversed winding of #1 at yet another depth
        mk([f1[0], f1[2], f1[1]], [2.5; 3], 0.35),
        mk([[-0.3, -0.3], [0.4, -0.2], [0.1, 0.5]], [5.0, 0.3, 1.0], 0.45),
        // far backdrop
        mk([[-0.95, -0.95], [0.95, -0.95], [0.0, 0.95]], [8.0; 3], 0.55),
        // a near triangle far off the view axis and a slightly farther one on the axis, overlapping around (0.3, 0.3):
        // nearer by depth, but farther from the eye by Euclidean distance
        mk([[0.2, 0.2], [1.0, 0.3], [0.4, 1.0]], [1.0; 3], 0.65),
        mk([[-0.3, -0.3], [0.6, -0.2], [0.3, 0.6]], [1.2; 3], 0.75),
        // a layer two ulps behind #0 on the same footprint: depths differ in the last bits only, yet are not equal
        mk(f0, [1.0000002; 3], 0.85),
        // needs clipping (no frustum plane has all three vertices outside) but nothing of it is visible: past the top-right corner
        mk([[1.8, 0.5], [0.5, 1.8], [2.0, 2.0]], [1.5; 3], 0.95),
        // a ground triangle reaching behind the viewer (two vertices at w = -5): its visible part starts at w = 1.05
        STri { v: [[-3.0, -1.05, e22 * -5.0 + e23, -5.0], [3.0, -1.05, e22 * -5.0 + e23, -5.0], [0.0, -1.05, e22 * 3.0 + e23, 3.0]], a: [0.05, 0.06, 0.07] },
        // two layers with exactly the same constant colour (attribute 0 everywhere), in front of and behind #1/#2:
        // a write that is skipped because "the colour is already there" must still update depth
        STri { a: [0.0; 3], ..mk(f0, [1.5; 3], 0.0) },
        STri { a: [0.0; 3], ..mk([[-0.8, -0.9], [0.9, -0.6], [-0.2, 0.9]], [3.5; 3], 0.0) },
        // layers 0.03 % behind #0 and behind #3 (the very near one): disjoint depth ranges whose summed clip z differs by
        // less than 1/256 - a depth sort with a coarse key leaves them in submission order
        mk(f0, [1.0003; 3], 0.33),
        mk([[-0.5, -0.9], [0.7, 0.2], [-0.8, 0.7]], [0.15005; 3], 0.44),
    ]
}

/// Scenes aimed at the resolution of the depth test: a tilted triangle and a flat one whose stored reciprocal depth at one
/// chosen pixel is the bit-neighbour (one ulp nearer or farther) of the tilted triangle's there - no exact tie, so the
/// nearer one must win in every history. (Depths more than an ulp apart never expose a test that loses resolution.)
fn check_order_ulp(i: u64, r: &mut Report) {
    let tilt = [[1.0f32, 3.0, 2.0], [2.0, 1.0, 1.5], [0.7, 0.9, 1.3], [5.0, 3.0, 9.0], [0.3, 0.45, 0.6]][(i % 5) as usize];
    let delta: i32 = [1, -1][(i / 5 % 2) as usize];
    let p = (i / 10) as usize; // pixel of the 8x8 frame
    let corners = [[-1.0f32, -1.0], [1.0, -1.0], [-1.0, 1.0]];
    let tri = |w: [f32; 3], a: [f32; 3]| STri { v: std::array::from_fn(|k| [corners[k][0] * w[k], corners[k][1] * w[k], 0.5 * w[k], w[k]]), a };
    let t = tri(tilt, PERMS[0]);
    let solo_scene = Scene { tris: vec![t.clone()], bw: 8, bh: 8, vp: (0, 0, 8, 8) };
    let o = match render_scene(&solo_scene, None, Door::Render, TargetKind::Owned, &ctx_plain(), Discard::Never, None) { Ok(o) => o, Err(p) => { r.violation(format!("render-panic|ulp-aimed|{}", short(&solo_scene)), p, obj! {"kind" => "order-ulp", "i" => i}); return; } };
    if o.color[p] == color_sentinel(p) { r.h("ulp-aimed:pixel-not-covered"); return; }
    let d = o.depth.unwrap()[p];
    let want = f32::from_bits((d.to_bits() as i32 + delta) as u32);
    let w0 = 1.0 / want;
    let Some(wf) = (-4i32..=4).map(|k| f32::from_bits((w0.to_bits() as i32 + k) as u32)).find(|w| 1.0 / *w == want) else { r.h("ulp-aimed:no-flat-w-reaches-the-neighbour"); return; };
    let f = tri([wf; 3], PERMS[3]);
    let sc = Scene { tris: vec![t, f], bw: 8, bh: 8, vp: (0, 0, 8, 8) };
    // the flat triangle must really store the neighbouring value at that pixel for the scene to be on target
    match render_scene(&sc, Some(&[1]), Door::Render, TargetKind::Owned, &ctx_plain(), Discard::Never, None) {
        Ok(of) if of.color[p] != color_sentinel(p) && of.depth.as_ref().unwrap()[p].to_bits() == want.to_bits() => { r.h(if delta > 0 { "ulp-aimed:flat-one-ulp-nearer" } else { "ulp-aimed:flat-one-ulp-farther" }); r.nontrivial(); }
        _ => { r.h("ulp-aimed:flat-depth-off-target"); }
    }
    explore_order(&sc, r, 1_000_000 + i, Discard::Never);
}

/// Layers far from the viewer relative to the near plane (near 0.1, far 1000; view depths 500 and 900) whose depth gaps
/// (0.07 .. 0.4) are small next to their distance: disjoint depth ranges all the same, distinct clip z and distinct 1/w.
fn far_pool() -> Vec<STri> {
    let (e22, e23) = (1000.1f32 / 999.9, -200.0f32 / 999.9);
    let mk = |xy: [[f32; 2]; 3], w: f32, a: f32| STri { v: std::array::from_fn(|k| [xy[k][0] * w, xy[k][1] * w, e22 * w + e23, w]), a: [a, a + 0.01, a + 0.02] };
    let f0 = [[-0.9, -0.9], [0.9, -0.8], [-0.1, 0.9]];
    let f1 = [[-0.7, 0.8], [0.8, 0.7], [0.0, -0.9]];
    let f2 = [[-0.9, -0.2], [0.9, -0.3], [0.9, 0.6]];
    vec![mk(f0, 900.0, 0.1), mk(f1, 900.2, 0.3), mk(f2, 900.4, 0.5), mk(f1, 500.0, 0.2), mk(f2, 500.07, 0.4), mk(f0, 500.14, 0.6)]
}

/// A history with a colour-masked call: triangle A is submitted first with colour writes off (an invisible occluder: depth
/// test and depth writes stay on), then triangle B normally. Afterwards every pixel's depth is that of the nearest fragment
/// covering it, whichever call submitted it, and B's colour shows exactly where B is the nearest (or alone).
fn check_masked_occluder(a: &STri, b: &STri, id: (usize, usize), r: &mut Report) {
    r.eval();
    let sc = Scene { tris: vec![a.clone(), b.clone()], bw: 8, bh: 8, vp: (0, 0, 8, 8) };
    let case = || obj! {"kind" => "masked-occluder", "a" => id.0 as u64, "b" => id.1 as u64};
    let tag = format!("pool#{} masked, then pool#{}", id.0, id.1);
    let solo = |k: usize| render_scene(&sc, Some(&[k]), Door::Render, TargetKind::Owned, &ctx_plain(), Discard::Never, None);
    let (Ok(sa), Ok(sb)) = (solo(0), solo(1)) else { r.violation(format!("render-panic|masked-occluder|{tag}"), "render panicked".into(), case()); return; };
    let masked = Context { color_write: false, ..ctx_plain() };
    let first = match render_scene(&sc, Some(&[0]), Door::Render, TargetKind::Owned, &masked, Discard::Never, None) { Ok(o) => o, Err(p) => { r.violation(format!("render-panic|masked-occluder|{tag}"), p, case()); return; } };
    let fd = first.depth.clone().unwrap();
    let second = match render_scene(&sc, Some(&[1]), Door::Render, TargetKind::Owned, &ctx_plain(), Discard::Never, Some((&first.color, &fd))) { Ok(o) => o, Err(p) => { r.violation(format!("render-panic|masked-occluder|{tag}"), p, case()); return; } };
    let (da, db, dd) = (sa.depth.unwrap(), sb.depth.unwrap(), second.depth.unwrap());
    let mut judged = 0;
    for p in 0..64 {
        let (ca, cb) = (sa.color[p] != color_sentinel(p), sb.color[p] != color_sentinel(p));
        if ca && cb && da[p] == db[p] { continue; } // exact tie
        let b_wins = cb && (!ca || db[p] > da[p]);
        let want_c = if b_wins { sb.color[p] } else { color_sentinel(p) };
        let want_d = if b_wins { db[p] } else if ca { da[p] } else { depth_sentinel(p) };
        if second.color[p] != want_c || dd[p].to_bits() != want_d.to_bits() {
            r.violation(format!("order-dependence|masked-occluder|{tag}"), format!("pixel {p}: after a colour-masked call with triangle A (covers: {ca}, depth {}) and a normal call with B (covers: {cb}, depth {}) the buffers hold colour {:#x} depth {}, expected colour {want_c:#x} depth {want_d}", da[p], db[p], second.color[p], dd[p]), case());
            return;
        }
        if ca && cb { judged += 1; }
    }
    if judged > 0 { r.nontrivial(); r.h("masked-occluder:overlap-judged"); }
}

/// Painter clause at scale: `n` overlapping flat layers at distinct depths (0.07 % apart) submitted in a scrambled order in
/// ONE call: depth test off + BackToFront must give the depth-buffered image. Both runs rasterize the same triangles, so
/// the colour buffers must be identical, pixel for pixel.
fn check_painter_scale(n: usize, r: &mut Report) {
    r.eval();
    let (e22, e23) = (10.1f32 / 9.9, -2.0f32 / 9.9);
    let foot = [[[-0.9f32, -0.9], [0.9, -0.8], [-0.1, 0.9]], [[-0.7, 0.8], [0.8, 0.7], [0.0, -0.9]], [[-0.9, -0.2], [0.9, -0.3], [0.9, 0.6]], [[-0.5, -0.9], [0.7, 0.2], [-0.8, 0.7]]];
    let tris: Vec<STri> = (0..n).map(|k| { let j = (k * 7919 + 13) % n; let w = 1.0 + j as f32 * 0.002; let xy = foot[k % 4]; let a = (j % 97) as f32 / 100.0; STri { v: std::array::from_fn(|c| [xy[c][0] * w, xy[c][1] * w, e22 * w + e23, w]), a: [a, a + 0.003, a + 0.006] } }).collect();
    let sc = Scene { tris, bw: 8, bh: 8, vp: (0, 0, 8, 8) };
    let case = || obj! {"kind" => "painter-scale", "n" => n as u64};
    let painter = Context { depth_test: None, depth_sort: Some(DepthSort::BackToFront), ..ctx_plain() };
    match (render_scene(&sc, None, Door::Render, TargetKind::Owned, &painter, Discard::Never, None), render_scene(&sc, None, Door::Render, TargetKind::Owned, &ctx_plain(), Discard::Never, None), render_scene(&sc, None, Door::Render, TargetKind::ColorOnly, &Context { depth_sort: Some(DepthSort::BackToFront), ..ctx_plain() }, Discard::Never, None)) {
        (Ok(a), Ok(b), Ok(c)) => {
            if let Some(p) = (0..64).find(|&p| a.color[p] != b.color[p]) { r.violation(format!("painter|scale|n={n}"), format!("{n} layers in one call: with the depth test off and back-to-front sorting pixel {p} holds {:#x}, the depth-buffered image has {:#x}", a.color[p], b.color[p]), case()); return; }
            if let Some(p) = (0..64).find(|&p| c.color[p] != b.color[p]) { r.violation(format!("painter|scale|colour-only|n={n}"), format!("{n} layers in one call on a colour-only target with back-to-front sorting: pixel {p} holds {:#x}, the depth-buffered image has {:#x}", c.color[p], b.color[p]), case()); return; }
            r.nontrivial(); r.h("painter-scale-checked");
        }
        _ => { r.violation(format!("render-panic|painter-scale|n={n}"), "render panicked".into(), case()); }
    }
}

fn run_order(cfg: &Cfg) -> ! {
    let quick = cfg.quick();
    let pool = order_pool();
    let np = pool.len();
    let mut scenes: Vec<Vec<usize>> = vec![];
    for a in 0..np { for b in a + 1..np { scenes.push(vec![a, b]); for c in b + 1..np { scenes.push(vec![a, b, c]); for d in c + 1..np { scenes.push(vec![a, b, c, d]); if !quick { for e in d + 1..np { scenes.push(vec![a, b, c, d, e]); } } } } } }
    if !quick { for s in [[0, 1, 5, 6, 12, 13], [2, 3, 4, 7, 8, 9], [0, 9, 11, 13, 14, 15]] { scenes.push(s.to_vec()); } }
    let ns = scenes.len() as u64;
    let mut rep = par_range(cfg, ns, |i, r| {
        let sc = Scene { tris: scenes[i as usize].iter().map(|&k| pool[k].clone()).collect(), bw: 8, bh: 8, vp: (0, 0, 8, 8) };
        explore_order(&sc, r, i, Discard::Never);
        // a checkerboard-discarding fragment shader: discarded fragments must leave colour AND depth alone in every history
        if scenes[i as usize].len() <= 3 { explore_order(&sc, r, i, Discard::Parity); }
        // a depth-only pass leaves the depth buffer of the ordinary pass
        if scenes[i as usize].len() <= 3 { check_depth_prepass(&sc, i, r); }
        // ... and with back-face / front-face culling on (the pool has members of both windings)
        if scenes[i as usize].len() <= 3 { explore_order_cull(&sc, r, i, Discard::Never, Some(FaceCull::Back)); if i % 2 == 0 { explore_order_cull(&sc, r, i, Discard::Never, Some(FaceCull::Front)); } }
        r.sample(i, || obj! {"scene_triangles" => scenes[i as usize].clone(), "example_history" => "render([2,0], FrontToBack) ; render([1], None)"});
    });
    rep.merge(par_range(cfg, (np * np) as u64, |i, r| { let (a, b) = ((i as usize) % np, (i as usize) / np); if a != b { check_masked_occluder(&pool[a], &pool[b], (a, b), r); } }));
    rep.merge(par_range(cfg, 640, check_order_ulp));
    rep.merge(par_range(cfg, 12, check_ortho_depth));
    rep.merge(par_range(cfg, 80, check_tall_perspective));
    rep.merge(par_range(cfg, 5, |i, r| check_painter_scale([300usize, 1024, 1025, 2100, 3001][i as usize], r)));
    {
        let fp = far_pool();
        let mut fs: Vec<Vec<usize>> = vec![];
        for a in 0..fp.len() { for b in a + 1..fp.len() { fs.push(vec![a, b]); fs.push(vec![b, a]); for c in b + 1..fp.len() { fs.push(vec![a, b, c]); fs.push(vec![c, a, b]); } } }
        rep.merge(par_range(cfg, fs.len() as u64, |i, r| { let sc = Scene { tris: fs[i as usize].iter().map(|&k| fp[k].clone()).collect(), bw: 8, bh: 8, vp: (0, 0, 8, 8) }; explore_order(&sc, r, 2_000_000 + i, Discard::Never); r.h("far-layer-scenes"); }));
    }
    rep.set("scenes", ns);
    rep.finish(cfg, "model_checking",
        "explicit-state search per scene of n<=4 (thorough <=6) triangles on an 8x8 Framebuf: state = (set of submitted triangles, colour buffer, depth buffer); transition = one real render() call with ANY non-empty ordered subset of the not yet submitted triangles x depth_sort in {None, FrontToBack, BackToFront}; states deduplicated on the full tuple; invariant in every state: each pixel holds colour and depth of the nearest (largest 1/w) submitted triangle covering it, where coverage, colour and stored depth per triangle come from solo renders (differential oracle), but WHICH triangle is nearest at a pixel - is decided by an independent f64 projective solve whenever the two differ by more than 1e-5 relative, and by the stored f32 depths (exact ties exempt) for closer calls; plus: depth test off + BackToFront == depth-buffered image for scenes with disjoint depth ranges; scenes of <= 3 triangles are explored a second time with a checkerboard-discarding fragment shader. Scenes: all 2-, 3- and 4-subsets (thorough: also all 5-subsets and two 6-subsets) of a 23-triangle pool with overlapping, identically coloured, 0.03 %-apart, interpenetrating, partially clipped, culled-away, clipped-away (past a frustum corner), behind-the-viewer, coincident-footprint and two-ulp-apart members; depth ranges for the painter clause are those of the exact visible parts.",
        &["per-triangle coverage/depth taken from solo renders (validated separately by C01/C04/C05)", "depth test Less, depth writes on"]);
}

// ------------------------------------------------------------------ C07

fn signed_area_screen(t: &STri, vp: (u32, u32, u32, u32)) -> Option<f64> {
    // clipped triangles (also ones with vertices behind the viewer): the winding of what is seen = signed area of the exact visible part
    if clip_class(&t.v) == "clipped" { return visible_screen_polygon(&t.v, vp).map(|(p, _)| 2.0 * polygon_area(&p)); }
    if clip_class(&t.v) != "visible" { return None; }
    let s: Vec<[f64; 2]> = t.v.iter().map(|p| { let [x, y, _, w] = p.map(|c| c as f64); [vp.0 as f64 + (x / w + 1.0) / 2.0 * (vp.2 as f64 - vp.0 as f64), vp.1 as f64 + (y / w + 1.0) / 2.0 * (vp.3 as f64 - vp.1 as f64)] }).collect();
    Some((s[1][0] - s[0][0]) * (s[2][1] - s[0][1]) - (s[1][1] - s[0][1]) * (s[2][0] - s[0][0]))
}

fn check_config(scene: &Scene, flags: u32, discard: Discard, kind: TargetKind, r: &mut Report) { check_config_door(scene, flags, discard, kind, Door::Render, r) }

/// `door`: the entry point used for every render call of the check (render(), Batch, or Camera::render with the library's
/// closure-based Shader wrapper; the colour written is the attribute's bit pattern, so about one fragment in 256 carries
/// a colour whose alpha byte is 0)
fn check_config_door(scene: &Scene, flags: u32, discard: Discard, kind: TargetKind, door: Door, r: &mut Report) {
    r.eval();
    let ctx = ctx_from(flags);
    let case = || obj! {"kind" => "config", "scene" => scene_json(scene), "flags" => flags, "discard" => format!("{discard:?}"), "target" => format!("{kind:?}"), "door" => format!("{door:?}")};
    let tag = format!("flags{flags}|{discard:?}|{kind:?}{}|{}", if door == Door::Render { String::new() } else { format!("|{door:?}") }, short(scene));
    let out = match render_scene(scene, None, door, kind, &ctx, discard, None) { Ok(o) => o, Err(p) => { r.violation(format!("render-panic|{tag}"), p, case()); return; } };
    let px = (scene.bw * scene.bh) as usize;
    let has_depth = kind != TargetKind::ColorOnly && kind != TargetKind::ColorOnlySub;
    // independent expectations -------------------------------------------------
    // which triangles survive culling: harness-side on-screen winding of unclipped triangles
    // reference run: no culling, no test, everything written -> per-pixel fragment counts via twin runs
    let twin = |ctx: Context, discard: Discard, kind: TargetKind| render_scene(scene, None, door, kind, &ctx, discard, None);
    let base_ctx = Context { depth_test: None, color_write: true, depth_write: true, depth_sort: ctx.depth_sort, face_cull: ctx.face_cull, ..Context::default() };
    let base = match twin(base_ctx, Discard::Never, kind) { Ok(b) => b, Err(p) => { r.violation(format!("render-panic|reference-run|{tag}"), p, case()); return; } };
    // (1) masks
    if !ctx.color_write && (0..px).any(|p| out.color[p] != color_sentinel(p)) { r.violation(format!("color-write-off-but-written|{tag}"), "colour buffer modified although color_write = false".into(), case()); return; }
    if has_depth && !ctx.depth_write && (0..px).any(|p| out.depth.as_ref().unwrap()[p].to_bits() != depth_sentinel(p).to_bits()) { r.violation(format!("depth-write-off-but-written|{tag}"), "depth buffer modified although depth_write = false".into(), case()); return; }
    if discard == Discard::Always && ((0..px).any(|p| out.color[p] != color_sentinel(p)) || (has_depth && (0..px).any(|p| out.depth.as_ref().unwrap()[p].to_bits() != depth_sentinel(p).to_bits()))) { r.violation(format!("discard-but-written|{tag}"), "fragment shader returned None for every fragment but a buffer was modified".into(), case()); return; }
    // a discarding shader, pixel by pixel: all fragments of one pixel share its parity, so under the checkerboard shader a kept
    // pixel goes through exactly what it goes through under the never-discarding shader, and a discarded pixel is untouched
    if discard == Discard::Parity {
        if let Ok(nv) = twin(ctx.clone(), Discard::Never, kind) {
            for p in 0..px {
                let keep = ((p as u32 % scene.bw) + (p as u32 / scene.bw)) & 1 == 0;
                let (wc, wd) = if keep { (nv.color[p], nv.depth.as_ref().map(|d| d[p].to_bits())) } else { (color_sentinel(p), nv.depth.as_ref().map(|_| depth_sentinel(p).to_bits())) };
                if out.color[p] != wc || out.depth.as_ref().map(|d| d[p].to_bits()) != wd {
                    r.violation(format!("discard-per-pixel|{tag}"), format!("checkerboard-discarding shader: pixel {p} ({}) holds colour {:#x} depth {:?}, expected colour {wc:#x} depth bits {wd:?}", if keep { "kept: as with the never-discarding shader" } else { "discarded: untouched" }, out.color[p], out.depth.as_ref().map(|d| d[p])), case());
                    return;
                }
            }
        }
    }
    // colour writes off must not change what happens to depth
    if has_depth && !ctx.color_write && ctx.depth_write {
        if let Ok(t) = twin(Context { color_write: true, ..ctx.clone() }, discard, kind) {
            if t.depth != out.depth { r.violation(format!("color-write-affects-depth|{tag}"), "depth buffer differs between color_write on and off".into(), case()); return; }
        }
    }
    // with the test disabled every fragment passes: depth is written wherever colour is (reference run), and the
    // configured run's depth buffer is that of the reference run whenever depth writes are on
    if has_depth {
        let (bd, od) = (base.depth.as_ref().unwrap(), out.depth.as_ref().unwrap());
        if let Some(p) = (0..px).find(|&p| (base.color[p] != color_sentinel(p)) != (bd[p].to_bits() != depth_sentinel(p).to_bits())) { r.violation(format!("test-off-depth-not-updated|{tag}"), format!("depth test disabled, both writes on: pixel {p} has its colour {} but its depth {}", if base.color[p] != color_sentinel(p) { "written" } else { "untouched" }, if bd[p].to_bits() != depth_sentinel(p).to_bits() { "written" } else { "untouched" }), case()); return; }
        if ctx.depth_test.is_none() && ctx.depth_write && discard == Discard::Never && od != bd { r.violation(format!("test-off-depth-differs|{tag}"), "depth test disabled and depth writes on, yet the depth buffer differs from the one obtained with colour writes on".into(), case()); return; }
    }
    // ... whatever the depth buffer held before, NaN included (a comparison with NaN is false for every predicate)
    if has_depth && ctx.depth_test.is_none() && ctx.color_write {
        let (pc, pd): (Vec<u32>, Vec<f32>) = ((0..px).map(color_sentinel).collect(), (0..px).map(|p| if p % 2 == 0 { f32::NAN } else { depth_sentinel(p) }).collect());
        if let Ok(t) = render_scene(scene, None, door, kind, &ctx, discard, Some((&pc, &pd))) {
            if t.color != out.color || t.invocations != out.invocations { r.violation(format!("test-off-nan-depth-rejects|{tag}"), format!("depth test disabled: with NaN already in the depth buffer {} fragments were shaded instead of {} and the colour buffer differs", t.invocations, out.invocations), case()); return; }
        }
    }
    // depth test disabled (or colour-only target): every generated fragment reaches the shader
    if ctx.depth_test.is_none() || !has_depth {
        if out.invocations != out.stats.frags.i as u64 { r.violation(format!("test-off-not-all-shaded|{tag}"), format!("{} fragments generated but the fragment shader ran {} times with the depth test disabled", out.stats.frags.i, out.invocations), case()); return; }
    }
    // (2) statistics
    let st = &out.stats;
    let mut bad = vec![];
    if st.calls != 1.0 { bad.push(format!("calls={}", st.calls)); }
    if st.prims.i != scene.tris.len() { bad.push(format!("prims.i={} submitted {}", st.prims.i, scene.tris.len())); }
    if st.verts.i != scene.tris.len() * 3 { bad.push(format!("verts.i={} submitted {}", st.verts.i, scene.tris.len() * 3)); }
    if st.verts.o != st.prims.o * 3 { bad.push(format!("verts.o={} != 3*prims.o={}", st.verts.o, st.prims.o)); }
    // prims.o: the pieces the public clipper (C03) cuts each triangle into, minus harness-culled ones. A clipped triangle counts with
    // as many pieces as view_frustum::clip returns for it; all of them have the winding of the exact visible part. (Undecided, and
    // not judged, when the visible part or one of the pieces has next to no area on screen.)
    {
        use re::render::clip::{view_frustum, ClipVert};
        let mut exp = 0;
        let mut decidable = true;
        let (vx, vy) = ((scene.vp.2 as f64 - scene.vp.0 as f64) / 2.0, (scene.vp.3 as f64 - scene.vp.1 as f64) / 2.0);
        for t in &scene.tris {
            let class = clip_class(&t.v);
            if class == "hidden" { continue; }
            let pieces = if class == "clipped" {
                let input = Tri(std::array::from_fn::<_, 3, _>(|k| ClipVert::new(vertex(ClipVec::from(t.v[k]), t.a[k]))));
                let mut o = vec![];
                if caught(|| view_frustum::clip(std::slice::from_ref(&input), &mut o)).is_err() { decidable = false; break; }
                // every piece must have a clear on-screen area of its own (culling is decided per piece)
                for Tri(vs) in &o {
                    let s: Vec<[f64; 2]> = vs.iter().map(|v| { let [x, y, _, w] = v.pos.0.map(|c| c as f64); [x / w * vx, y / w * vy] }).collect();
                    let a = (s[1][0] - s[0][0]) * (s[2][1] - s[0][1]) - (s[1][1] - s[0][1]) * (s[2][0] - s[0][0]);
                    // (a piece thinner than the f32 rounding of its own screen positions has no winding to speak of: positions are
                    // rounded to ~1e-6 px, over edges up to the frame's size that is ~1e-5 px^2 of area)
                    if a.abs() < 1e-3 { decidable = false; }
                }
                o.len()
            } else { 1 };
            match signed_area_screen(t, scene.vp) {
                Some(a) if a.abs() >= 1e-9 => { let back = a > 0.0; exp += match ctx.face_cull { None => pieces, Some(FaceCull::Back) => if back { 0 } else { pieces }, Some(FaceCull::Front) => if back { pieces } else { 0 } }; }
                _ => decidable = false,
            }
        }
        if decidable && st.prims.o != exp { bad.push(format!("prims.o={} but {} triangles survive clipping and culling", st.prims.o, exp)); }
        if decidable && scene.tris.iter().any(|t| clip_class(&t.v) == "clipped") { r.h("prims.o-judged-with-clipped-triangles"); }
    }
    // what one call reports for several triangles is the sum of what it reports for each of them alone (clipping, culling
    // and rasterization treat every triangle on its own: no state may carry over from one triangle to the next)
    if scene.tris.len() >= 2 {
        let mut memo: std::collections::HashMap<Vec<u32>, (usize, usize)> = std::collections::HashMap::new();
        let (mut po, mut fi, mut ok) = (0usize, 0usize, true);
        for (k, t) in scene.tris.iter().enumerate() {
            let key: Vec<u32> = t.v.iter().flatten().map(|c| c.to_bits()).collect();
            let e = match memo.get(&key) { Some(e) => *e, None => match render_scene(scene, Some(&[k]), door, kind, &ctx, discard, None) { Ok(o) => { let e = (o.stats.prims.o, o.stats.frags.i); memo.insert(key, e); e } Err(_) => { ok = false; break; } } };
            po += e.0; fi += e.1;
        }
        if ok && st.prims.o != po { bad.push(format!("prims.o={} but the triangles rendered one per call give {} in total", st.prims.o, po)); }
        if ok && st.frags.i != fi { bad.push(format!("frags.i={} but the triangles rendered one per call generate {} fragments in total", st.frags.i, fi)); }
    }
    // frags.i = number of fragments generated = shader invocations of the base run (no test, culling as configured)
    if st.frags.i as u64 != base.invocations { bad.push(format!("frags.i={} but {} fragments were generated", st.frags.i, base.invocations)); }
    // frags.o = fragments written: count by an independent twin: same config, but colour sentinel diff needs overdraw counting -> use invocation-level reasoning:
    //   written fragments = fragments that passed the test and were not discarded and color_write
    if !ctx.color_write && st.frags.o != 0 { bad.push(format!("frags.o={} with colour writes off", st.frags.o)); }
    if discard == Discard::Always && st.frags.o != 0 { bad.push(format!("frags.o={} although every fragment was discarded", st.frags.o)); }
    if ctx.color_write && discard == Discard::Never && (ctx.depth_test.is_none() || !has_depth) && st.frags.o as u64 != base.invocations { bad.push(format!("frags.o={} but all {} generated fragments are written when nothing is tested or discarded", st.frags.o, base.invocations)); }
    if ctx.color_write && discard == Discard::Never && st.frags.o as u64 != out.invocations { bad.push(format!("frags.o={} but {} fragments passed the depth test and were shaded", st.frags.o, out.invocations)); }
    let changed = (0..px).filter(|&p| out.color[p] != color_sentinel(p)).count();
    if st.frags.o < changed { bad.push(format!("frags.o={} < {} pixels whose colour changed", st.frags.o, changed)); }
    if !bad.is_empty() { r.violation(format!("stats|{}|{tag}", bad[0].split('=').next().unwrap_or("")), format!("statistics after one call do not match what happened: {}", bad.join("; ")), case()); return; }
    r.nontrivial();
}

/// The depth predicate, fragment by fragment: the depth buffer is primed, pixel by pixel, with the fragment's own depth moved
/// by -2 .. +2 ulps (the fragment's depth = what a test-less run writes there), then the triangle is drawn under each
/// predicate. A fragment passes - colour and depth written, counted in frags.o - exactly when its depth compares to the
/// stored one as the predicate says (Less: nearer, i.e. the larger reciprocal; Equal: the same float), and otherwise
/// leaves the pixel as primed.
fn check_depth_predicate(scene: &Scene, kind: TargetKind, door: Door, shift: usize, r: &mut Report) {
    r.eval();
    let case = || obj! {"kind" => "depth-pred", "scene" => scene_json(scene), "target" => format!("{kind:?}"), "door" => format!("{door:?}"), "shift" => shift};
    let tag = format!("{kind:?}|{door:?}|{}", short(scene));
    let px = (scene.bw * scene.bh) as usize;
    let free = Context { depth_test: None, ..ctx_plain() };
    let base = match render_scene(scene, None, door, kind, &free, Discard::Never, None) { Ok(b) => b, Err(p) => { r.violation(format!("render-panic|depth-pred|{tag}"), p, case()); return; } };
    let fd = base.depth.as_ref().unwrap();
    let covered: Vec<bool> = (0..px).map(|p| base.color[p] != color_sentinel(p)).collect();
    if !covered.iter().any(|c| *c) { r.h("depth-pred:nothing-drawn"); return; }
    // the model below is one fragment per covered pixel; where the pieces of a clipped triangle meet, a pixel may receive a
    // fragment from two of them (each within C04's band of the shared edge) - such scenes are left to the other checks
    if base.stats.frags.i != covered.iter().filter(|c| **c).count() { r.h("depth-pred:pixels-with-several-fragments(not judged)"); return; }
    let delta = |p: usize| [-2i32, -1, 0, 1, 2][(p + shift) % 5];
    let pc: Vec<u32> = (0..px).map(color_sentinel).collect();
    let pd: Vec<f32> = (0..px).map(|p| if covered[p] && fd[p].is_finite() && fd[p] > 0.0 { f32::from_bits((fd[p].to_bits() as i32 + delta(p)) as u32) } else { depth_sentinel(p) }).collect();
    for pred in [Ordering::Less, Ordering::Greater, Ordering::Equal] { for sort in [None, Some(DepthSort::BackToFront), Some(DepthSort::FrontToBack)] {
        // (the predicate is the predicate under every depth-sort setting: sorting orders the triangles of a call, no more)
        if sort.is_some() && (shift + (pred as i8 + 1) as usize) % 2 == 1 { continue; }
        let ctx = Context { depth_test: Some(pred), depth_sort: sort, ..ctx_plain() };
        let out = match render_scene(scene, None, door, kind, &ctx, Discard::Never, Some((&pc, &pd))) { Ok(o) => o, Err(p) => { r.violation(format!("render-panic|depth-pred|{tag}"), p, case()); return; } };
        let od = out.depth.as_ref().unwrap();
        let mut passes = 0usize;
        for p in 0..px {
            if !covered[p] { continue; }
            // reciprocal depths: the nearer fragment has the larger value
            let pass = match pred { Ordering::Less => fd[p] > pd[p], Ordering::Greater => fd[p] < pd[p], Ordering::Equal => fd[p] == pd[p] };
            if pass { passes += 1; }
            let (wc, wd) = if pass { (base.color[p], fd[p]) } else { (pc[p], pd[p]) };
            if out.color[p] != wc || od[p].to_bits() != wd.to_bits() {
                r.violation(format!("depth-predicate|{pred:?}|{}ulp|{tag}", delta(p)), format!("depth test {pred:?} (depth_sort {sort:?}): pixel {p} primed with the fragment's depth {:e} moved by {} ulp ({:e}) - the fragment must {}, but the pixel holds colour {:#x} depth {:e} (expected {wc:#x}, {wd:e})", fd[p], delta(p), pd[p], if pass { "pass" } else { "fail" }, out.color[p], od[p]), case());
                return;
            }
        }
        if out.stats.frags.o != passes { r.violation(format!("stats|frags.o|depth-predicate|{pred:?}|{tag}"), format!("depth test {pred:?}: {passes} fragments pass the test and are written, frags.o = {}", out.stats.frags.o), case()); return; }
    }}
    r.nontrivial();
}

/// Culling of triangles far smaller than a pixel that still contain a pixel centre (by more than 0.002 px): whether a
/// fragment appears is C04's business (it must, the centre is inside), so exactly one vertex order may draw it.
fn check_cull_small(cx: u32, cy: u32, size: f32, shape: usize, kind: TargetKind, r: &mut Report) { check_cull_small_in(8, 8, cx, cy, size, shape, kind, r) }

/// The same in a `bw` x `bh` frame (small triangles far from the screen origin).
fn check_cull_small_in(bw: u32, bh: u32, cx: u32, cy: u32, size: f32, shape: usize, kind: TargetKind, r: &mut Report) {
    r.eval();
    let vp = (0u32, 0u32, bw, bh);
    let (hw, hh) = (bw as f32 / 2.0, bh as f32 / 2.0);
    let c = (cx as f32 + 0.5, cy as f32 + 0.5);
    let offs: [[f32; 2]; 3] = [[[-1.0, -0.7], [1.0, -0.6], [0.0, 1.0]], [[-1.0, 0.9], [0.1, -1.0], [0.9, 0.8]], [[-3.0, -0.5], [3.0, -0.4], [0.2, 0.6]]][shape];
    let w = [1.0f32, 2.0, 0.5][shape];
    let t = STri { v: std::array::from_fn(|k| { let (px, py) = (c.0 + size * offs[k][0], c.1 + size * offs[k][1]); [(px / hw - 1.0) * w, (py / hh - 1.0) * w, 0.1 * w, w] }), a: PERMS[shape] };
    // (the corners as the viewport transform will place them, so that the expected winding is that of the triangle actually drawn)
    let s: Vec<[f64; 2]> = (0..3).map(|k| [((t.v[k][0] / t.v[k][3]) as f64 + 1.0) * hw as f64, ((t.v[k][1] / t.v[k][3]) as f64 + 1.0) * hh as f64]).collect();
    let area2 = (s[1][0] - s[0][0]) * (s[2][1] - s[0][1]) - (s[1][1] - s[0][1]) * (s[2][0] - s[0][0]);
    // margin of the pixel centre to the three edges
    let p = [c.0 as f64, c.1 as f64];
    let margin = (0..3).map(|k| { let (a, b) = (s[k], s[(k + 1) % 3]); let l = ((b[0] - a[0]).powi(2) + (b[1] - a[1]).powi(2)).sqrt(); ((b[0] - a[0]) * (p[1] - a[1]) - (b[1] - a[1]) * (p[0] - a[0])) / l * area2.signum() }).fold(f64::MAX, f64::min);
    if margin < 0.002 { r.h("cull-small:centre-too-close-to-an-edge"); return; }
    let rev = STri { v: [t.v[0], t.v[2], t.v[1]], a: [t.a[0], t.a[2], t.a[1]] };
    let draw = |tri: &STri, cull: Option<FaceCull>| render_scene(&Scene { tris: vec![tri.clone()], bw, bh, vp }, None, Door::Render, kind, &Context { face_cull: cull, ..Context::default() }, Discard::Never, None).map(|o| o.stats.frags.i);
    let case = || obj! {"kind" => "cull-small", "bw" => bw as u64, "bh" => bh as u64, "cx" => cx as u64, "cy" => cy as u64, "size" => fbits(size), "shape" => shape as u64, "target" => format!("{kind:?}")};
    let tag = format!("{kind:?}|{bw}x{bh}|centre({cx},{cy})|size={size}|shape{shape}");
    let (Ok(fa), Ok(fb)) = (draw(&t, None), draw(&rev, None)) else { r.violation(format!("render-panic|{tag}"), "render panicked".into(), case()); return; };
    if fa == 0 || fb == 0 { r.violation(format!("cull-off-one-order-missing|small|{tag}"), format!("culling off: the two vertex orders of a {size} px triangle around a pixel centre (margin {margin:.4} px) produced {fa} and {fb} fragments"), case()); return; }
    for (mode, name) in [(FaceCull::Back, "Back"), (FaceCull::Front, "Front")] {
        let (Ok(fa), Ok(fb)) = (draw(&t, Some(mode)), draw(&rev, Some(mode))) else { r.violation(format!("render-panic|{name}|{tag}"), "render panicked with face culling on".into(), case()); return; };
        let a_drawn_expected = match mode { FaceCull::Back => !(area2 > 0.0), FaceCull::Front => area2 > 0.0 };
        if (fa > 0) == (fb > 0) { r.violation(format!("cull-not-exactly-one|{name}|small|{tag}"), format!("face_cull = {name}: the two vertex orders of a {size} px triangle (doubled area {area2:.3e} px^2) produced {fa} and {fb} fragments (exactly one must be drawn)"), case()); return; }
        if (fa > 0) != a_drawn_expected { r.violation(format!("cull-wrong-side|{name}|small|{tag}"), format!("face_cull = {name}: wrong vertex order drawn for a {size} px triangle"), case()); return; }
    }
    r.nontrivial(); r.h("cull-small:judged");
}

/// Culling of slivers whose area is below the f32 resolution of the products in a cross product, yet not zero: the three
/// screen positions (pixel-centre-aligned end points on a 1024 x 1024 frame, the middle vertex a few ulps off the line; all
/// exactly representable, also after the viewport transform) have an exact orientation, and that orientation - not the
/// rounding of a product - decides which of the two vertex orders survives. Judged on prims.o (whether fragments appear
/// is C04's business).
fn check_cull_sliver(i: u64, r: &mut Report) { check_cull_sliver_k(i % 8, i / 8 % 4096, i / 32768, i, r) }

fn check_cull_sliver_k(pair: u64, k: u64, nbr: u64, i: u64, r: &mut Report) {
    // end points A, C (eight pairs, off-lattice directions); the middle vertex B = the f32 point nearest to A + t (C - A) for
    // t = k / 4096 (k = 1..4095), and its eight bit-neighbours in x and y: B is within an ulp of the line, so that the exact
    // area is of the order of ulp(B) |AC| - at or below the resolution of the single-precision products of a cross product.
    // Candidates are kept where the single-precision formula v.x u.y - v.y u.x vanishes (or has the wrong sign) although the
    // exact area does not: a harness-side filter on the inputs, not an oracle.
    let ends = [((300.5f32, 400.5f32), (701.75f32, 778.0f32)), ((1000.25, 300.5), (280.5, 911.125)), ((511.5, 512.5), (900.0, 260.25)), ((260.0, 260.0), (1010.5, 1000.25)), ((333.3, 444.4), (888.8, 999.9)), ((1001.0, 1002.0), (300.0, 299.0)), ((400.0, 900.5), (900.5, 400.0)), ((256.5, 700.25), (1020.0, 690.5))];
    let (a0, c0) = ends[pair as usize];
    if k == 0 { return; }
    let nb = nbr as i32; // 0..9: 0 = B itself, 1..4 = x -2,-1,+1,+2 ulp, 5..8 = y likewise
    let tt = k as f32 / 4096.0;
    let mut b0 = (a0.0 + tt * (c0.0 - a0.0), a0.1 + tt * (c0.1 - a0.1));
    let bump = |c: f32, d: i32| f32::from_bits((c.to_bits() as i32 + d) as u32);
    if (1..=4).contains(&nb) { b0.0 = bump(b0.0, [-2, -1, 1, 2][(nb - 1) as usize]); }
    if (5..=8).contains(&nb) { b0.1 = bump(b0.1, [-2, -1, 1, 2][(nb - 5) as usize]); }
    let (dx, dy, m, j, nud, on_y) = (0i32, 0i32, k as i32, nb, 0i32, false);
    let _ = (dx, dy, nud, on_y);
    {
        let (v, u) = ((b0.0 - a0.0, b0.1 - a0.1), (c0.0 - a0.0, c0.1 - a0.1));
        let single = v.0 * u.1 - v.1 * u.0;
        let exact = (b0.0 as f64 - a0.0 as f64) * (c0.1 as f64 - a0.1 as f64) - (b0.1 as f64 - a0.1 as f64) * (c0.0 as f64 - a0.0 as f64);
        if exact == 0.0 || (single != 0.0 && (single > 0.0) == (exact > 0.0)) { return; }
        r.h(if single == 0.0 { "cull-sliver:single-precision-cross-product-vanishes" } else { "cull-sliver:single-precision-cross-product-has-the-wrong-sign" });
    }
    r.eval();
    let ndc = |p: (f32, f32)| [p.0 / 512.0 - 1.0, p.1 / 512.0 - 1.0, 0.0, 1.0];
    let t = STri { v: [ndc(a0), ndc(b0), ndc(c0)], a: PERMS[(i % 6) as usize] };
    let vp = (0u32, 0u32, 1024u32, 1024u32);
    // exact orientation of the (exactly representable) screen positions
    let area = { let p: Vec<(f64, f64)> = [a0, b0, c0].iter().map(|q| (q.0 as f64, q.1 as f64)).collect(); (p[1].0 - p[0].0) * (p[2].1 - p[0].1) - (p[1].1 - p[0].1) * (p[2].0 - p[0].0) };
    if area == 0.0 { r.h("cull-sliver:exactly-collinear"); return; }
    let case = || obj! {"kind" => "cull-sliver", "i" => i};
    let tag = format!("A{a0:?} C{c0:?}|B at t={m}/4096, neighbour {j}: {b0:?}");
    let rev = STri { v: [t.v[0], t.v[2], t.v[1]], a: [t.a[0], t.a[2], t.a[1]] };
    for (order, tri, ar) in [("abc", &t, area), ("acb", &rev, -area)] {
        for (mode, name) in [(Some(FaceCull::Back), "Back"), (Some(FaceCull::Front), "Front"), (None, "None")] {
            let o = match render_scene(&Scene { tris: vec![tri.clone()], bw: 1024, bh: 1024, vp }, None, Door::Render, TargetKind::ColorOnly, &Context { face_cull: mode, ..Context::default() }, Discard::Never, None) { Ok(o) => o, Err(p) => { r.violation(format!("render-panic|cull-sliver|{tag}"), p, case()); return; } };
            let back = ar > 0.0;
            let want = match mode { None => 1, Some(FaceCull::Back) => (!back) as usize, Some(FaceCull::Front) => back as usize };
            if o.stats.prims.o != want {
                r.violation(format!("cull-sliver|{name}|{}|{tag}", if want == 1 { "culled-though-facing" } else { "drawn-though-culled" }), format!("sliver with exact on-screen signed area {ar:.3e} px^2 (order {order}), face_cull {name}: prims.o = {} but {} - the other vertex order {}", o.stats.prims.o, if want == 1 { "it faces the viewer under this mode" } else { "it is to be culled under this mode" }, "must be the one treated the opposite way"), case());
                return;
            }
        }
    }
    r.nontrivial();
}

fn check_cull(t: &STri, bw: u32, bh: u32, vp: (u32, u32, u32, u32), kind: TargetKind, r: &mut Report) {
    // one triangle, both vertex orders, three cull modes
    r.eval();
    let Some(area) = signed_area_screen(t, vp) else { return; };
    if area.abs() < 0.5 { return; }
    let rev = STri { v: [t.v[0], t.v[2], t.v[1]], a: [t.a[0], t.a[2], t.a[1]] };
    let draw = |tri: &STri, cull: Option<FaceCull>| render_scene(&Scene { tris: vec![tri.clone()], bw, bh, vp }, None, Door::Render, kind, &Context { face_cull: cull, ..Context::default() }, Discard::Never, None).map(|o| (o.stats.frags.i, o.color));
    let case = || obj! {"kind" => "cull", "scene" => scene_json(&Scene { tris: vec![t.clone()], bw, bh, vp }), "target" => format!("{kind:?}")};
    let tag = format!("{kind:?}|{bw}x{bh}vp{vp:?}|{:?}", t.v);
    let (Ok((fa_none, ca_none)), Ok((fb_none, cb_none))) = (draw(t, None), draw(&rev, None)) else { r.violation(format!("render-panic|cull-off|{tag}"), "render panicked".into(), case()); return; };
    if fa_none == 0 { return; }
    // only triangles with at least one pixel centre unambiguously inside (for both re-triangulations) are judged:
    // a triangle touching pixel centres with its edges only may legitimately yield fragments for one order and none for the other
    {
        let (sa, sb) = (Scene { tris: vec![t.clone()], bw, bh, vp }, Scene { tris: vec![rev.clone()], bw, bh, vp });
        let (oa, ob) = (Oracle::new(&sa), Oracle::new(&sb));
        if !(0..bh).any(|j| (0..bw).any(|i| matches!(oa.pixel(i, j), Truth::Inside { .. }) && matches!(ob.pixel(i, j), Truth::Inside { .. }))) { r.h("cull:edge-pixels-only"); return; }
    }
    if fb_none == 0 { r.violation(format!("cull-off-one-order-missing|{tag}"), "with culling off only one vertex order is drawn".into(), case()); return; }
    // same image away from edge pixels: compare pixels that both orders drew or both left
    let orc_scene = Scene { tris: vec![t.clone()], bw, bh, vp };
    let orc = Oracle::new(&orc_scene);
    // (the two vertex orders of a clipped triangle are re-triangulated along different internal edges: mask both)
    let rev_scene = Scene { tris: vec![rev.clone()], bw, bh, vp };
    let orc_rev = Oracle::new(&rev_scene);
    for j in 0..bh { for i in 0..bw { let p = (j * bw + i) as usize; if matches!(orc.pixel(i, j), Truth::Inside { .. } | Truth::Outside) && matches!(orc_rev.pixel(i, j), Truth::Inside { .. } | Truth::Outside) { let (a, b) = (ca_none[p] != color_sentinel(p), cb_none[p] != color_sentinel(p)); if a != b { r.violation(format!("cull-off-orders-differ|{tag}"), format!("pixel ({i},{j}) is drawn for one vertex order only although culling is off"), case()); return; } } } }
    for (mode, name) in [(FaceCull::Back, "Back"), (FaceCull::Front, "Front")] {
        let (Ok((_, ca)), Ok((_, cb))) = (draw(t, Some(mode)), draw(&rev, Some(mode))) else { r.violation(format!("render-panic|{name}|{tag}"), "render panicked with face culling on".into(), case()); return; };
        // "drawn" = drawn at a pixel that is unambiguously inside: fragments on edge pixels may come from zero-area fan
        // triangles of the clipped polygon whose winding is rounding noise
        let inside_drawn = |c: &Vec<u32>| (0..bh).flat_map(|j| (0..bw).map(move |i| (i, j))).filter(|&(i, j)| { let p = (j * bw + i) as usize; c[p] != color_sentinel(p) && matches!(orc.pixel(i, j), Truth::Inside { .. }) && matches!(orc_rev.pixel(i, j), Truth::Inside { .. }) }).count();
        let (fa, fb) = (inside_drawn(&ca), inside_drawn(&cb));
        // convention: Back culls triangles whose on-screen signed area (x1-x0)(y2-y0)-(y1-y0)(x2-x0) is positive
        let a_is_back = area > 0.0;
        let a_drawn_expected = match mode { FaceCull::Back => !a_is_back, FaceCull::Front => a_is_back };
        if (fa > 0) == (fb > 0) { r.violation(format!("cull-not-exactly-one|{name}|{tag}"), format!("with face_cull = {name} the two vertex orders drew {fa} and {fb} unambiguously interior pixels (exactly one must be drawn)"), case()); return; }
        if (fa > 0) != a_drawn_expected { r.violation(format!("cull-wrong-side|{name}|{tag}"), format!("with face_cull = {name} the order with on-screen signed area {area:.2} was {} but should have been {}", if fa > 0 { "drawn" } else { "culled" }, if a_drawn_expected { "drawn" } else { "culled" }), case()); return; }
    }
    r.h(if clip_class(&t.v) == "clipped" { if t.v.iter().any(|p| p[3] <= 0.0) { "cull:judged-clipped-behind-viewer" } else { "cull:judged-clipped" } } else { "cull:judged-unclipped" });
    r.nontrivial();
}

type VtxS = re::geom::Vertex3<re::geom::Normal3>;
struct SolidShader;
impl<'a> VertexShader<VtxS, (&'a Mat4x4<RealToProj<re::render::Model>>, ())> for SolidShader {
    type Output = Vertex<ClipVec, f32>;
    fn shade_vertex(&self, v: VtxS, (m, _): (&'a Mat4x4<RealToProj<re::render::Model>>, ())) -> Self::Output { vertex(m.apply(&v.pos), 0.5 + 0.1 * (v.pos.x() + 2.0 * v.pos.y() + 3.0 * v.pos.z())) }
}
impl FragmentShader<f32> for SolidShader {
    fn shade_fragment(&self, f: Frag<f32>) -> Option<re::math::color::Color4> { let [a, b, c, d] = f.var.to_bits().to_be_bytes(); Some(re::math::color::rgba(a, b, c, d)) }
}

/// Convention-free culling check: a closed convex solid looks the same with back-face culling as without,
/// and different with front-face culling.
fn check_solid_culling(si: usize, vi: usize, r: &mut Report) {
    use re::math::angle::degs;
    use re::math::mat::{rotate_x, rotate_y, translate, RealToReal};
    use re::math::vec3;
    use re::render::{Camera, Model, World};
    use re_geom::solids::*;
    r.eval();
    let (name, mesh): (&str, re::geom::Mesh<re::geom::Normal3>) = match si {
        0 => ("Tetrahedron", Tetrahedron.build()), 1 => ("Box", Box::cube(1.4).build()), 2 => ("Octahedron", Octahedron.build()), 3 => ("Dodecahedron", Dodecahedron.build()),
        4 => ("Icosahedron", Icosahedron.build()), 5 => ("Sphere", Sphere { sectors: 9, segments: 6, radius: 1.0 }.build()), 6 => ("Cylinder", Cylinder { sectors: 7, segments: 2, capped: true, radius: 0.8 }.build()),
        7 => ("Cone", Cone { sectors: 8, segments: 2, capped: true, base_radius: 1.0, apex_radius: 0.3 }.build()), _ => ("Capsule", Capsule { sectors: 6, body_segments: 1, cap_segments: 3, radius: 0.6 }.build()),
    };
    let (ax, ay) = [(0.0f32, 0.0f32), (25.0, 40.0), (-70.0, 10.0), (90.0, 0.0), (180.0, 33.0), (13.0, -155.0)][vi];
    let to_world: Mat4x4<RealToReal<3, Model, World>> = rotate_x(degs(ax)).then(&rotate_y(degs(ay))).then(&translate(vec3(0.1, -0.05, 4.0))).to();
    let dims = (24u32, 20u32);
    let cam = Camera::new(dims).mode(Mat4x4::<RealToReal<3, World, View>>::identity()).perspective(1.5, 0.5..20.0);
    let draw = |cull: Option<FaceCull>| -> Result<(Vec<u32>, Vec<f32>), String> {
        let mut fb = Framebuf { color_buf: Buf2::<u32>::new_from(dims, (0..).map(|i| color_sentinel(i as usize))), depth_buf: Buf2::<f32>::new_from(dims, std::iter::repeat(0.0f32)) };
        let ctx = Context { face_cull: cull, ..Context::default() };
        caught(|| cam.render(&mesh.faces, &mesh.verts, &to_world, &SolidShader, (), &mut fb, &ctx))?;
        Ok((fb.color_buf.data().to_vec(), fb.depth_buf.data().to_vec()))
    };
    let case = || obj! {"kind" => "solid", "solid" => si, "view" => vi};
    let (Ok(none), Ok(back), Ok(front)) = (draw(None), draw(Some(FaceCull::Back)), draw(Some(FaceCull::Front))) else { r.violation(format!("solid-render-panic|{name}|view{vi}"), "render panicked".into(), case()); return; };
    let n = (dims.0 * dims.1) as usize;
    let drawn = (0..n).filter(|&p| none.0[p] != color_sentinel(p)).count();
    if drawn < 20 { r.violation(format!("solid-not-visible|{name}|view{vi}"), format!("only {drawn} pixels drawn"), case()); return; }
    // Back == None, except where front and back surfaces are (nearly) depth-tied along the silhouette
    let mut diff_back = 0;
    for p in 0..n { if none.0[p] != back.0[p] { let (a, b) = (none.1[p], back.1[p]); if (a - b).abs() > 2e-3 * a.abs().max(b.abs()) { diff_back += 1; } } }
    let diff_front = (0..n).filter(|&p| none.0[p] != front.0[p]).count();
    if diff_back > 0 { r.violation(format!("solid-back-cull-changes-image|{name}|view{vi}"), format!("{diff_back} pixels differ (beyond silhouette depth ties) between face_cull None and Back for a closed convex solid: Back culling removes visible faces"), case()); return; }
    if diff_front < drawn / 4 { r.violation(format!("solid-front-cull-same-image|{name}|view{vi}"), format!("only {diff_front} of {drawn} pixels differ between face_cull None and Front: Front culling does not remove the visible faces"), case()); return; }
    r.nontrivial();
}

/// statistics accumulate over calls, including calls in which nothing survives, and through the Batch door
fn check_accumulation(sc: &Scene, si: usize, hidden_tri: &STri, rep: &mut Report) {
    // the context's statistics start from Stats::new() (the default) or from Stats::start() (a running timer, as the
    // documentation suggests for timing frames): what is accumulated must not depend on that
    for timed in [false, true] { check_accumulation_from(sc, si, hidden_tri, timed, rep); }
}
fn check_accumulation_from(sc: &Scene, si: usize, hidden_tri: &STri, timed: bool, rep: &mut Report) {
    rep.eval();
    let ctx = if timed { Context { stats: std::cell::RefCell::new(re::render::stats::Stats::start()), ..ctx_plain() } } else { ctx_plain() };
    let hidden = Scene { tris: vec![hidden_tri.clone()], ..sc.clone() };
    let a = render_scene(sc, None, Door::Render, TargetKind::Owned, &ctx, Discard::Never, None);
    let b = render_scene(&hidden, None, Door::Render, TargetKind::Owned, &ctx, Discard::Never, None);
    let e = render_scene(&Scene { tris: vec![], ..sc.clone() }, None, Door::Render, TargetKind::Owned, &ctx, Discard::Never, None);
    let c = render_scene(sc, None, Door::Batch, TargetKind::Owned, &ctx, Discard::Never, None);
    if let (Ok(a), Ok(b), Ok(e), Ok(c)) = (a, b, e, c) {
        let tot = ctx.stats.borrow().clone();
        let okc = tot.calls == 4.0 && b.stats.calls == 1.0 && e.stats.calls == 1.0 && b.stats.prims.i == 1 && b.stats.prims.o == 0 && b.stats.verts.i == 3 && e.stats.prims.i == 0;
        let oks = tot.prims.i == a.stats.prims.i + 1 + c.stats.prims.i && tot.frags.i == a.stats.frags.i + c.stats.frags.i && tot.frags.o == a.stats.frags.o + c.stats.frags.o && tot.prims.o == a.stats.prims.o + c.stats.prims.o && a.stats.frags.i == c.stats.frags.i;
        if !okc || !oks { rep.violation(format!("stats-accumulation|scene{si}{}|{}", if timed { "|from Stats::start()" } else { "" }, short(sc)), format!("after 4 calls (scene, fully hidden triangle, empty list, scene via Batch): calls={} prims={}/{} frags={}/{}; per call: {:?} {:?} {:?} {:?}", tot.calls, tot.prims.i, tot.prims.o, tot.frags.i, tot.frags.o, (a.stats.calls, a.stats.prims.i, a.stats.prims.o), (b.stats.calls, b.stats.prims.i, b.stats.prims.o), (e.stats.calls, e.stats.prims.i), (c.stats.calls, c.stats.prims.i, c.stats.prims.o)), obj! {"kind" => "accum", "scene" => scene_json(sc)}); } else { rep.nontrivial(); }
    }
}

/// History at scale: a long-running context. After N render calls (empty triangle lists: nothing but the bookkeeping) the
/// `calls` statistic must be N; N = 2^24 + 10 is representable in the f32 the field is declared as.
fn check_calls_at_scale(r: &mut Report) {
    r.eval();
    let n: u32 = (1 << 24) + 10;
    let ctx = ctx_plain();
    let mut fb = Framebuf { color_buf: Buf2::<u32>::new((1, 1)), depth_buf: Buf2::<f32>::new((1, 1)) };
    let sh = AttrShader::new(Discard::Never);
    let (faces, verts): ([Tri<usize>; 0], [Vtx; 0]) = ([], []);
    let vp = viewport(pt2(0u32, 0u32)..pt2(1u32, 1u32));
    if let Err(p) = caught(|| for _ in 0..n { render(&faces, &verts, &sh, (), vp, &mut fb, &ctx); }) { r.violation("render-panic|calls-at-scale".into(), p, obj! {"kind" => "calls-at-scale"}); return; }
    let calls = ctx.stats.borrow().calls as f64;
    if calls != n as f64 { r.violation(format!("stats-calls-at-scale|n={n}"), format!("after {n} render() calls on one context the statistics report calls = {calls}"), obj! {"kind" => "calls-at-scale"}); } else { r.nontrivial(); }
    r.h("calls-at-scale");
}

fn run_config(cfg: &Cfg) -> ! {
    let quick = cfg.quick();
    let mut rep = Report::new();
    // scenes: 1-3 triangles from the order pool (both vertex orders) + lattice triangles
    let pool = order_pool();
    let mut scenes: Vec<Scene> = vec![];
    let vps = [(8u32, 8u32, (0u32, 0u32, 8u32, 8u32)), (8, 6, (1, 2, 7, 5)), (8, 8, (8, 0, 0, 8))];
    for (i, a) in pool.iter().enumerate() {
        let (bw, bh, vp) = vps[i % 2];
        scenes.push(Scene { tris: vec![a.clone()], bw, bh, vp });
        scenes.push(Scene { tris: vec![STri { v: [a.v[0], a.v[2], a.v[1]], a: a.a }], bw, bh, vp });
        for (j, b) in pool.iter().enumerate() { if (i + 2 * j) % 5 == 0 && i != j { scenes.push(Scene { tris: vec![a.clone(), b.clone()], bw, bh, vp }); if (i + j) % 3 == 0 { scenes.push(Scene { tris: vec![b.clone(), a.clone(), pool[(i + j) % pool.len()].clone()], bw, bh, vp }); } } }
    }
    // histories inside one call: a triangle that needs clipping yet leaves nothing (#17, past the top-right corner), then
    // - directly or after an untouched one - triangles that are partially clipped (#7, #8, #18), and the reverse orders
    for seq in [vec![17usize, 7], vec![17, 8], vec![17, 18], vec![17, 4, 7], vec![7, 17], vec![17, 10, 8, 17, 18], vec![8, 17, 7]] { scenes.push(Scene { tris: seq.iter().map(|&k| pool[k].clone()).collect(), bw: 8, bh: 8, vp: (0, 0, 8, 8) }); }
    // faces with a repeated index (two corners sharing one vertex), alone and among ordinary triangles: they are submitted
    // primitives like any other
    for k in [0usize, 1, 5, 7] { let t = &pool[k]; for (a, b) in [(1usize, 0usize), (2, 0), (2, 1)] { let mut d = t.clone(); d.v[a] = d.v[b]; d.a[a] = d.a[b]; scenes.push(Scene { tris: vec![d.clone()], bw: 8, bh: 8, vp: (0, 0, 8, 8) }); scenes.push(Scene { tris: vec![pool[2].clone(), d.clone(), pool[0].clone(), d], bw: 8, bh: 8, vp: (0, 0, 8, 8) }); } }
    scenes.push(Scene { tris: vec![], bw: 4, bh: 4, vp: (0, 0, 4, 4) });
    // viewports without width, height or both: nothing can be drawn, and the call is a call like any other (through the camera
    // door the same rectangles arrive as requests to Camera::viewport)
    for (k, vp) in [(3u32, 3u32, 3u32, 6u32), (2, 5, 6, 5), (8, 0, 8, 4), (4, 4, 4, 4), (0, 8, 5, 8)].into_iter().enumerate() { scenes.push(Scene { tris: vec![pool[k].clone()], bw: 8, bh: 8, vp }); scenes.push(Scene { tris: vec![pool[1].clone(), pool[k + 2].clone()], bw: 8, bh: 8, vp }); }
    // scale sentinels: hundreds of triangles in one call (counters beyond 255), and a wide buffer (columns beyond 255)
    scenes.push(Scene { tris: (0..300).map(|k| pool[k % pool.len()].clone()).collect(), bw: 8, bh: 8, vp: (0, 0, 8, 8) });
    scenes.push(Scene { tris: (0..70).map(|k| pool[(k * 5) % pool.len()].clone()).collect(), bw: 300, bh: 4, vp: (0, 0, 300, 4) });
    // slivers that survive clipping and culling but span no pixel-row (or pixel-column) centre: they must still be counted
    for (k, ys) in [[-0.35f32, -0.30, -0.15], [0.02, 0.10, 0.22], [-0.98, -0.90, -0.80]].iter().enumerate() {
        for w in [1.0f32, 2.5] {
            let t = STri { v: [[-0.5 * w, ys[0] * w, 0.1 * w, w], [0.5 * w, ys[1] * w, 0.2 * w, w], [0.0, ys[2] * w, 0.0, w]], a: PERMS[k] };
            scenes.push(Scene { tris: vec![t.clone()], bw: 8, bh: 8, vp: (0, 0, 8, 8) });
            scenes.push(Scene { tris: vec![STri { v: [t.v[0], t.v[2], t.v[1]], a: t.a }, pool[1].clone()], bw: 8, bh: 8, vp: (0, 0, 8, 8) });
            let tx = STri { v: [[ys[0] * w, -0.5 * w, 0.1 * w, w], [ys[1] * w, 0.5 * w, 0.2 * w, w], [ys[2] * w, 0.0, 0.0, w]], a: PERMS[k] };
            scenes.push(Scene { tris: vec![tx], bw: 8, bh: 8, vp: (0, 0, 8, 8) });
        }
    }
    let lat = image_lattice(true);
    let ln = lat.len();
    let extra = if quick { 60 } else { 3000 };
    for k in 0..extra { let i = k * 7919 + 13; let t = [lat[i % ln], lat[(i / ln + i * 3) % ln], lat[(i / ln / ln + i * 7) % ln]]; if rank_deficient(&t) { continue; } scenes.push(Scene { tris: vec![STri { v: t, a: PERMS[k % 6] }], bw: 8, bh: 8, vp: (0, 0, 8, 8) }); }
    let ns = scenes.len() as u64;
    rep.set("scenes", ns);
    // 144 flag sets x 3 discard modes x 2 target kinds
    rep.merge(par_range(cfg, ns * 144 * 3 * 2, |i, r| {
        let (s, f, d, k) = (i % ns, (i / ns % 144) as u32, i / ns / 144 % 3, i / ns / 432);
        let sc = &scenes[s as usize];
        if sc.vp.0 > sc.vp.2 { return; } // mirrored viewports only for the culling check
        check_config_door(sc, f, [Discard::Never, Discard::Always, Discard::Parity][d as usize], [TargetKind::Owned, TargetKind::ColorOnly][k as usize], DOORS[((s + f as u64 + d) % 3) as usize], r);
    }));
    // the depth predicate against stored depths within two ulps of the fragment's own: single-triangle scenes x doors x shifts
    {
        let singles: Vec<&Scene> = scenes.iter().filter(|s| s.tris.len() == 1 && s.vp.0 <= s.vp.2).collect();
        let n1 = singles.len() as u64;
        rep.merge(par_range(cfg, n1 * 3 * 5 * 2, |i, r| check_depth_predicate(singles[(i % n1) as usize], [TargetKind::Owned, TargetKind::SubView][(i / n1 / 15) as usize], DOORS[(i / n1 % 3) as usize], (i / n1 / 3 % 5) as usize, r)));
    }
    // scale: one call with more faces than 2^14 and 2^16, through every door (a call is one call however much it draws)
    for (n, door) in [(16385usize, Door::Batch), (16500, Door::Render), (if quick { 16385 } else { 65600 }, Door::Camera), (if quick { 20000 } else { 70000 }, Door::Batch)] {
        let sc = Scene { tris: (0..n).map(|k| pool[(k * 5 + k / 7) % pool.len()].clone()).collect(), bw: 8, bh: 8, vp: (0, 0, 8, 8) };
        let mut r = Report::new();
        check_config_door(&sc, 0, Discard::Never, TargetKind::ColorOnly, door, &mut r);
        r.h("many-thousand-face-call");
        rep.merge(r);
    }
    if !quick { let mut r = Report::new(); check_calls_at_scale(&mut r); rep.merge(r); }
    // culling: every visible pool/lattice triangle x viewports incl. axis-mirrored ones x target kinds
    let mut tris: Vec<STri> = pool.clone();
    for k in 0..(if quick { 300 } else { 30000 }) { let i = k * 104729 + 7; let t = [lat[i % ln], lat[(i / ln + i * 5) % ln], lat[(i / ln / ln + i * 11) % ln]]; if clip_class(&t) != "hidden" && !rank_deficient(&t) { tris.push(STri { v: t, a: PERMS[k % 6] }); } }
    for s in [0.3f32, 0.9] { for (cx, cy) in [(0.0f32, 0.0f32), (0.4, -0.3)] { for w in [1.0f32, 0.5, 2.0] { tris.push(STri { v: [[(cx - s) * w, (cy - s) * w, 0.1 * w, w], [(cx + s) * w, (cy - s * 0.8) * w, 0.2 * w, w], [cx * w, (cy + s) * w, 0.0, w]], a: PERMS[0] }); } } }
    let nt = tris.len() as u64;
    let cvps = [(8u32, 8u32, (0u32, 0u32, 8u32, 8u32)), (8, 6, (1, 2, 7, 5)), (8, 8, (8, 0, 0, 8)), (8, 8, (0, 8, 8, 0)), (8, 8, (8, 8, 0, 0)), (16, 9, (0, 0, 16, 9))];
    rep.merge(par_range(cfg, nt * cvps.len() as u64 * 2, |i, r| {
        let (t, v, k) = (&tris[(i % nt) as usize], cvps[(i / nt % 6) as usize], i / nt / 6);
        check_cull(t, v.0, v.1, v.2, [TargetKind::Owned, TargetKind::ColorOnly][k as usize], r);
    }));
    // (quick: every fifth parameter value)
    if quick { rep.merge(par_range(cfg, 8 * 820 * 9, |j, r| { let (pair, k, nbr) = (j % 8, (j / 8 % 820) * 5 + 1, j / 6560); check_cull_sliver_k(pair, k, nbr, pair + 8 * k + 32768 * nbr, r) })); } else { rep.merge(par_range(cfg, 8 * 4096 * 9, check_cull_sliver)); }
    rep.merge(par_range(cfg, 9 * 6, |i, r| check_solid_culling((i % 9) as usize, (i / 9) as usize, r)));
    // triangles of 1/2 .. 1/512 px around every pixel centre of the 8x8 frame x 3 shapes x 2 targets
    // ... and far from the screen origin of a 1920 x 1080 frame (non-lattice corners: sizes 0.15 .. 0.7 px)
    rep.merge(par_range(cfg, 6 * 6 * 3, |i, r| { let (cx, cy) = [(1900u32, 1060u32), (1919, 1079), (1000, 700), (1700, 300), (1899, 541), (961, 1071)][(i % 6) as usize]; check_cull_small_in(1920, 1080, cx, cy, [0.15f32, 0.2, 0.3, 0.45, 0.6, 0.7][(i / 6 % 6) as usize], (i / 36) as usize, TargetKind::Owned, r) }));
    rep.merge(par_range(cfg, 64 * 9 * 3 * 2, |i, r| check_cull_small((i % 8) as u32, (i / 8 % 8) as u32, [0.5f32, 0.25, 0.125, 0.0625, 0.03125, 0.015625, 0.0078125, 0.00390625, 0.001953125][(i / 64 % 9) as usize], (i / 576 % 3) as usize, [TargetKind::Owned, TargetKind::ColorOnly][(i / 1728) as usize], r)));
    // statistics accumulate over calls, including calls in which nothing survives
    for (si, sc) in scenes.iter().enumerate().take(if quick { 60 } else { scenes.len() }) {
        if sc.vp.0 > sc.vp.2 { continue; }
        check_accumulation(sc, si, &pool[10], &mut rep);
    }
    rep.sample(0, || obj! {"scene" => "2 overlapping triangles, 8x6 buffer viewport (1,2)..(7,5)", "flags" => "cull Front, sort BackToFront, test Greater, color_write off, depth_write on", "discard" => "Parity", "target" => "ColorOnly"});
    rep.finish(cfg, "exploration",
        "scenes (1-3 pool triangles in both vertex orders, lattice triangles, the empty list) x all 144 Context combinations (face_cull x depth_sort x depth_test x color_write x depth_write) x fragment shader {never, always, checkerboard discard} x target {Framebuf, colour-only}: write masks leave their buffer untouched, colour writes do not influence depth, disabled test => every generated fragment is shaded and depth is written wherever colour is, discarding shader writes nothing, and Stats (calls, prims, verts, frags in/out) equal independent counts (submitted sizes, harness-side clip class and on-screen winding, shader invocation counters of twin runs, changed-pixel counts), accumulate over calls incl. calls where nothing survives and the Batch door; culling: every unclipped and every clipped triangle (incl. vertices behind the viewer; winding = signed area of the exact visible part) with at least one unambiguous interior pixel, in both vertex orders x 3 modes x 6 viewports incl. axis-mirrored ones x 2 targets, plus triangles of 1/2..1/512 px around every pixel centre (judged when the centre is > 0.002 px inside): exactly one order drawn, chosen by the harness's own on-screen signed area, both drawn and equal away from edge pixels when off; convention-free cross-check: nine closed convex solids from geom::solids x six view directions through Camera::render look the same with Back culling as without (up to silhouette depth ties) and different with Front culling. non-trivial = configuration fully judged.",
        &["Back-face convention: positive on-screen signed area (x1-x0)(y2-y0)-(y1-y0)(x2-x0) is a back face, as implied by the solids' outward normals (C15)", "prims.o of a clipped triangle = number of pieces view_frustum::clip (C03) returns for it, all with the winding of the exact visible part; not judged when a piece has next to no on-screen area", "on-screen winding of a clipped triangle = signed area of its exact visible part (vertex enumeration, not the library's clipper)"]);
}

fn main() {
    silence_panics();
    let cfg = Cfg::from_args(|s| match s { "image" => "C01", "safety" => "C02", "order" => "C06", _ => "C07" }.into());
    if cfg.replay.is_some() {
        replay_main(&cfg, |c, r| {
            let door = |c: &J| match c.get("door").and_then(|j| j.as_str()).unwrap_or("") { "Batch" => Door::Batch, "Camera" => Door::Camera, _ => Door::Render };
            let kind = |c: &J| match c.get("target").and_then(|j| j.as_str()).unwrap_or("") { "SubView" => TargetKind::SubView, "ColorOnly" => TargetKind::ColorOnly, "ColorOnlySub" => TargetKind::ColorOnlySub, _ => TargetKind::Owned };
            match c.get("kind").and_then(|j| j.as_str()).unwrap_or("") {
                "image" => check_image_ctx(&scene_from(c.get("scene").unwrap()), door(c), kind(c), c.get("painter").and_then(|j| j.as_u64()).unwrap_or(0) as u8, r),
                "safety" => {
                    let f: Vec<f32> = c.get("verts").unwrap().as_arr().unwrap().iter().map(|x| parse_fbits(x).unwrap()).collect();
                    let t: Vec<[f32; 3]> = f.chunks(3).map(|c| [c[0], c[1], c[2]]).collect();
                    let g = |k: &str| c.get(k).and_then(|j| j.as_u64()).unwrap_or(0) as u32;
                    let vp: Vec<u32> = c.get("vp").unwrap().as_arr().unwrap().iter().map(|x| x.as_u64().unwrap() as u32).collect();
                    check_safety(&t, SafetyCfg { proj: g("proj") as u8, bw: g("bw"), bh: g("bh"), vp: (vp[0], vp[1], vp[2], vp[3]), flags: g("flags"), sub: c.get("sub") == Some(&J::Bool(true)) }, r)
                }
                "default-ctx" => check_default_context_large(c.get("i").unwrap().as_u64().unwrap(), r),
                "calls-at-scale" => check_calls_at_scale(r),
                "masked-occluder" => { let pool = order_pool(); check_masked_occluder(&pool[c.get("a").unwrap().as_u64().unwrap() as usize], &pool[c.get("b").unwrap().as_u64().unwrap() as usize], (c.get("a").unwrap().as_u64().unwrap() as usize, c.get("b").unwrap().as_u64().unwrap() as usize), r) }
                "painter-scale" => check_painter_scale(c.get("n").unwrap().as_u64().unwrap() as usize, r),
                "tall-perspective" => check_tall_perspective(c.get("i").unwrap().as_u64().unwrap(), r),
                "order-ulp" => check_order_ulp(c.get("i").unwrap().as_u64().unwrap(), r),
                "safety-camera" => {
                    let f: Vec<f32> = c.get("verts").unwrap().as_arr().unwrap().iter().map(|x| parse_fbits(x).unwrap()).collect();
                    let t: Vec<[f32; 3]> = f.chunks(3).map(|c| [c[0], c[1], c[2]]).collect();
                    let u = |k: &str| -> Vec<u32> { c.get(k).unwrap().as_arr().unwrap().iter().map(|x| x.as_u64().unwrap() as u32).collect() };
                    let (d, q) = (u("dims"), u("req"));
                    check_safety_camera(&t, (d[0], d[1]), (q[0], q[1], q[2], q[3]), c.get("alt") == Some(&J::Bool(true)), r)
                }
                "order" | "painter" => explore_order(&scene_from(c.get("scene").unwrap()), r, 0, if c.get("discard").and_then(|j| j.as_str()) == Some("Parity") { Discard::Parity } else { Discard::Never }),
                "config" => check_config_door(&scene_from(c.get("scene").unwrap()), c.get("flags").unwrap().as_u64().unwrap() as u32, match c.get("discard").and_then(|j| j.as_str()).unwrap_or("") { "Always" => Discard::Always, "Parity" => Discard::Parity, _ => Discard::Never }, kind(c), match c.get("door").and_then(|j| j.as_str()).unwrap_or("") { "Batch" => Door::Batch, "Camera" => Door::Camera, _ => Door::Render }, r),
                "depth-pred" => check_depth_predicate(&scene_from(c.get("scene").unwrap()), kind(c), match c.get("door").and_then(|j| j.as_str()).unwrap_or("") { "Batch" => Door::Batch, "Camera" => Door::Camera, _ => Door::Render }, c.get("shift").and_then(|j| j.as_u64()).unwrap_or(0) as usize, r),
                "cull-sliver" => check_cull_sliver(c.get("i").unwrap().as_u64().unwrap(), r),
                "prepass" => check_depth_prepass(&scene_from(c.get("scene").unwrap()), c.get("id").and_then(|j| j.as_u64()).unwrap_or(0), r),
                "ortho-depth" => check_ortho_depth(c.get("i").unwrap().as_u64().unwrap(), r),
                "accum" => { let pool = order_pool(); check_accumulation(&scene_from(c.get("scene").unwrap()), 0, &pool[10], r) }
                "solid" => check_solid_culling(c.get("solid").unwrap().as_u64().unwrap() as usize, c.get("view").unwrap().as_u64().unwrap() as usize, r),
                "cull" => { let s = scene_from(c.get("scene").unwrap()); check_cull(&s.tris[0], s.bw, s.bh, s.vp, kind(c), r) }
                "cull-small" => check_cull_small_in(c.get("bw").and_then(|j| j.as_u64()).unwrap_or(8) as u32, c.get("bh").and_then(|j| j.as_u64()).unwrap_or(8) as u32, c.get("cx").unwrap().as_u64().unwrap() as u32, c.get("cy").unwrap().as_u64().unwrap() as u32, parse_fbits(c.get("size").unwrap()).unwrap(), c.get("shape").unwrap().as_u64().unwrap() as usize, kind(c), r),
                k => machinery_error(&format!("replay kind {k} unsupported")),
            }
        });
    }
    match cfg.part.split('-').next().unwrap_or("") { "image" => run_image(&cfg), "safety" => run_safety(&cfg), "order" => run_order(&cfg), _ => run_config(&cfg) }
}
