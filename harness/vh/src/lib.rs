//! Shared machinery for the retrofire exploration engines.
pub mod json;
pub mod report;
pub mod pipe;
pub mod inflight;

pub use json::{fbits, parse_fbits, J};
pub use report::{fnv, par_range, replay_main, Cfg, Report, Tier, Viol};

use std::panic::{catch_unwind, AssertUnwindSafe};

/// Install a panic hook that prints nothing (subject panics are observations).
pub fn silence_panics() {
    report::install_panic_hook();
}

/// Run `f`, turning a panic into `Err(message)`.
pub fn caught<T>(f: impl FnOnce() -> T) -> Result<T, String> {
    catch_unwind(AssertUnwindSafe(f)).map_err(|e| {
        if let Some(s) = e.downcast_ref::<&str>() {
            s.to_string()
        } else if let Some(s) = e.downcast_ref::<String>() {
            s.clone()
        } else {
            "<non-string panic>".to_string()
        }
    })
}

pub fn machinery_error(msg: &str) -> ! {
    eprintln!("MACHINERY-ERROR {msg}");
    std::process::exit(2)
}
