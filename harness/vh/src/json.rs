//! Minimal JSON value, writer and parser (no third-party crates available/needed).
use std::collections::BTreeMap;
use std::fmt::Write;

#[derive(Clone, Debug, PartialEq)]
pub enum J {
    Null,
    Bool(bool),
    Int(i64),
    UInt(u64),
    Num(f64),
    Str(String),
    Arr(Vec<J>),
    Obj(Vec<(String, J)>),
}

impl From<bool> for J { fn from(v: bool) -> J { J::Bool(v) } }
impl From<i32> for J { fn from(v: i32) -> J { J::Int(v as i64) } }
impl From<i64> for J { fn from(v: i64) -> J { J::Int(v) } }
impl From<u8> for J { fn from(v: u8) -> J { J::UInt(v as u64) } }
impl From<u32> for J { fn from(v: u32) -> J { J::UInt(v as u64) } }
impl From<u64> for J { fn from(v: u64) -> J { J::UInt(v) } }
impl From<usize> for J { fn from(v: usize) -> J { J::UInt(v as u64) } }
impl From<f32> for J { fn from(v: f32) -> J { J::Num(v as f64) } }
impl From<f64> for J { fn from(v: f64) -> J { J::Num(v) } }
impl From<&str> for J { fn from(v: &str) -> J { J::Str(v.to_string()) } }
impl From<String> for J { fn from(v: String) -> J { J::Str(v) } }
impl<T: Into<J>> From<Vec<T>> for J {
    fn from(v: Vec<T>) -> J { J::Arr(v.into_iter().map(Into::into).collect()) }
}
impl<T: Into<J> + Clone> From<&[T]> for J {
    fn from(v: &[T]) -> J { J::Arr(v.iter().cloned().map(Into::into).collect()) }
}
impl<T: Into<J>, const N: usize> From<[T; N]> for J {
    fn from(v: [T; N]) -> J { J::Arr(v.into_iter().map(Into::into).collect()) }
}
impl<T: Into<J>> From<BTreeMap<String, T>> for J {
    fn from(v: BTreeMap<String, T>) -> J {
        J::Obj(v.into_iter().map(|(k, v)| (k, v.into())).collect())
    }
}

#[macro_export]
macro_rules! obj {
    ($($k:expr => $v:expr),* $(,)?) => {
        $crate::json::J::Obj(vec![$(($k.to_string(), $crate::json::J::from($v))),*])
    };
}

impl J {
    pub fn get(&self, k: &str) -> Option<&J> {
        match self {
            J::Obj(v) => v.iter().find(|(kk, _)| kk == k).map(|(_, v)| v),
            _ => None,
        }
    }
    pub fn set(&mut self, k: &str, val: J) {
        if let J::Obj(v) = self {
            if let Some(e) = v.iter_mut().find(|(kk, _)| kk == k) {
                e.1 = val;
            } else {
                v.push((k.to_string(), val));
            }
        }
    }
    pub fn as_str(&self) -> Option<&str> {
        if let J::Str(s) = self { Some(s) } else { None }
    }
    pub fn as_f64(&self) -> Option<f64> {
        match self {
            J::Int(i) => Some(*i as f64),
            J::UInt(i) => Some(*i as f64),
            J::Num(n) => Some(*n),
            _ => None,
        }
    }
    pub fn as_i64(&self) -> Option<i64> {
        match self {
            J::Int(i) => Some(*i),
            J::UInt(i) => Some(*i as i64),
            J::Num(n) => Some(*n as i64),
            _ => None,
        }
    }
    pub fn as_u64(&self) -> Option<u64> {
        match self {
            J::Int(i) => Some(*i as u64),
            J::UInt(i) => Some(*i),
            J::Num(n) => Some(*n as u64),
            _ => None,
        }
    }
    pub fn as_arr(&self) -> Option<&[J]> {
        if let J::Arr(a) = self { Some(a) } else { None }
    }
    pub fn to_string(&self) -> String {
        let mut s = String::new();
        self.write(&mut s);
        s
    }
    pub fn write(&self, s: &mut String) {
        match self {
            J::Null => s.push_str("null"),
            J::Bool(b) => s.push_str(if *b { "true" } else { "false" }),
            J::Int(i) => { let _ = write!(s, "{i}"); }
            J::UInt(i) => { let _ = write!(s, "{i}"); }
            J::Num(n) => {
                if n.is_finite() {
                    // shortest round-trip repr; make sure it is valid JSON
                    let t = format!("{n:?}");
                    s.push_str(&t);
                } else {
                    // JSON has no NaN/inf: encode as string
                    let _ = write!(s, "\"{n}\"");
                }
            }
            J::Str(t) => {
                s.push('"');
                for c in t.chars() {
                    match c {
                        '"' => s.push_str("\\\""),
                        '\\' => s.push_str("\\\\"),
                        '\n' => s.push_str("\\n"),
                        '\r' => s.push_str("\\r"),
                        '\t' => s.push_str("\\t"),
                        c if (c as u32) < 0x20 => { let _ = write!(s, "\\u{:04x}", c as u32); }
                        c => s.push(c),
                    }
                }
                s.push('"');
            }
            J::Arr(a) => {
                s.push('[');
                for (i, v) in a.iter().enumerate() {
                    if i > 0 { s.push(','); }
                    v.write(s);
                }
                s.push(']');
            }
            J::Obj(o) => {
                s.push('{');
                for (i, (k, v)) in o.iter().enumerate() {
                    if i > 0 { s.push(','); }
                    J::Str(k.clone()).write(s);
                    s.push(':');
                    v.write(s);
                }
                s.push('}');
            }
        }
    }
}

/// f32 as exact bit pattern string, for replay files ("0x3f800000").
pub fn fbits(x: f32) -> J { J::Str(format!("{:#010x}", x.to_bits())) }
pub fn parse_fbits(j: &J) -> Option<f32> {
    match j {
        J::Str(s) => {
            let s = s.trim_start_matches("0x");
            u32::from_str_radix(s, 16).ok().map(f32::from_bits)
        }
        other => other.as_f64().map(|v| v as f32),
    }
}

pub fn parse(src: &str) -> Result<J, String> {
    let b = src.as_bytes();
    let mut p = 0usize;
    let v = parse_val(b, &mut p)?;
    ws(b, &mut p);
    if p != b.len() { return Err(format!("trailing data at {p}")); }
    Ok(v)
}
fn ws(b: &[u8], p: &mut usize) {
    while *p < b.len() && matches!(b[*p], b' ' | b'\n' | b'\r' | b'\t') { *p += 1; }
}
fn parse_val(b: &[u8], p: &mut usize) -> Result<J, String> {
    ws(b, p);
    if *p >= b.len() { return Err("eof".into()); }
    match b[*p] {
        b'{' => {
            *p += 1;
            let mut o = vec![];
            ws(b, p);
            if b.get(*p) == Some(&b'}') { *p += 1; return Ok(J::Obj(o)); }
            loop {
                ws(b, p);
                let k = match parse_val(b, p)? { J::Str(s) => s, _ => return Err("key".into()) };
                ws(b, p);
                if b.get(*p) != Some(&b':') { return Err(format!("expected : at {p}")); }
                *p += 1;
                let v = parse_val(b, p)?;
                o.push((k, v));
                ws(b, p);
                match b.get(*p) {
                    Some(b',') => *p += 1,
                    Some(b'}') => { *p += 1; return Ok(J::Obj(o)); }
                    _ => return Err(format!("expected , or }} at {p}")),
                }
            }
        }
        b'[' => {
            *p += 1;
            let mut a = vec![];
            ws(b, p);
            if b.get(*p) == Some(&b']') { *p += 1; return Ok(J::Arr(a)); }
            loop {
                a.push(parse_val(b, p)?);
                ws(b, p);
                match b.get(*p) {
                    Some(b',') => *p += 1,
                    Some(b']') => { *p += 1; return Ok(J::Arr(a)); }
                    _ => return Err(format!("expected , or ] at {p}")),
                }
            }
        }
        b'"' => {
            *p += 1;
            let mut s = Vec::new();
            while *p < b.len() && b[*p] != b'"' {
                if b[*p] == b'\\' {
                    *p += 1;
                    match b.get(*p) {
                        Some(b'n') => s.push(b'\n'),
                        Some(b'r') => s.push(b'\r'),
                        Some(b't') => s.push(b'\t'),
                        Some(b'u') => {
                            let h = std::str::from_utf8(&b[*p + 1..*p + 5]).map_err(|e| e.to_string())?;
                            let c = u32::from_str_radix(h, 16).map_err(|e| e.to_string())?;
                            let mut buf = [0u8; 4];
                            s.extend_from_slice(char::from_u32(c).unwrap_or('?').encode_utf8(&mut buf).as_bytes());
                            *p += 4;
                        }
                        Some(&c) => s.push(c),
                        None => return Err("eof in string".into()),
                    }
                } else {
                    s.push(b[*p]);
                }
                *p += 1;
            }
            *p += 1;
            Ok(J::Str(String::from_utf8_lossy(&s).into_owned()))
        }
        b't' => { *p += 4; Ok(J::Bool(true)) }
        b'f' => { *p += 5; Ok(J::Bool(false)) }
        b'n' => { *p += 4; Ok(J::Null) }
        _ => {
            let st = *p;
            while *p < b.len() && matches!(b[*p], b'-' | b'+' | b'.' | b'e' | b'E' | b'0'..=b'9') { *p += 1; }
            let t = std::str::from_utf8(&b[st..*p]).unwrap();
            if let Ok(i) = t.parse::<i64>() { return Ok(J::Int(i)); }
            if let Ok(i) = t.parse::<u64>() { return Ok(J::UInt(i)); }
            t.parse::<f64>().map(J::Num).map_err(|e| format!("{e} at {st}: {t:?}"))
        }
    }
}
