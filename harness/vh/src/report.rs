//! Run bookkeeping: counts, histograms, samples, violations, evidence parts.
use crate::json::{self, J};
use crate::obj;
use std::collections::BTreeMap;
use std::sync::atomic::{AtomicU64, Ordering};
use std::time::{Duration, Instant};

// ---- panics of the library under exploration that escape an engine's own catch_unwind ------------------------------
thread_local! { static LAST_PANIC_LOC: std::cell::RefCell<Option<String>> = const { std::cell::RefCell::new(None) }; }
static PAR_CALL: AtomicU64 = AtomicU64::new(0);
static ONLY: std::sync::OnceLock<(u64, u64)> = std::sync::OnceLock::new();

/// Panic hook: remembers where the panic was raised (file:line), prints nothing unless VERIF_DEBUG_PANIC is set.
pub fn install_panic_hook() {
    let verbose = std::env::var("VERIF_DEBUG_PANIC").is_ok();
    let default = std::panic::take_hook();
    std::panic::set_hook(Box::new(move |info| {
        let loc = info.location().map(|l| format!("{}:{}", l.file(), l.line()));
        LAST_PANIC_LOC.with(|c| *c.borrow_mut() = loc);
        if verbose { default(info); }
    }));
}
fn panic_text(e: Box<dyn std::any::Any + Send>) -> String {
    if let Some(s) = e.downcast_ref::<&str>() { s.to_string() } else if let Some(s) = e.downcast_ref::<String>() { s.clone() } else { "<non-string panic>".into() }
}
/// Runs one index of a parallel range. A panic raised inside the library's own sources (path contains "/repo/" or the
/// crate's src/ tree) that no check anticipated is a verdict about the library - recorded as a violation replayable by
/// (call, index); a panic raised in harness code is a machinery error.
fn guarded<F: Fn(u64, &mut Report)>(f: &F, call: u64, i: u64, r: &mut Report) {
    if let Err(e) = std::panic::catch_unwind(std::panic::AssertUnwindSafe(|| f(i, r))) {
        let msg = panic_text(e);
        let loc = LAST_PANIC_LOC.with(|c| c.borrow_mut().take()).unwrap_or_default();
        let in_library = loc.contains("/repo/") || loc.starts_with("core/src/") || loc.starts_with("geom/src/");
        if !in_library { eprintln!("MACHINERY-ERROR worker panicked in harness code at {loc}: {msg}"); std::process::exit(2); }
        let site = loc.rsplit("/repo/").next().unwrap_or(&loc).to_string();
        r.violation(format!("library-panic|{site}|call{call}|index{i}"), format!("the library panicked at {site} where no check anticipated a panic: {msg}"), obj! {"kind" => "par-index", "call" => call, "i" => i, "loc" => site.as_str()});
    }
}

#[derive(Clone, Debug)]
pub struct Viol {
    /// clause + canonical input; identifies the finding (matched by known_findings patterns)
    pub key: String,
    /// human readable: observed vs expected
    pub what: String,
    /// replayable case (engine-specific), re-executed by `--replay`
    pub case: J,
}

#[derive(Clone, Copy, PartialEq, Eq, Debug)]
pub enum Tier { Quick, Thorough }

#[derive(Clone)]
pub struct Cfg {
    pub prop: String,
    pub part: String,
    pub tier: Tier,
    pub seed: i64,
    pub out_dir: String,
    pub start: Instant,
    pub deadline: Instant,
    pub replay: Option<String>,
    pub args: Vec<String>,
}

impl Cfg {
    /// argv: <bin> <sub> <tier> [--replay F] [extra...]
    pub fn from_args(prop_of_sub: impl Fn(&str) -> String) -> Cfg {
        let argv: Vec<String> = std::env::args().collect();
        if argv.len() < 3 {
            eprintln!("usage: {} <sub> <quick|thorough> [--replay FILE]", argv[0]);
            std::process::exit(2);
        }
        let sub = argv[1].clone();
        let tier = match argv[2].as_str() {
            "quick" => Tier::Quick,
            "thorough" => Tier::Thorough,
            t => { eprintln!("MACHINERY-ERROR bad tier {t}"); std::process::exit(2) }
        };
        let mut replay = None;
        let mut rest = vec![];
        let mut i = 3;
        while i < argv.len() {
            if argv[i] == "--replay" { replay = argv.get(i + 1).cloned(); i += 2; }
            else { rest.push(argv[i].clone()); i += 1; }
        }
        let seed = std::env::var("VERIF_SEED").ok().and_then(|s| s.parse().ok()).unwrap_or(0);
        let out_dir = std::env::var("VERIF_OUT").unwrap_or_else(|_| "/verif".into());
        let cap_s: u64 = std::env::var("VERIF_WALL_CAP").ok().and_then(|s| s.parse().ok())
            .unwrap_or(if tier == Tier::Quick { 150 } else { 2400 });
        let start = Instant::now();
        Cfg {
            prop: prop_of_sub(&sub),
            part: std::env::var("VERIF_PART").unwrap_or(sub),
            tier,
            seed,
            out_dir,
            start,
            deadline: start + Duration::from_secs(cap_s),
            replay,
            args: rest,
        }
    }
    pub fn quick(&self) -> bool { self.tier == Tier::Quick }
    pub fn expired(&self) -> bool { Instant::now() >= self.deadline }
    pub fn threads(&self) -> usize {
        std::env::var("VERIF_THREADS").ok().and_then(|s| s.parse().ok())
            .unwrap_or_else(|| std::thread::available_parallelism().map(|n| n.get()).unwrap_or(8))
    }
}

const MAX_VIOLS: usize = 240;
const PER_CLASS: usize = 3;
const MAX_SAMPLES: usize = 6;

#[derive(Clone, Default)]
pub struct Report {
    pub evals: u64,
    pub nontrivial: u64,
    pub hist: BTreeMap<String, u64>,
    pub samples: BTreeMap<u64, J>,
    pub viols: BTreeMap<String, Viol>,
    pub known: BTreeMap<String, Viol>,
    pub viol_total: u64,
    pub capped: bool,
    pub states: u64,
    pub transitions: u64,
    pub extra: Vec<(String, J)>,
    /// per comparison site: the largest observed error as a fraction of the tolerance applied (vacuity / looseness evidence)
    pub margins: BTreeMap<String, f64>,
}

impl Report {
    pub fn new() -> Report { Report::default() }
    #[inline]
    pub fn eval(&mut self) { self.evals += 1; }
    #[inline]
    pub fn nontrivial(&mut self) { self.nontrivial += 1; }
    #[inline]
    pub fn h(&mut self, k: &str) { *self.hist.entry(k.to_string()).or_insert(0) += 1; }
    /// record how much of the tolerance `tol` the observed error `err` used at comparison site `site` (keeps the maximum)
    #[inline]
    pub fn margin(&mut self, site: &str, err: f64, tol: f64) {
        let q = if tol > 0.0 { err / tol } else if err == 0.0 { 0.0 } else { f64::INFINITY };
        if !q.is_finite() && !(q > 0.0) { return; }
        match self.margins.get_mut(site) { Some(m) => { if q > *m { *m = q; } } None => { self.margins.insert(site.to_string(), q); } }
    }
    pub fn hn(&mut self, k: &str, n: u64) { *self.hist.entry(k.to_string()).or_insert(0) += n; }
    /// keep the samples with the smallest ordinal (deterministic irrespective of sharding)
    pub fn sample(&mut self, ord: u64, f: impl FnOnce() -> J) {
        if self.samples.len() < MAX_SAMPLES || self.samples.keys().next_back().map_or(false, |&m| ord < m) {
            self.samples.insert(ord, f());
            while self.samples.len() > MAX_SAMPLES {
                let k = *self.samples.keys().next_back().unwrap();
                self.samples.remove(&k);
            }
        }
    }
    /// Record a violation. The key's class is the text before the first '|'; the
    /// smallest PER_CLASS keys of every class are kept (deterministic under sharding).
    pub fn violation(&mut self, key: String, what: String, case: J) {
        self.viol_total += 1;
        // violations listed as known findings (by key prefix) are counted and exemplified once per
        // prefix, so that a flood of them cannot crowd other violations out of the capped list
        if let Some(px) = known_prefixes().iter().find(|p| key.starts_with(p.as_str())) {
            *self.hist.entry(format!("known-finding:{px}")).or_insert(0) += 1;
            let e = self.known.entry(px.clone()).or_insert_with(|| Viol { key: key.clone(), what: what.clone(), case: case.clone() });
            if key < e.key { *e = Viol { key, what, case }; }
            return;
        }
        let class = key.split('|').next().unwrap_or("").to_string();
        *self.hist.entry(format!("violations:{class}")).or_insert(0) += 1;
        self.insert_viol(Viol { key, what, case });
    }
    fn insert_viol(&mut self, v: Viol) {
        let class = v.key.split('|').next().unwrap_or("").to_string();
        if self.viols.contains_key(&v.key) { return; }
        let lo = format!("{class}|");
        let hi = format!("{class}|\u{10ffff}");
        let in_class: Vec<String> = self.viols.range(lo.clone()..hi.clone()).map(|(k, _)| k.clone()).collect();
        if in_class.len() >= PER_CLASS {
            let last = in_class.last().unwrap();
            if &v.key >= last { return; }
            self.viols.remove(last);
        } else if self.viols.len() >= MAX_VIOLS {
            return;
        }
        self.viols.insert(v.key.clone(), v);
    }
    pub fn set(&mut self, k: &str, v: impl Into<J>) {
        let v = v.into();
        if let Some(e) = self.extra.iter_mut().find(|(kk, _)| kk == k) { e.1 = v; } else { self.extra.push((k.to_string(), v)); }
    }
    pub fn merge(&mut self, o: Report) {
        self.evals += o.evals;
        self.nontrivial += o.nontrivial;
        self.states += o.states;
        self.transitions += o.transitions;
        self.capped |= o.capped;
        for (k, v) in o.hist { *self.hist.entry(k).or_insert(0) += v; }
        for (k, v) in o.samples { self.sample(k, || v); }
        self.viol_total += o.viol_total;
        for (_, v) in o.viols { self.insert_viol(v); }
        for (k, v) in o.known { let e = self.known.entry(k).or_insert_with(|| v.clone()); if v.key < e.key { *e = v; } }
        for (k, v) in o.extra { self.set(&k, v); }
        for (k, v) in o.margins { let e = self.margins.entry(k).or_insert(0.0); if v > *e { *e = v; } }
    }

    /// Write the evidence part and the replay files; print a summary line.
    /// `level` is "exploration" or "model_checking".
    pub fn finish(self, cfg: &Cfg, level: &str, rule: &str, assumptions: &[&str]) -> ! {
        if cfg.replay.is_some() {
            // (call, index) replay: only the selected index ran
            if self.viols.is_empty() { println!("REPLAY property={} result=holds", cfg.prop); std::process::exit(0); }
            for v in self.viols.values() { println!("REPLAY property={} result=violates key={} what={}", cfg.prop, v.key, v.what); }
            std::process::exit(1);
        }
        let wall = cfg.start.elapsed().as_secs_f64();
        let rdir = format!("{}/replays/{}", cfg.out_dir, cfg.prop);
        let _ = std::fs::create_dir_all(&rdir);
        let mut vlist = vec![];
        for v in self.viols.values().chain(self.known.values()) {
            let fname = format!("{}/{}-{:016x}.json", rdir, cfg.part.replace(' ', "_"), fnv(&v.key));
            let body = obj! {
                "property" => cfg.prop.as_str(),
                "engine" => std::env::args().next().unwrap_or_default().rsplit('/').next().unwrap_or("").to_string(),
                "sub" => cfg.part.as_str(),
                "key" => v.key.as_str(),
                "what" => v.what.as_str(),
                "case" => v.case.clone(),
            };
            let _ = std::fs::write(&fname, body.to_string());
            vlist.push(obj! {"key" => v.key.as_str(), "what" => v.what.as_str(), "replay" => fname});
        }
        let exhaustive = !self.capped;
        let mut cov = vec![
            ("evaluations".to_string(), J::UInt(self.evals)),
            ("distinct_nontrivial".to_string(), J::UInt(self.nontrivial)),
            ("rule".to_string(), J::Str(rule.to_string())),
            ("samples".to_string(), J::Arr(self.samples.values().cloned().collect())),
            ("exhaustive".to_string(), J::Bool(exhaustive)),
        ];
        if level == "model_checking" {
            cov.push(("states".into(), J::UInt(self.states)));
            cov.push(("transitions".into(), J::UInt(self.transitions)));
            cov.push(("traces_validated_against_impl".into(), J::UInt(self.transitions)));
        }
        cov.push(("outcome_histogram".into(), J::from(self.hist.clone())));
        if !self.margins.is_empty() { cov.push(("tolerance_usage_max".into(), J::Obj(self.margins.iter().map(|(k, v)| (k.clone(), J::from(format!("{:.3e}", v)))).collect()))); }
        for (k, v) in &self.extra { cov.push((k.clone(), v.clone())); }
        let ev = obj! {
            "property_id" => cfg.prop.as_str(),
            "part" => cfg.part.as_str(),
            "tier" => if cfg.quick() {"quick"} else {"thorough"},
            "seed" => cfg.seed,
            "level" => level,
            "coverage" => J::Obj(cov),
            "assumptions" => J::Arr(assumptions.iter().map(|s| J::from(*s)).collect()),
            "wall_s" => wall,
            "violations" => self.viol_total,
            "violations_list" => J::Arr(vlist),
        };
        let pdir = format!("{}/evidence/parts", cfg.out_dir);
        let _ = std::fs::create_dir_all(&pdir);
        let pfile = format!("{}/{}.{}.json", pdir, cfg.prop, cfg.part.replace(' ', "_"));
        if let Err(e) = std::fs::write(&pfile, ev.to_string()) {
            eprintln!("MACHINERY-ERROR cannot write {pfile}: {e}");
            std::process::exit(2);
        }
        println!(
            "PART property={} part={} evaluations={} nontrivial={} states={} transitions={} violations={} distinct_keys={} exhaustive={} wall_s={:.1}",
            cfg.prop, cfg.part, self.evals, self.nontrivial, self.states, self.transitions, self.viol_total, self.viols.len(), exhaustive, wall
        );
        std::process::exit(0)
    }
}

pub fn known_prefixes() -> &'static Vec<String> {
    static K: std::sync::OnceLock<Vec<String>> = std::sync::OnceLock::new();
    K.get_or_init(|| std::env::var("VERIF_KNOWN_PREFIXES").map(|s| s.split('\u{1f}').filter(|p| !p.is_empty()).map(String::from).collect()).unwrap_or_default())
}

pub fn fnv(s: &str) -> u64 {
    let mut h = 0xcbf29ce484222325u64;
    for b in s.bytes() { h ^= b as u64; h = h.wrapping_mul(0x100000001b3); }
    h
}

/// Shard `0..n` over all cores with dynamic chunking. `f(idx, &mut Report)`.
pub fn par_range<F>(cfg: &Cfg, n: u64, f: F) -> Report
where
    F: Fn(u64, &mut Report) + Sync,
{
    let call = PAR_CALL.fetch_add(1, Ordering::SeqCst);
    if let Some(&(oc, oi)) = ONLY.get() {
        // replay of a (call, index) case: every other parallel range is skipped
        let mut r = Report::new();
        if oc == call && oi < n { guarded(&f, call, oi, &mut r); }
        return r;
    }
    let threads = cfg.threads().max(1);
    let chunk = (n / (threads as u64 * 64)).clamp(1, 1 << 16);
    let next = AtomicU64::new(0);
    let done = AtomicU64::new(0);
    let mut total = Report::new();
    std::thread::scope(|s| {
        let hs: Vec<_> = (0..threads)
            .map(|_| {
                s.spawn(|| {
                    let mut r = Report::new();
                    loop {
                        if cfg.expired() { r.capped = true; break; }
                        let st = next.fetch_add(chunk, Ordering::Relaxed);
                        if st >= n { break; }
                        let en = (st + chunk).min(n);
                        for i in st..en { guarded(&f, call, i, &mut r); }
                        done.fetch_add(en - st, Ordering::Relaxed);
                    }
                    r
                })
            })
            .collect();
        for h in hs {
            match h.join() {
                Ok(r) => total.merge(r),
                Err(_) => { eprintln!("MACHINERY-ERROR worker thread panicked outside catch_unwind"); std::process::exit(2); }
            }
        }
    });
    let d = done.load(Ordering::Relaxed);
    if d < n {
        total.capped = true;
        total.set("indices_covered_before_cap", d);
        total.set("indices_total", n);
    }
    total
}

/// Load the `case` of a replay file.
pub fn load_replay(path: &str) -> J {
    let s = std::fs::read_to_string(path).unwrap_or_else(|e| { eprintln!("MACHINERY-ERROR cannot read replay {path}: {e}"); std::process::exit(2) });
    let j = json::parse(&s).unwrap_or_else(|e| { eprintln!("MACHINERY-ERROR bad replay json {path}: {e}"); std::process::exit(2) });
    j.get("case").cloned().unwrap_or(J::Null)
}

/// Standard tail of a `--replay` run: run the case twice, demand identical
/// observation, print it, exit 1 if it (still) violates.
pub fn replay_main(cfg: &Cfg, run: impl Fn(&J, &mut Report)) {
    let case = load_replay(cfg.replay.as_ref().unwrap());
    if case.get("kind").and_then(|j| j.as_str()) == Some("par-index") {
        // an unanticipated library panic recorded by (parallel call, index): re-run the engine with only that index enabled;
        // Report::finish prints the verdict
        let g = |k: &str| case.get(k).and_then(|j| j.as_u64()).unwrap_or(u64::MAX);
        let _ = ONLY.set((g("call"), g("i")));
        return;
    }
    let mut r1 = Report::new();
    run(&case, &mut r1);
    let mut r2 = Report::new();
    run(&case, &mut r2);
    let k1: Vec<_> = r1.viols.values().map(|v| (v.key.clone(), v.what.clone())).collect();
    let k2: Vec<_> = r2.viols.values().map(|v| (v.key.clone(), v.what.clone())).collect();
    if k1 != k2 {
        eprintln!("MACHINERY-ERROR replay not deterministic: {k1:?} vs {k2:?}");
        std::process::exit(2);
    }
    if k1.is_empty() {
        println!("REPLAY property={} result=holds", cfg.prop);
        std::process::exit(0);
    }
    for (k, w) in &k1 { println!("REPLAY property={} result=violates key={} what={}", cfg.prop, k, w); }
    std::process::exit(1)
}
