//! C20 — float helper backends. Built once per feature configuration of retrofire-core
//! (cfg_none / cfg_libm / cfg_mm / cfg_std); this binary itself is a std program and uses
//! std/f64 arithmetic as the reference.
#![allow(dead_code, unused_imports, unused_macros)]

#[path = "../../vh/src/json.rs"]
#[macro_use]
mod json;
#[path = "../../vh/src/report.rs"]
mod report;
#[path = "../../shared/cover.rs"]
mod cover;

use json::{fbits, parse_fbits, J};
use report::{par_range, replay_main, Cfg, Report};
use std::panic::{catch_unwind, AssertUnwindSafe};
use std::sync::Mutex;

use re::geom::vertex;
use re::math::float;
use re::math::point::pt3;
use re::render::raster::tri_fill;
use re::render::tex::{uv, SamplerRepeatPot, Texture};
use re::util::buf::Buf2;

fn caught<T>(f: impl FnOnce() -> T) -> Result<T, String> {
    catch_unwind(AssertUnwindSafe(f)).map_err(|e| {
        if let Some(s) = e.downcast_ref::<&str>() { s.to_string() } else if let Some(s) = e.downcast_ref::<String>() { s.clone() } else { "<panic>".into() }
    })
}

const CFG_NAME: &str = if cfg!(feature = "cfg_std") { "std" } else if cfg!(feature = "cfg_libm") { "libm" } else if cfg!(feature = "cfg_mm") { "mm" } else { "none" };

fn ord(x: f32) -> i64 { let b = x.to_bits() as i32; (if b < 0 { i32::MIN.wrapping_sub(b) } else { b }) as i64 }
fn ulps(a: f32, b: f32) -> i64 { if a.is_nan() && b.is_nan() { 0 } else if a.is_nan() || b.is_nan() { i64::MAX } else if a == b { 0 } else { (ord(a) - ord(b)).abs() } }

/// how a result is judged against the reference
#[derive(Clone, Copy)]
enum Bound {
    /// numerically equal (sign of zero ignored)
    Exact,
    Ulps(i64),
    Abs(f64),
    Rel(f64),
    /// |got-ref| <= a * (1 + ref^2)   (tan-like error propagation)
    TanLike(f64),
}

struct Fn1 { name: &'static str, f: fn(f32) -> f32, r: fn(f32) -> f64, dom: fn(f32) -> bool, b: Bound, dom_txt: &'static str }

fn judge(got: f32, want: f64, b: Bound) -> (bool, f64) {
    let w32 = want as f32;
    if got.is_nan() || want.is_nan() { return (got.is_nan() && want.is_nan(), if got.is_nan() == want.is_nan() { 0.0 } else { f64::INFINITY }); }
    match b {
        Bound::Exact => (got as f64 == want, ((got as f64) - want).abs()),
        Bound::Ulps(n) => { let u = ulps(got, w32); (u <= n, u as f64) }
        Bound::Abs(a) => { let e = (got as f64 - want).abs(); (e <= a || got as f64 == want, e) }
        Bound::Rel(a) => { let e = if want == 0.0 { (got as f64).abs() } else { ((got as f64 - want) / want).abs() }; (e <= a || got as f64 == want, e) }
        // near a pole (|tan| > 1000) the approximations may return anything large, incl. inf: not judged
        Bound::TanLike(a) => { if want.abs() > 1000.0 { return (got.abs() > 100.0 || got.is_infinite(), 0.0); } let e = (got as f64 - want).abs() / (1.0 + want * want); (e <= a, e) }
    }
}

fn pattern(i: u64, quick: bool) -> u32 {
    if quick { (((i >> 2) as u32) << 12) | [0u32, 1, 0x800, 0xFFF][(i & 3) as usize] } else { i as u32 }
}

fn sweep1(cfg: &Cfg, backend: &str, fns: &[Fn1], rep: &mut Report) {
    let n: u64 = if cfg.quick() { 1 << 22 } else { 1 << 32 };
    for f in fns {
        // (the running maximum of the error is kept per worker thread and merged afterwards: a shared lock per evaluation
        // made the 2^32 sweeps take tens of minutes)
        let site = format!("max_err:{backend}:{}", f.name);
        let r = par_range(cfg, n, |i, r| {
            let x = f32::from_bits(pattern(i, cfg.quick()));
            if !(f.dom)(x) { return; }
            r.eval();
            check1(backend, f, x, r, Some(&site));
        });
        // quick tier: besides the boundary-dense 2^22 patterns, EVERY float of a few ill-conditioned neighbourhoods -
        // 0.99..1 (inverse trigonometry at the ends of its domain), 0.5 +- 2^-8, 1e-4..1.0002e-4, 2^23 - 64..2^23 + 64 - in both signs
        let mut r = r;
        if cfg.quick() {
            for (lo, hi) in [(0.99f32, 1.0f32), (0.49609375, 0.50390625), (1e-4, 1.0002e-4), (8388544.0, 8388672.0), (3.1, 3.2)] {
                let (a, b) = (lo.to_bits() as u64, hi.to_bits() as u64);
                let rr = par_range(cfg, (b - a + 1) * 2, |i, r| {
                    let x = f32::from_bits((a + i / 2) as u32) * if i % 2 == 0 { 1.0 } else { -1.0 };
                    if !(f.dom)(x) { return; }
                    r.eval();
                    check1(backend, f, x, r, Some(&site));
                });
                r.merge(rr);
            }
        }
        let me = r.margins.get(&site).copied().unwrap_or(0.0);
        rep.merge(r);
        rep.set(&site, me);
        rep.set(&format!("domain:{backend}:{}", f.name), f.dom_txt);
    }
}

fn check1(backend: &str, f: &Fn1, x: f32, r: &mut Report, maxerr: Option<&String>) {
    let want = (f.r)(x);
    match caught(|| (f.f)(x)) {
        Err(p) => r.violation(format!("{backend}-{}-panic|{:#010x}", f.name, x.to_bits()), format!("{backend}::{}({x:e}) panicked: {p}", f.name), obj! {"kind" => "fn1", "backend" => backend, "name" => f.name, "x" => fbits(x)}),
        Ok(got) => {
            // an absolute value never carries a sign: abs(-0.0) is +0.0 (1 / abs(x) must not come out as -inf)
            if f.name == "abs" && !got.is_nan() && got.is_sign_negative() { r.violation(format!("{backend}-abs|sign|{:#010x}", x.to_bits()), format!("{backend}::abs({x:e}) = {got:e} has its sign bit set"), obj! {"kind" => "fn1", "backend" => backend, "name" => f.name, "x" => fbits(x)}); return; }
            let (ok, e) = judge(got, want, f.b);
            if let Some(site) = maxerr { if e.is_finite() { r.margin(site, e, 1.0); } }
            if !ok {
                let cls = if x == 0.0 { if x.is_sign_negative() { "negzero" } else { "zero" } } else if x.abs() < 1e-18 { "tiny" } else if x < 0.0 { "neg" } else { "pos" };
                r.violation(format!("{backend}-{}|{cls}|{:#010x}", f.name, x.to_bits()), format!("{backend}::{}({x:e}) = {got:e}, reference {want:e} (err {e:.3e})", f.name), obj! {"kind" => "fn1", "backend" => backend, "name" => f.name, "x" => fbits(x)});
            } else if got != x { r.nontrivial(); }
        }
    }
}

fn finite(x: f32) -> bool { x.is_finite() }
fn any(_: f32) -> bool { true }
fn lt63(x: f32) -> bool { x.is_finite() && x.abs() < 9.2e18 }
fn lt31(x: f32) -> bool { x.is_finite() && x.abs() < 2147483648.0 }
fn nonneg_all(x: f32) -> bool { x.is_finite() && x >= 0.0 }
fn pos_finite(x: f32) -> bool { x.is_finite() && x > 0.0 }
fn pos_normal(x: f32) -> bool { x.is_normal() && x > 0.0 && x < 1e37 }
fn pos_normal_or_zero(x: f32) -> bool { x == 0.0 || pos_normal(x) }
fn nonneg(x: f32) -> bool { x.is_finite() && x >= 0.0 && (x == 0.0 || x.is_normal()) }
fn unit(x: f32) -> bool { x >= -1.0 && x <= 1.0 }
fn angle1e3(x: f32) -> bool { x.is_finite() && x.abs() <= 1000.0 }
fn exp_dom(x: f32) -> bool { x.is_finite() && x.abs() <= 80.0 }

fn rfloor(x: f32) -> f64 { (x as f64).floor() }
fn rabs(x: f32) -> f64 { (x as f64).abs() }
fn rrsqrt(x: f32) -> f64 { 1.0 / (x as f64).sqrt() }
fn rsqrt(x: f32) -> f64 { (x as f64).sqrt() }
fn rsin(x: f32) -> f64 { (x as f64).sin() }
fn rcos(x: f32) -> f64 { (x as f64).cos() }
fn rtan(x: f32) -> f64 { (x as f64).tan() }
fn rasin(x: f32) -> f64 { (x as f64).asin() }
fn racos(x: f32) -> f64 { (x as f64).acos() }
fn rexp(x: f32) -> f64 { (x as f64).exp() }

fn fallback_fns() -> Vec<Fn1> {
    use float::fallback as fb;
    vec![
        Fn1 { name: "floor", f: fb::floor, r: rfloor, dom: any, b: Bound::Exact, dom_txt: "all bit patterns (infinities map to themselves, NaN to NaN)" },
        Fn1 { name: "abs", f: fb::abs, r: rabs, dom: any, b: Bound::Exact, dom_txt: "all bit patterns (infinities map to themselves, NaN to NaN)" },
        // fast inverse square root + 1 Newton step: measured 1.76e-3 rel
        Fn1 { name: "recip_sqrt", f: fb::recip_sqrt, r: rrsqrt, dom: pos_finite, b: Bound::Rel(2.7e-3), dom_txt: "positive, subnormal included" },
    ]
}

#[cfg(feature = "cfg_libm")]
fn libm_fns() -> Vec<Fn1> {
    use float::libm as lm;
    vec![
        Fn1 { name: "floor", f: lm::floor, r: rfloor, dom: any, b: Bound::Exact, dom_txt: "all bit patterns (infinities map to themselves, NaN to NaN)" },
        Fn1 { name: "abs", f: lm::abs, r: rabs, dom: any, b: Bound::Exact, dom_txt: "all bit patterns (infinities map to themselves, NaN to NaN)" },
        Fn1 { name: "sqrt", f: lm::sqrt, r: rsqrt, dom: nonneg_all, b: Bound::Ulps(1), dom_txt: "x >= 0, subnormal included" },
        Fn1 { name: "recip_sqrt", f: lm::recip_sqrt, r: rrsqrt, dom: pos_finite, b: Bound::Ulps(4), dom_txt: "positive, subnormal included" },
        Fn1 { name: "sin", f: lm::sin, r: rsin, dom: finite, b: Bound::Ulps(4), dom_txt: "all finite" },
        Fn1 { name: "cos", f: lm::cos, r: rcos, dom: finite, b: Bound::Ulps(4), dom_txt: "all finite" },
        Fn1 { name: "tan", f: lm::tan, r: rtan, dom: finite, b: Bound::Ulps(4), dom_txt: "all finite" },
        Fn1 { name: "asin", f: lm::asin, r: rasin, dom: unit, b: Bound::Ulps(4), dom_txt: "[-1,1]" },
        Fn1 { name: "acos", f: lm::acos, r: racos, dom: unit, b: Bound::Ulps(4), dom_txt: "[-1,1]" },
        Fn1 { name: "exp", f: lm::exp, r: rexp, dom: exp_dom, b: Bound::Ulps(4), dom_txt: "|x| <= 80" },
    ]
}

#[cfg(feature = "cfg_mm")]
fn mm_fns() -> Vec<Fn1> {
    use float::mm;
    vec![
        Fn1 { name: "floor", f: mm::floor, r: rfloor, dom: any, b: Bound::Exact, dom_txt: "all bit patterns (infinities map to themselves, NaN to NaN)" },
        Fn1 { name: "abs", f: mm::abs, r: rabs, dom: any, b: Bound::Exact, dom_txt: "all bit patterns (infinities map to themselves, NaN to NaN)" },
        // bit-trick sqrt + 1 Newton step: measured below
        Fn1 { name: "sqrt", f: mm::sqrt, r: rsqrt, dom: nonneg_all, b: Bound::Rel(2.5e-3), dom_txt: "x >= 0, subnormal included" },
        Fn1 { name: "recip_sqrt", f: mm::recip_sqrt, r: rrsqrt, dom: pos_finite, b: Bound::Rel(2.7e-3), dom_txt: "positive, subnormal included" },
        Fn1 { name: "sin", f: mm::sin, r: rsin, dom: angle1e3, b: Bound::Abs(2.0e-3), dom_txt: "|x| <= 1000" },
        Fn1 { name: "cos", f: mm::cos, r: rcos, dom: angle1e3, b: Bound::Abs(2.0e-3), dom_txt: "|x| <= 1000" },
        Fn1 { name: "tan", f: mm::tan, r: rtan, dom: angle1e3, b: Bound::TanLike(6.0e-3), dom_txt: "|x| <= 1000, error relative to 1+tan^2" },
        Fn1 { name: "asin", f: mm::asin, r: rasin, dom: unit, b: Bound::Abs(3.0e-2), dom_txt: "[-1,1]" },
        Fn1 { name: "acos", f: mm::acos, r: racos, dom: unit, b: Bound::Abs(4.5e-2), dom_txt: "[-1,1]" },
    ]
}

// ------------------------------------------------------------ two-argument functions
fn lattice2() -> Vec<f32> {
    let mut v = vec![0.0f32];
    for e in -20..=20 { for m in [1.0f32, 1.25, 1.5, 1.9999999] { let x = m * (2.0f32).powi(e); v.push(x); v.push(-x); } }
    for k in 1..=64 { v.push(k as f32); v.push(-(k as f32)); v.push(k as f32 + 0.5); v.push(-(k as f32) - 0.5); v.push(k as f32 * 0.1); v.push(-(k as f32) * 0.1); }
    v.push(-0.0);
    v
}

fn check_rem(backend: &str, f: fn(f32, f32) -> f32, x: f32, m: f32, r: &mut Report) {
    r.eval();
    let case = obj! {"kind" => "rem", "backend" => backend, "x" => fbits(x), "m" => fbits(m)};
    match caught(|| f(x, m)) {
        Err(p) => r.violation(format!("{backend}-rem_euclid-panic|{x}|{m}"), format!("{backend}::rem_euclid({x},{m}) panicked: {p}"), case),
        Ok(g) => {
            let q = (x as f64 - g as f64) / m as f64;
            let in_range = g >= 0.0 && g <= m.abs();
            let congruent = (q - q.round()).abs() <= 1e-4;
            if !in_range || !congruent {
                let cls = if !in_range { "range" } else { "congruence" };
                r.violation(format!("{backend}-rem_euclid|{cls}|x={x}|m={m}"), format!("{backend}::rem_euclid({x},{m}) = {g}; in [0,|m|]: {in_range}; (x-r)/m = {q}"), case);
            } else if x < 0.0 { r.nontrivial(); }
        }
    }
}

fn check_atan2(backend: &str, f: fn(f32, f32) -> f32, y: f32, x: f32, b: Bound, r: &mut Report, maxerr: &Mutex<f64>) {
    r.eval();
    let want = (y as f64).atan2(x as f64);
    let case = obj! {"kind" => "atan2", "backend" => backend, "y" => fbits(y), "x" => fbits(x)};
    if x == 0.0 && y == 0.0 {
        // the zero vector has no direction (std answers 0 or +-pi depending on the signs of the zeros): any angle will do,
        // a NaN or a panic will not - it would poison every polar / spherical conversion of a zero vector
        match caught(|| f(y, x)) {
            Ok(g) if g.is_finite() && g.abs() <= 3.1415928 => {}
            Ok(g) => r.violation(format!("{backend}-atan2|zero-vector|y={y}|x={x}"), format!("{backend}::atan2({y},{x}) = {g}"), case),
            Err(p) => r.violation(format!("{backend}-atan2-panic|{y}|{x}"), format!("{backend}::atan2({y},{x}) panicked: {p}"), case),
        }
        return;
    }
    match caught(|| f(y, x)) {
        Err(p) => r.violation(format!("{backend}-atan2-panic|{y}|{x}"), format!("{backend}::atan2({y},{x}) panicked: {p}"), case),
        Ok(g) => {
            // compare on the circle (results near +-pi may wrap)
            let mut d = (g as f64 - want).abs(); if d > std::f64::consts::PI { d = (d - std::f64::consts::TAU).abs(); }
            let ok = match b { Bound::Ulps(n) => ulps(g, want as f32) <= n || d < 1e-7, Bound::Abs(a) => d <= a, _ => false };
            { let mut m = maxerr.lock().unwrap(); if d.is_finite() && d > *m { *m = d; } }
            if !ok { r.violation(format!("{backend}-atan2|y={y}|x={x}"), format!("{backend}::atan2({y},{x}) = {g}, reference {want} (diff {d:.3e})"), case); } else { r.nontrivial(); }
        }
    }
}

fn check_powf(backend: &str, f: fn(f32, f32) -> f32, x: f32, y: f32, b: Bound, r: &mut Report, maxerr: &Mutex<f64>) {
    r.eval();
    let want = (x as f64).powf(y as f64);
    let case = obj! {"kind" => "powf", "backend" => backend, "x" => fbits(x), "y" => fbits(y)};
    match caught(|| f(x, y)) {
        Err(p) => r.violation(format!("{backend}-powf-panic|{x}|{y}"), format!("{backend}::powf({x},{y}) panicked: {p}"), case),
        Ok(g) => {
            let (ok, e) = judge(g, want, b);
            { let mut m = maxerr.lock().unwrap(); if e.is_finite() && e > *m { *m = e; } }
            if !ok { r.violation(format!("{backend}-powf|x={x}|y={y}"), format!("{backend}::powf({x},{y}) = {g}, reference {want} (err {e:.3e})"), case); } else { r.nontrivial(); }
        }
    }
}

fn two_arg(cfg: &Cfg, rep: &mut Report) {
    let lat = lattice2();
    // (negative moduli too: the least non-negative remainder is taken modulo |m|, as by the standard library)
    let ms = [0.5f32, 1.0, 2.2, 1.0 / 2.2, 3.0, 6.0, std::f32::consts::TAU, 360.0, 1e-3, 255.0, -0.5, -2.2, -4.0, -360.0];
    let n = lat.len() as u64;
    let mut rems: Vec<(&str, fn(f32, f32) -> f32)> = vec![("fallback", float::fallback::rem_euclid)];
    #[cfg(feature = "cfg_mm")]
    rems.push(("mm", float::mm::rem_euclid));
    #[cfg(feature = "cfg_libm")]
    rems.push(("libm", float::libm::rem_euclid));
    for (bk, f) in rems {
        rep.merge(par_range(cfg, n * ms.len() as u64, |i, r| {
            let (x, m) = (lat[(i % n) as usize], ms[(i / n) as usize]);
            if (x / m).abs() > 4096.0 { return; }
            check_rem(bk, f, x, m, r);
        }));
        // dense: x = k*m/8 for |k| <= 4096 (all negative multiples of m included)
        rep.merge(par_range(cfg, 8193 * ms.len() as u64, |i, r| {
            let m = ms[(i / 8193) as usize];
            let x = (i % 8193) as f32 - 4096.0;
            check_rem(bk, f, x * m / 8.0, m, r);
        }));
    }
    #[cfg(any(feature = "cfg_libm", feature = "cfg_mm"))]
    {
        let mut a2: Vec<(&str, fn(f32, f32) -> f32, Bound)> = vec![];
        #[cfg(feature = "cfg_libm")]
        a2.push(("libm", float::libm::atan2, Bound::Ulps(4)));
        #[cfg(feature = "cfg_mm")]
        a2.push(("mm", float::mm::atan2, Bound::Abs(5.0e-3)));
        for (bk, f, b) in a2 {
            let me = Mutex::new(0.0);
            rep.merge(par_range(cfg, n * n, |i, r| check_atan2(bk, f, lat[(i % n) as usize], lat[(i / n) as usize], b, r, &me)));
            rep.set(&format!("max_err:{bk}:atan2"), *me.lock().unwrap());
        }
        let ys = [0.5f32, 1.0, 2.2, 1.0 / 2.2, 3.0, 2.0, 0.0, 1.5];
        let mut pw: Vec<(&str, fn(f32, f32) -> f32, Bound)> = vec![];
        #[cfg(feature = "cfg_libm")]
        pw.push(("libm", float::libm::powf, Bound::Ulps(4)));
        // micromath's powf is a crude approximation (measured ~0.14 abs on [0,1]); bound recorded, see DESIGN
        #[cfg(feature = "cfg_mm")]
        pw.push(("mm", float::mm::powf, Bound::Abs(0.25)));
        for (bk, f, b) in pw {
            let me = Mutex::new(0.0);
            let steps = 4097u64;
            rep.merge(par_range(cfg, steps * ys.len() as u64, |i, r| {
                // bases k/4096 in [0,1]; the first steps are replaced by tiny and subnormal bases
                let k = i % steps;
                let x = if k >= 1 && k <= 6 { [1e-45f32, 1e-40, 2.9e-39, 1.2e-38, 1e-30, 1e-10][(k - 1) as usize] } else { k as f32 / (steps - 1) as f32 };
                let y = ys[(i / steps) as usize];
                check_powf(bk, f, x, y, b, r, &me);
            }));
            rep.set(&format!("max_err:{bk}:powf(x in [0,1])"), *me.lock().unwrap());
        }
    }
}

// ------------------------------------------------------------ consumers (use the configuration's alias)
fn tri_cover(t: [(i32, i32); 3], r: &mut Report) {
    // half-pixel lattice: coordinates k/2
    r.eval();
    let vs = t.map(|(x, y)| vertex(pt3(x as f32 / 2.0, y as f32 / 2.0, 1.0), ()));
    let mut covered = std::collections::BTreeSet::new();
    let res = caught(|| tri_fill(vs, |sl| { for x in sl.xs.clone() { covered.insert((x as i128, sl.y as i128)); } }));
    let case = obj! {"kind" => "tri", "t" => t.iter().flat_map(|p| [p.0, p.1]).collect::<Vec<i32>>()};
    if let Err(p) = res { r.violation(format!("consumer-tri_fill-panic|{t:?}"), format!("tri_fill{t:?}/2 panicked: {p}"), case); return; }
    let ti = t.map(|(x, y)| (x as i128, y as i128));
    let mut any_inside = false;
    for j in -1..7i128 { for i in -1..7i128 {
        let c = cover::classify(ti, 2, i, j, 0.001);
        let got = covered.contains(&(i, j));
        match c {
            cover::Cover::Inside => { any_inside = true; if !got { r.violation(format!("consumer-tri_fill|missing|{t:?}"), format!("[{CFG_NAME}] triangle {t:?}/2: pixel ({i},{j}) centre strictly inside but not covered"), case.clone()); return; } }
            cover::Cover::Outside => { if got { r.violation(format!("consumer-tri_fill|extra|{t:?}"), format!("[{CFG_NAME}] triangle {t:?}/2: pixel ({i},{j}) centre strictly outside but covered"), case.clone()); return; } }
            cover::Cover::Band => {}
        }
    }}
    if any_inside { r.nontrivial(); }
}

/// C04 in this float configuration: coverage of triangles given in units of 1/den px (den a power of two), offset by
/// (ox, oy) whole pixels, against the exact edge-function oracle.
fn tri_cover_den(t: [(i32, i32); 3], den: i32, off: (i32, i32), r: &mut Report) {
    r.eval();
    let tp = t.map(|(x, y)| (x + off.0 * den, y + off.1 * den));
    let vs = tp.map(|(x, y)| vertex(pt3(x as f32 / den as f32, y as f32 / den as f32, 1.0), ()));
    let mut covered = std::collections::BTreeSet::new();
    let mut last: Option<usize> = None;
    let mut order_ok = true;
    let res = caught(|| tri_fill(vs, |sl| { if let Some(l) = last { if sl.y <= l { order_ok = false; } } last = Some(sl.y); for x in sl.xs.clone() { if !covered.insert((x as i128, sl.y as i128)) { order_ok = false; } } }));
    let case = obj! {"kind" => "tri-den", "den" => den, "ox" => off.0, "oy" => off.1, "t" => t.iter().flat_map(|p| [p.0, p.1]).collect::<Vec<i32>>()};
    if let Err(p) = res { r.violation(format!("fill-panic|{CFG_NAME}|{tp:?}/{den}"), format!("[{CFG_NAME}] tri_fill{tp:?}/{den} panicked: {p}"), case); return; }
    if !order_ok { r.violation(format!("scanline-order|{CFG_NAME}|{tp:?}/{den}"), format!("[{CFG_NAME}] scanlines out of order or a pixel produced twice for {tp:?}/{den}"), case); return; }
    let ti = tp.map(|(x, y)| (x as i128, y as i128));
    let (x0, x1) = (tp.iter().map(|p| p.0).min().unwrap() / den - 1, tp.iter().map(|p| p.0).max().unwrap() / den + 2);
    let (y0, y1) = (tp.iter().map(|p| p.1).min().unwrap() / den - 1, tp.iter().map(|p| p.1).max().unwrap() / den + 2);
    let mut any_inside = false;
    for j in y0 as i128..y1 as i128 { for i in x0 as i128..x1 as i128 {
        let got = covered.contains(&(i, j));
        match cover::classify(ti, den as i128, i, j, 0.001) {
            cover::Cover::Inside => { any_inside = true; if !got { r.violation(format!("missing|{CFG_NAME}|{tp:?}/{den}"), format!("[{CFG_NAME}] triangle {tp:?}/{den}: pixel ({i},{j}) centre strictly inside but not covered"), case.clone()); return; } }
            cover::Cover::Outside => { if got { r.violation(format!("extra|{CFG_NAME}|{tp:?}/{den}"), format!("[{CFG_NAME}] triangle {tp:?}/{den}: pixel ({i},{j}) centre strictly outside but covered"), case.clone()); return; } }
            cover::Cover::Band => {}
        }
    }}
    if covered.iter().any(|&(i, j)| i < x0 as i128 || i >= x1 as i128 || j < y0 as i128 || j >= y1 as i128) { r.violation(format!("extra|{CFG_NAME}|{tp:?}/{den}"), format!("[{CFG_NAME}] triangle {tp:?}/{den}: pixels far outside the bounding box covered"), case); return; }
    if any_inside { r.nontrivial(); }
}

fn run_cover(cfg: &Cfg) -> ! {
    let mut rep = Report::new();
    rep.set("configuration", CFG_NAME);
    // (a) the half-pixel lattice 0..4 px at the origin and shifted to (8, 200) and (1000, 700)
    let n = 9u64;
    let pts: Vec<(i32, i32)> = (0..n * n).map(|i| ((i % n) as i32, (i / n) as i32)).collect();
    let np = pts.len() as u64;
    for off in [(0, 0), (8, 200), (1000, 700)] {
        rep.merge(par_range(cfg, np * np * np, |i, r| tri_cover_den([pts[(i % np) as usize], pts[(i / np % np) as usize], pts[(i / np / np) as usize]], 2, off, r)));
    }
    // (b) vertices 1/64 px above / below pixel-centre rows (halves a fraction of a pixel high that still contain a centre row),
    //     at small and large y: x in {0, 1.5, 3, 4.5} px, y in {c - 1/64, c + 1/64, c + 1/2 + 1/64} for centre rows c = 0.5, 1.5
    let xs = [0i32, 96, 192, 288];
    let ys = [31i32, 33, 65, 95, 97, 129];
    let thin: Vec<(i32, i32)> = ys.iter().flat_map(|&y| xs.iter().map(move |&x| (x, y))).collect();
    let nt = thin.len() as u64;
    for off in [(0, 0), (3, 8), (40, 200), (1000, 700)] {
        rep.merge(par_range(cfg, nt * nt * nt, |i, r| tri_cover_den([thin[(i % nt) as usize], thin[(i / nt % nt) as usize], thin[(i / nt / nt) as usize]], 64, off, r)));
    }
    rep.sample(0, || obj! {"configuration" => CFG_NAME, "triangle_64ths" => vec![0, 31, 288, 33, 96, 97], "offset_px" => vec![40, 200]});
    let rule = format!("configuration {CFG_NAME}: every ordered vertex triple of (a) the half-pixel lattice 0..4 px at offsets (0,0), (8,200), (1000,700) and (b) a lattice of vertices 1/64 px off pixel-centre rows at offsets (0,0), (3,8), (40,200), (1000,700), filled through this configuration's float backend; covered set == exact edge-function inside set outside the 0.001 px band, rows increasing, no pixel twice. non-trivial = >= 1 strictly inside centre.");
    rep.finish(cfg, "exploration", &rule, &["exact i128 edge functions on dyadic coordinates"]);
}

fn tex_repeat(r: &mut Report) { tex_repeat_with(r, false) }

/// deep: more sizes and, per binade 2^e .. 2^(e+1) (e = 0..30, both signs), the first, middle and last eight floats
fn tex_repeat_with(r: &mut Report, deep: bool) {
    let sizes: Vec<(u32, u32)> = if deep { vec![(1, 1), (2, 2), (4, 2), (8, 8), (16, 4), (2, 64), (256, 1), (1024, 32)] } else { vec![(1, 1), (2, 2), (4, 2), (8, 8), (16, 4)] };
    for (w, h) in sizes {
        let tex = Texture::from(Buf2::new_with((w, h), |x, y| (x, y)));
        let mut cs: Vec<f32> = vec![];
        for k in -(2 * 16 + 1)..=(2 * 16 + 1) { let k = k as f32; cs.extend([k, k + 0.5, f32::from_bits(k.to_bits().wrapping_add(1)), f32::from_bits(k.to_bits().wrapping_sub(1))]); }
        for e in 0..31 { let p = (2.0f32).powi(e); cs.extend([p, -p, p + 1.0, -p - 1.0]); }
        cs.extend([2147483520.0, -2147483648.0, 1e-30, -1e-30, -0.0]);
        // beyond 2^31, infinite, NaN: any in-range texel will do, a panic will not
        if deep { cs.extend([3e9f32, -3e9, -2147483904.0, 4294967296.0, -4294967296.0, 1e20, -1e20, f32::MAX, f32::MIN, f32::INFINITY, f32::NEG_INFINITY, f32::NAN]); }
        if deep { for e in 0..31 { let (lo, mid, hi) = ((2.0f32).powi(e).to_bits(), ((2.0f32).powi(e) * 1.5).to_bits(), (2.0f32).powi(e + 1).to_bits()); for k in 0..8u32 { for b in [lo + k, mid + k, mid - 1 - k, hi - 1 - k] { let x = f32::from_bits(b); if x < 2147483648.0 { cs.extend([x, -x]); } } } } }
        for &u in &cs { for &v in &[0.5f32, -0.5, -1.0, -3.0, 2.0] {
            for swap in [false, true] {
                let (cu, cv) = if swap { (v, u) } else { (u, v) };
                if !deep && (!cu.is_finite() || !cv.is_finite()) { continue; }
                tex_case(&tex, cu, cv, r);
            }
        }}
    }
}

fn tex_case(tex: &Texture<Buf2<(u32, u32)>>, cu: f32, cv: f32, r: &mut Report) {
    let (w, h) = (tex.width() as u32, tex.height() as u32);
    let s = SamplerRepeatPot::new(tex);
    r.eval();
    let exp = (((cu as f64).floor() as i64).rem_euclid(w as i64) as u32, ((cv as f64).floor() as i64).rem_euclid(h as i64) as u32);
    let case = obj! {"kind" => "tex", "w" => w, "h" => h, "u" => fbits(cu), "v" => fbits(cv)};
    let free = |c: f32| !(c.abs() < 2147483648.0);
    match caught(|| s.sample_abs(tex, uv(cu, cv))) {
        Ok(g) if (g.0 == exp.0 || (free(cu) && g.0 < w)) && (g.1 == exp.1 || (free(cv) && g.1 < h)) => { if cu < 0.0 || cv < 0.0 { r.nontrivial(); } }
        Ok(g) => r.violation(format!("consumer-tex-repeat|{w}x{h}|u={cu}|v={cv}"), format!("[{CFG_NAME}] SamplerRepeatPot {w}x{h} at ({cu},{cv}) -> texel {g:?}, expected {exp:?}"), case),
        Err(p) => r.violation(format!("consumer-tex-repeat-panic|{w}x{h}|u={cu}|v={cv}"), format!("[{CFG_NAME}] SamplerRepeatPot {w}x{h} at ({cu},{cv}) panicked: {p}"), case),
    }
}

/// Vector::normalize through this configuration's reciprocal square root (available in every configuration).
fn norm_consumers(r: &mut Report) {
    use re::math::vec::vec3;
    // normalisation
    let tol = if cfg!(feature = "cfg_mm") || cfg!(feature = "cfg_none") { 3.0e-3 } else { 1.0e-5 };
    for i in 0..10_000u32 {
        r.eval();
        let f = |k: u32| ((i.wrapping_mul(2654435761).rotate_left(k) % 2001) as f32 - 1000.0) * 0.013 * (1u32 << (i % 12)) as f32;
        let v = vec3::<_, ()>(f(3), f(11), f(19));
        if v.len_sqr() == 0.0 { continue; }
        match caught(|| v.normalize()) {
            Err(p) => r.violation(format!("consumer-normalize-panic|{i}"), format!("[{CFG_NAME}] normalize({v:?}) panicked: {p}"), obj! {"kind" => "norm", "i" => i}),
            Ok(n) => {
                let l = (n.x() as f64).hypot(n.y() as f64).hypot(n.z() as f64);
                if (l - 1.0).abs() > tol { r.violation(format!("consumer-normalize|{i}"), format!("[{CFG_NAME}] normalize({v:?}) has length {l}"), obj! {"kind" => "norm", "i" => i}); } else { r.nontrivial(); }
            }
        }
    }
    // ... and at the ends of the range: squared lengths that are subnormal (|v| ~ 1e-20) or close to overflow (|v| ~ 1e18).
    // A subnormal squared length carries fewer bits, so only 1 % is asked - but a finite unit-ish vector it must be.
    {
        for (k, sc) in [1e-20f32, 3e-20, 2.5e-21, 1e-19, 1e-15, 1e15, 1e18, 1.5e18].iter().enumerate() { for d in [[3.0f32, 0.0, 4.0], [1.0, -2.0, 2.0], [0.0, 1.0, 0.0], [-0.6, 0.64, 0.48]] {
            r.eval();
            let v = vec3::<_, ()>(d[0] * sc, d[1] * sc, d[2] * sc);
            match caught(|| v.normalize()) {
                Err(p) => r.violation(format!("consumer-normalize-panic|extreme|{k}|{d:?}"), format!("[{CFG_NAME}] normalize({v:?}) panicked: {p}"), obj! {"kind" => "norm", "i" => 0u32}),
                Ok(n) => {
                    let l = (n.x() as f64).hypot(n.y() as f64).hypot(n.z() as f64);
                    if !((l - 1.0).abs() <= 1e-2) { r.violation(format!("consumer-normalize|extreme|{sc:e}|{d:?}"), format!("[{CFG_NAME}] normalize({v:?}) = {n:?} has length {l}"), obj! {"kind" => "norm", "i" => 0u32}); } else { r.nontrivial(); }
                }
            }
        }}
    }
}

#[cfg(not(feature = "cfg_none"))]
fn fp_consumers(r: &mut Report) {
    use re::math::angle::{degs, rads, turns};
    use re::math::vec::vec3;
    use re::render::tex::SamplerClamp;
    wrap_consumers(r);
    let _ = (degs(1.0), rads(1.0));
    norm_consumers(r);
    clamp_consumers(r);
}

/// Angle::wrap through this configuration's float backend (rem_euclid of the selected module).
#[cfg(not(feature = "cfg_none"))]
fn wrap_consumers(r: &mut Report) {
    use re::math::angle::turns;
    let rel = if cfg!(feature = "cfg_mm") { 1e-4 } else { 1e-4 };
    for k in -480..=480 { for (mn, mx) in [(0.0f32, 1.0f32), (-0.5, 0.5), (-0.25, 0.75), (1.0, 3.0), (-10.0, -9.0)] {
        r.eval();
        let a = turns(k as f32 / 48.0);
        let case = obj! {"kind" => "wrap", "k" => k, "mn" => fbits(mn), "mx" => fbits(mx)};
        match caught(|| a.wrap(turns(mn), turns(mx)).to_turns()) {
            Err(p) => r.violation(format!("consumer-wrap-panic|k={k}|{mn}..{mx}"), format!("[{CFG_NAME}] wrap panicked: {p}"), case),
            Ok(w) => {
                let q = (k as f64 / 48.0 - w as f64) / (mx - mn) as f64;
                // an input that is an exact whole number of interval lengths away from the lower end wraps to the lower end: the
                // upper end may be reached by rounding only, and there is none here
                // (judged on the radians the library actually holds: turns(-3) is not exactly three times turns(1))
                let (xr, lr, hr) = (a.to_rads() as f64, turns(mn).to_rads() as f64, turns(mx).to_rads() as f64);
                let n0 = ((xr - lr) / (hr - lr)).round();
                if xr - lr == n0 * (hr - lr) && (w - mn).abs() > 1e-5 {
                    r.violation(format!("consumer-wrap|upper-end|k={k}|{mn}..{mx}"), format!("[{CFG_NAME}] turns({}).wrap({mn},{mx}) = {w} turns: an exact multiple of the interval away from its lower end must wrap to the lower end", k as f32 / 48.0), case);
                } else if !(w >= mn - 1e-5 && w <= mx + 1e-5) || (q - q.round()).abs() > rel * 10.0 {
                    r.violation(format!("consumer-wrap|k={k}|{mn}..{mx}"), format!("[{CFG_NAME}] turns({}).wrap({mn},{mx}) = {w} turns (q={q})", k as f32 / 48.0), case);
                } else if k < 0 { r.nontrivial(); }
            }
        }
    }}
}

#[cfg(not(feature = "cfg_none"))]
fn clamp_consumers(r: &mut Report) {
    use re::render::tex::SamplerClamp;
    // clamp sampler
    for (w, h) in [(1u32, 1u32), (2, 3), (5, 4), (8, 8)] {
        let tex = Texture::from(Buf2::new_with((w, h), |x, y| (x, y)));
        for ui in -20..=40 { for vi in -20..=40 {
            r.eval();
            let (u, v) = (ui as f32 * 0.25, vi as f32 * 0.25);
            let exp = ((u.clamp(0.0, w as f32 - 1.0)).floor() as u32, (v.clamp(0.0, h as f32 - 1.0)).floor() as u32);
            match caught(|| SamplerClamp.sample_abs(&tex, uv(u, v))) {
                Ok(g) if g == exp => {}
                other => r.violation(format!("consumer-tex-clamp|{w}x{h}|{u}|{v}"), format!("[{CFG_NAME}] SamplerClamp {w}x{h} at ({u},{v}) -> {other:?}, expected {exp:?}"), obj! {"kind" => "clamp", "w" => w, "h" => h, "u" => fbits(u), "v" => fbits(v)}),
            }
        }}
    }
}

fn lookup_fn1(backend: &str, name: &str) -> Option<Fn1> {
    let mut all: Vec<(&str, Vec<Fn1>)> = vec![("fallback", fallback_fns())];
    #[cfg(feature = "cfg_libm")]
    all.push(("libm", libm_fns()));
    #[cfg(feature = "cfg_mm")]
    all.push(("mm", mm_fns()));
    for (b, fs) in all { if b == backend { for f in fs { if f.name == name { return Some(f); } } } }
    None
}

/// C16 in this float configuration: float RGB -> HSL -> RGB on grids (to_hsl goes through the configuration's
/// rem_euclid, to_rgb through its floor/abs): no panic, channels in [0,1], round trip within the stated 1e-4
/// (micromath: 2e-3, the accuracy class of that backend), grays keep s = 0 and their lightness.
fn color_case(c: [f32; 3], r: &mut Report) {
    use re::math::color::{hsl, rgb};
    r.eval();
    let case = || obj! {"kind" => "color", "c" => J::Arr(c.iter().map(|x| fbits(*x)).collect())};
    let key = |cl: &str| format!("{cl}|{CFG_NAME}|{:.4},{:.4},{:.4}", c[0], c[1], c[2]);
    let h = match caught(|| rgb(c[0], c[1], c[2]).to_hsl().0) { Ok(h) => h, Err(p) => { r.violation(key("f32-to_hsl-panic"), format!("[{CFG_NAME}] rgb{c:?}.to_hsl() panicked: {p}"), case()); return; } };
    if h.iter().any(|x| !(*x >= 0.0 && *x <= 1.0)) { r.violation(key("f32-hsl-out-of-range"), format!("[{CFG_NAME}] rgb{c:?}.to_hsl() = {h:?} out of [0,1]"), case()); return; }
    if c[0] == c[1] && c[1] == c[2] && (h[1] != 0.0 || (h[2] - c[0]).abs() > 1e-6) { r.violation(key("f32-gray"), format!("[{CFG_NAME}] gray {} -> hsl{h:?}", c[0]), case()); return; }
    let back = match caught(|| hsl(h[0], h[1], h[2]).to_rgb().0) { Ok(b) => b, Err(p) => { r.violation(key("f32-roundtrip-panic"), format!("[{CFG_NAME}] hsl{h:?}.to_rgb() panicked: {p}"), case()); return; } };
    if back.iter().any(|x| !(*x >= 0.0 && *x <= 1.0)) { r.violation(key("f32-hsl-rgb-out-of-range"), format!("[{CFG_NAME}] hsl{h:?}.to_rgb() = {back:?} out of [0,1]"), case()); return; }
    let err = (0..3).map(|i| (back[i] - c[i]).abs()).fold(0.0f32, f32::max);
    let tol = if cfg!(feature = "cfg_mm") { 2e-3 } else { 1e-4 };
    if !(err <= tol) { r.violation(key("f32-rgb-roundtrip"), format!("[{CFG_NAME}] rgb{c:?} -> hsl{h:?} -> rgb{back:?}: error {err} > {tol}"), case()); } else if !(c[0] == c[1] && c[1] == c[2]) { r.nontrivial(); }
}

/// C09 in this float configuration: orient_y/orient_z (which normalise through the configuration's reciprocal square
/// root) and the axis rotations (its sine/cosine) must still be rotations.
#[cfg(not(feature = "cfg_none"))]
fn xform_case(i: u64, r: &mut Report) {
    use re::math::angle::degs;
    use re::math::mat::{orient_y, orient_z, rotate_x, rotate_y, rotate_z, Mat4x4, RealToReal};
    use re::math::vec::vec3;
    r.eval();
    let tol = if cfg!(feature = "cfg_mm") { 8e-3 } else { 2e-5 };
    let dirs: [[f32; 3]; 7] = [[0.0, 1.0, 0.0], [1.0, 2.0, 3.0], [-1.0, 1.0, 0.5], [0.3, 0.1, 1.0], [0.0, 0.0, -2.0], [5.0, -0.1, 0.2], [1e-3, 1.0, 1e-3]];
    let (a, b, kind) = (dirs[(i % 7) as usize], dirs[(i / 7 % 7) as usize], i / 49);
    let name = ["orient_y", "orient_z", "rotate_x", "rotate_y", "rotate_z"][kind as usize];
    let ang = (i % 49) as f32 * 7.5 - 180.0;
    let case = || obj! {"kind" => "xform", "i" => i};
    let m: Result<Mat4x4<RealToReal<3>>, String> = caught(|| {
        let n = |v: [f32; 3]| vec3::<f32, ()>(v[0], v[1], v[2]).normalize();
        match kind { 0 => orient_y(n(a), n(b).to()), 1 => orient_z(n(a), n(b).to()), 2 => rotate_x(degs(ang)), 3 => rotate_y(degs(ang)), _ => rotate_z(degs(ang)) }
    });
    let m = match m { Ok(m) => m, Err(p) => { if kind < 2 && a == b { return; } r.violation(format!("xform-panic|{CFG_NAME}|{name}|{i}"), format!("[{CFG_NAME}] {name} panicked: {p}"), case()); return; } };
    if kind < 2 { let c = [a[1] * b[2] - a[2] * b[1], a[2] * b[0] - a[0] * b[2], a[0] * b[1] - a[1] * b[0]]; if c.iter().map(|x| x * x).sum::<f32>() < 1e-6 { return; } } // parallel inputs: no frame defined
    let d: [[f64; 4]; 4] = m.0.map(|row| row.map(|x| x as f64));
    let det = d[0][0] * (d[1][1] * d[2][2] - d[1][2] * d[2][1]) - d[0][1] * (d[1][0] * d[2][2] - d[1][2] * d[2][0]) + d[0][2] * (d[1][0] * d[2][1] - d[1][1] * d[2][0]);
    let mut worst = (det - 1.0).abs();
    for x in 0..3 { for y in 0..3 { let dot: f64 = (0..3).map(|k| d[k][x] * d[k][y]).sum(); worst = worst.max((dot - if x == y { 1.0 } else { 0.0 }).abs()); } }
    if !(worst <= tol) { r.violation(format!("rotation-orthonormal|{CFG_NAME}|{name}|{i}"), format!("[{CFG_NAME}] {name} is not a rotation: deviation {worst:.3e} from orthonormal / det 1 (bound {tol}); matrix {:?}", m.0), case()); } else { r.nontrivial(); }
}

#[cfg(not(feature = "cfg_none"))]
fn run_xform(cfg: &Cfg) -> ! {
    let mut rep = Report::new();
    rep.set("configuration", CFG_NAME);
    rep.merge(par_range(cfg, 49 * 5, xform_case));
    rep.sample(0, || obj! {"configuration" => CFG_NAME, "orient_y" => "new y = (1,2,3)/|..|, x hint = (-1,1,0.5)/|..|"});
    let rule = format!("configuration {CFG_NAME}: orient_y and orient_z over all ordered pairs of 7 directions (non-perpendicular hints included; parallel pairs skipped), rotate_x/y/z over 49 angles: determinant 1 and orthonormal columns within the backend's accuracy class (2e-5; micromath 8e-3). non-trivial = matrix judged.");
    rep.finish(cfg, "exploration", &rule, &["accuracy class per backend as in C20"]);
}

#[cfg(not(feature = "cfg_none"))]
fn wrapdeg_consumers(r: &mut Report) {
    use re::math::angle::{degs, rads};
    // the same clause in degrees and radians over off-lattice inputs and intervals
    for k in -2000..=2000i32 { for (mn, mx) in [(0.0f32, 360.0f32), (-180.0, 180.0), (-91.3, 17.7), (1000.0, 1001.5)] {
        r.eval();
        let x = k as f32 * 7.77 + 0.013;
        let case = obj! {"kind" => "wrapdeg", "k" => k, "mn" => fbits(mn), "mx" => fbits(mx)};
        let key = format!("consumer-wrap|degs|k={k}|{mn}..{mx}");
        let res = caught(|| (degs(x).wrap(degs(mn), degs(mx)).to_degs(), rads(x.to_radians()).wrap(rads(mn.to_radians()), rads(mx.to_radians())).to_degs()));
        match res {
            Err(p) => r.violation(key, format!("[{CFG_NAME}] wrap panicked: {p}"), case),
            Ok((w, w2)) => {
                let len = (mx - mn) as f64;
                let slack = 1e-5 * (x.abs() as f64 + mn.abs() as f64 + len);
                let bad = |w: f32| { let q = (x as f64 - w as f64) / len; !((w as f64) >= mn as f64 - slack && (w as f64) <= mx as f64 + slack) || (q - q.round()).abs() * len > 4.0 * slack };
                if bad(w) || bad(w2) { r.violation(key, format!("[{CFG_NAME}] degs({x}).wrap({mn},{mx}) = {w} deg (radian spelling: {w2} deg)"), case); }
                else if x < mn || x >= mx { r.nontrivial(); }
            }
        }
    }}
}

#[cfg(not(feature = "cfg_none"))]
fn run_angle(cfg: &Cfg) -> ! {
    let mut rep = Report::new();
    rep.set("configuration", CFG_NAME);
    let mut r = Report::new();
    wrap_consumers(&mut r);
    wrapdeg_consumers(&mut r);
    rep.merge(r);
    rep.sample(0, || obj! {"configuration" => CFG_NAME, "wrap" => "degs(-1891.3).wrap(degs(0), degs(360))"});
    let rule = format!("configuration {CFG_NAME}: Angle::wrap through this configuration's rem_euclid: turns(k/48) for |k| <= 480 into 5 intervals, and degs(7.77 k + 0.013) for |k| <= 2000 into 4 intervals in degree and radian spellings: result inside the interval (slack 1e-5 of the magnitudes involved), congruent to the input modulo the interval length, no panic. non-trivial = input outside the interval.");
    rep.finish(cfg, "exploration", &rule, &["accuracy class per backend as in C20"]);
}

fn run_tex(cfg: &Cfg) -> ! {
    let mut rep = Report::new();
    rep.set("configuration", CFG_NAME);
    let mut r = Report::new();
    tex_repeat_with(&mut r, true);
    rep.merge(r);
    rep.sample(0, || obj! {"configuration" => CFG_NAME, "texture" => "8x8", "uv" => vec![4194305.0f32, -0.5]});
    let rule = format!("configuration {CFG_NAME}: SamplerRepeatPot::sample_abs through this configuration's float backend on 8 power-of-two texture sizes up to 1024x32, each axis over integers and half-integers -33..33 and their bit-neighbours, +-2^e and +-(2^e + 1), and the first, middle and last eight floats of every binade 2^e..2^(e+1) for e = 0..30 in both signs: texel = (floor(u) mod w, floor(v) mod h) computed in exact integer arithmetic, no panic");
    rep.finish(cfg, "exploration", &rule, &["|coordinate| < 2^31 as the property states"]);
}

#[cfg(not(feature = "cfg_none"))]
const PRNG_TOL: f64 = if cfg!(feature = "cfg_mm") { 5.0e-3 } else { 1.0e-5 };
#[cfg(not(feature = "cfg_none"))]
fn prng_case(s: u64, r: &mut Report) {
    use re::math::rand::{Distrib, UnitCircle, UnitSphere, VectorsInUnitBall, VectorsOnUnitDisk, Xorshift64};
    let tol = PRNG_TOL;
    {
        r.eval();
        let case = obj! {"kind" => "prng", "s" => format!("{s:#x}")};
        let res = caught(|| (UnitCircle.sample(&mut Xorshift64(s)), UnitSphere.sample(&mut Xorshift64(s)), VectorsOnUnitDisk.sample(&mut Xorshift64(s)), VectorsInUnitBall.sample(&mut Xorshift64(s))));
        match res {
            Err(p) => r.violation(format!("prng-panic|s={s:#x}"), format!("[{CFG_NAME}] a unit distribution panicked from state {s:#x}: {p}"), case),
            Ok((c, sp, d, b)) => {
                let (lc, ls) = ((c.x() as f64).hypot(c.y() as f64), ((sp.x() as f64).powi(2) + (sp.y() as f64).powi(2) + (sp.z() as f64).powi(2)).sqrt());
                let (ld, lb) = ((d.x() as f64).powi(2) + (d.y() as f64).powi(2), (b.x() as f64).powi(2) + (b.y() as f64).powi(2) + (b.z() as f64).powi(2));
                if (lc - 1.0).abs() > tol || (ls - 1.0).abs() > tol { r.violation(format!("unit-length|s={s:#x}"), format!("[{CFG_NAME}] from state {s:#x}: UnitCircle sample of length {lc}, UnitSphere sample of length {ls} (tolerance {tol:e})"), case); }
                else if ld > 1.0 + 2.5e-7 || lb > 1.0 + 2.5e-7 { r.violation(format!("unit-disk-ball|s={s:#x}"), format!("[{CFG_NAME}] from state {s:#x}: disk sample |v|^2 = {ld}, ball sample |v|^2 = {lb}"), case); }
                else { r.nontrivial(); }
            }
        }
    }
}

/// C19 in this float configuration: the normalising and rejection-sampled distributions (the only ones that touch the float
/// backend) over 2^18 spread states and 2^16 consecutive states of one orbit.
#[cfg(not(feature = "cfg_none"))]
fn run_prng(cfg: &Cfg) -> ! {
    use re::math::rand::{Distrib, UnitCircle, UnitSphere, VectorsInUnitBall, VectorsOnUnitDisk, Xorshift64};
    let mut rep = Report::new();
    rep.set("configuration", CFG_NAME);
    let tol = PRNG_TOL;
    let one = prng_case;
    rep.merge(par_range(cfg, 1 << 18, |i, r| one((i + 1).wrapping_mul(0x9E3779B97F4A7C15), r)));
    rep.merge(par_range(cfg, 16, |k, r| { let mut g = Xorshift64((k + 1).wrapping_mul(0xD1B54A32D192ED03) | 1); for _ in 0..4096 { let s = g.0; one(s, r); g.next_bits(); } }));
    rep.sample(0, || obj! {"configuration" => CFG_NAME, "state" => "0x9e3779b97f4a7c15"});
    let rule = format!("configuration {CFG_NAME}: UnitCircle / UnitSphere samples have unit length within {tol:e} (the accuracy class of this backend's reciprocal square root per C20) and disk / ball samples lie inside, from 2^18 spread states and 16 x 4096 consecutive states");
    rep.finish(cfg, "exploration", &rule, &["accuracy class per backend as in C20"]);
}

fn run_color(cfg: &Cfg) -> ! {
    let mut rep = Report::new();
    rep.set("configuration", CFG_NAME);
    let n: u64 = if cfg.quick() { 41 } else { 101 };
    rep.merge(par_range(cfg, n * n * n, |i, r| { let g = |k: u64| k as f32 / (n - 1) as f32; color_case([g(i % n), g(i / n % n), g(i / n / n)], r); }));
    let d: u64 = if cfg.quick() { 51 } else { 101 };
    rep.merge(par_range(cfg, d * d * d, |i, r| { let g = |k: u64| (k as f32 * 0.0137 + 0.003).min(1.0); color_case([g(i % d), g(i / d % d), g(i / d / d)], r); }));
    rep.sample(0, || obj! {"configuration" => CFG_NAME, "rgb" => vec![1.0f32, 0.0, 0.5]});
    let rule = format!("configuration {CFG_NAME}: float RGB grids (k/{} and an irregular 0.0137-step grid, full cubes) -> to_hsl -> to_rgb through this configuration's float backend: no panic, every channel in [0,1], round trip within the stated tolerance, grays with s = 0. non-trivial = chromatic colour round-tripped.", n - 1);
    rep.finish(cfg, "exploration", &rule, &["round-trip tolerance 1e-4 as stated (2e-3 under micromath, the accuracy class of that backend per C20)"]);
}

fn replay_case(case: &J, r: &mut Report) {
    let s = |k: &str| case.get(k).and_then(|j| j.as_str()).unwrap_or("").to_string();
    let fb = |k: &str| parse_fbits(case.get(k).unwrap()).unwrap();
    let me = Mutex::new(0.0);
    match s("kind").as_str() {
        "fn1" => match lookup_fn1(&s("backend"), &s("name")) { Some(f) => check1(&s("backend"), &f, fb("x"), r, None), None => { eprintln!("MACHINERY-ERROR backend {} not in this configuration", s("backend")); std::process::exit(2) } },
        "rem" => { let f: fn(f32, f32) -> f32 = match s("backend").as_str() { "fallback" => float::fallback::rem_euclid, #[cfg(feature = "cfg_mm")] "mm" => float::mm::rem_euclid, #[cfg(feature = "cfg_libm")] "libm" => float::libm::rem_euclid, _ => std::process::exit(2) }; check_rem(&s("backend"), f, fb("x"), fb("m"), r) }
        #[cfg(not(feature = "cfg_none"))]
        "prng" => prng_case(u64::from_str_radix(s("s").trim_start_matches("0x"), 16).unwrap_or(1), r),
        #[cfg(not(feature = "cfg_none"))]
        "xform" => xform_case(case.get("i").unwrap().as_u64().unwrap(), r),
        "tri-den" => { let v: Vec<i32> = case.get("t").unwrap().as_arr().unwrap().iter().map(|x| x.as_i64().unwrap() as i32).collect(); let g = |k: &str| case.get(k).unwrap().as_i64().unwrap() as i32; tri_cover_den([(v[0], v[1]), (v[2], v[3]), (v[4], v[5])], g("den"), (g("ox"), g("oy")), r) }
        "color" => { let a = case.get("c").unwrap().as_arr().unwrap(); color_case([parse_fbits(&a[0]).unwrap(), parse_fbits(&a[1]).unwrap(), parse_fbits(&a[2]).unwrap()], r) }
        "tri" => { let v: Vec<i32> = case.get("t").unwrap().as_arr().unwrap().iter().map(|x| x.as_i64().unwrap() as i32).collect(); tri_cover([(v[0], v[1]), (v[2], v[3]), (v[4], v[5])], r) }
        "tex" => { let g = |k: &str| case.get(k).unwrap().as_u64().unwrap() as u32; let tex = Texture::from(Buf2::new_with((g("w"), g("h")), |x, y| (x, y))); tex_case(&tex, fb("u"), fb("v"), r) }
        #[cfg(not(feature = "cfg_none"))]
        "wrapdeg" => { let mut rr = Report::new(); wrapdeg_consumers(&mut rr); for (k, v) in rr.viols { r.violation(k, v.what, v.case); } }
        #[cfg(not(feature = "cfg_none"))]
        "wrap" | "norm" | "clamp" => { let mut rr = Report::new(); fp_consumers(&mut rr); for (k, v) in rr.viols { r.violation(k, v.what, v.case); } }
        #[cfg(feature = "cfg_libm")]
        "atan2" if s("backend") == "libm" => check_atan2("libm", float::libm::atan2, fb("y"), fb("x"), Bound::Ulps(4), r, &me),
        #[cfg(feature = "cfg_mm")]
        "atan2" if s("backend") == "mm" => check_atan2("mm", float::mm::atan2, fb("y"), fb("x"), Bound::Abs(5.0e-3), r, &me),
        #[cfg(feature = "cfg_libm")]
        "powf" if s("backend") == "libm" => check_powf("libm", float::libm::powf, fb("x"), fb("y"), Bound::Ulps(4), r, &me),
        #[cfg(feature = "cfg_mm")]
        "powf" if s("backend") == "mm" => check_powf("mm", float::mm::powf, fb("x"), fb("y"), Bound::Abs(0.25), r, &me),
        k => { eprintln!("MACHINERY-ERROR replay kind {k} not available in configuration {CFG_NAME}"); std::process::exit(2) }
    }
}

fn main() {
    report::install_panic_hook();
    let cfg = Cfg::from_args(|s| if s.starts_with("color") { "C16".into() } else if s.starts_with("tex") { "C12".into() } else if s.starts_with("prng") { "C19".into() } else if s.starts_with("xform") { "C09".into() } else if s.starts_with("cover") { "C04".into() } else if s.starts_with("angle") { "C18".into() } else { "C20".into() });
    if cfg.replay.is_some() { replay_main(&cfg, replay_case); }
    if cfg.part.starts_with("color") { run_color(&cfg); }
    if cfg.part.starts_with("tex") { run_tex(&cfg); }
    #[cfg(not(feature = "cfg_none"))]
    if cfg.part.starts_with("prng") { run_prng(&cfg); }
    if cfg.part.starts_with("cover") { run_cover(&cfg); }
    #[cfg(not(feature = "cfg_none"))]
    if cfg.part.starts_with("angle") { run_angle(&cfg); }
    #[cfg(not(feature = "cfg_none"))]
    if cfg.part.starts_with("xform") { run_xform(&cfg); }
    let mut rep = Report::new();
    rep.set("configuration", CFG_NAME);
    // module sweeps: each backend module is swept in the configuration that selects it
    #[cfg(feature = "cfg_none")]
    sweep1(&cfg, "fallback", &fallback_fns(), &mut rep);
    #[cfg(feature = "cfg_libm")]
    sweep1(&cfg, "libm", &libm_fns(), &mut rep);
    #[cfg(feature = "cfg_mm")]
    sweep1(&cfg, "mm", &mm_fns(), &mut rep);
    #[cfg(feature = "cfg_std")]
    {
        // the std configuration is the reference: its alias must be the primitive type
        let x: float::f32 = 1.5f32;
        rep.eval();
        if float::f32::floor(x) != 1.0 { rep.violation("std-alias|".into(), "float::f32 is not the primitive type".into(), J::Null); }
        sweep1(&cfg, "fallback", &fallback_fns()[..1], &mut rep); // fallback module is public in every configuration
    }
    two_arg(&cfg, &mut rep);
    // consumers through the configuration's alias
    let n = 9u64; // half-pixel lattice 0..=4 px
    let pts: Vec<(i32, i32)> = (0..n * n).map(|i| ((i % n) as i32, (i / n) as i32)).collect();
    let np = pts.len() as u64;
    rep.merge(par_range(&cfg, np * np * np, |i, r| tri_cover([pts[(i % np) as usize], pts[(i / np % np) as usize], pts[(i / np / np) as usize]], r)));
    let mut r = Report::new();
    tex_repeat(&mut r);
    #[cfg(not(feature = "cfg_none"))]
    fp_consumers(&mut r);
    #[cfg(feature = "cfg_none")]
    norm_consumers(&mut r);
    rep.merge(r);
    rep.sample(0, || obj! {"configuration" => CFG_NAME, "one_arg_pattern" => "0xc0000000 (-2.0)", "rem_euclid" => "(-6.6, 2.2)", "triangle_half_px" => vec![0, 0, 8, 0, 4, 2]});
    let rule = format!("configuration {CFG_NAME}: one-argument functions of the selected backend module over {} f32 bit patterns restricted to each function's stated domain, against f64 std references with per-(backend,function) bounds; rem_euclid/atan2/powf on two-argument lattices; consumers (tri_fill coverage on the half-pixel lattice vs exact edge functions, SamplerRepeatPot/SamplerClamp addressing, Angle::wrap, normalize) through the configuration's float alias. non-trivial = result differs from the input / negative operand / interior pixels exist.", if cfg.quick() { "2^22 boundary-dense" } else { "all 2^32" });
    rep.finish(&cfg, "exploration", &rule, &["reference = Rust std/f64 on this platform", "error bounds per backend/function are constants in fpcfg/src/main.rs (calibrated maxima are echoed as max_err:*)", "micromath powf bound 0.25 abs on [0,1] is a recorded library limitation"]);
}
