fn main(){}
