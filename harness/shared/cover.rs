//! Exact pixel-coverage oracle for screen-space triangles (no dependency on the code under test).
//! Coordinates are given as integers in units of 1/`scale` px (scale even, so pixel centres are integers too).

#[derive(Clone, Copy, Debug, PartialEq, Eq)]
pub enum Cover { Inside, Outside, Band }

/// Edge function of (a,b) at p, all in scaled integer units.
#[inline]
pub fn edge(a: (i128, i128), b: (i128, i128), p: (i128, i128)) -> i128 {
    (b.0 - a.0) * (p.1 - a.1) - (b.1 - a.1) * (p.0 - a.0)
}

/// Classify pixel (i, j) (centre at (i+1/2, j+1/2) px) against triangle `t` (scaled integer coordinates).
/// `band_px`: centres closer than this to an edge *line segment's supporting line* while not strictly
/// decided are exempt; with exact arithmetic only |E| / (scale * |edge|) < band_px matters.
pub fn classify(t: [(i128, i128); 3], scale: i128, i: i128, j: i128, band_px: f64) -> Cover {
    let p = (i * scale + scale / 2, j * scale + scale / 2);
    let area = edge(t[0], t[1], t[2]);
    if area == 0 {
        // degenerate: no interior; centres (nearly) on the segment itself are on an edge => band
        let (x0, x1) = (t.iter().map(|v| v.0).min().unwrap(), t.iter().map(|v| v.0).max().unwrap());
        let (y0, y1) = (t.iter().map(|v| v.1).min().unwrap(), t.iter().map(|v| v.1).max().unwrap());
        let slack = (band_px * scale as f64).ceil() as i128;
        if p.0 < x0 - slack || p.0 > x1 + slack || p.1 < y0 - slack || p.1 > y1 + slack { return Cover::Outside; }
        for k in 0..3 {
            let (a, b) = (t[k], t[(k + 1) % 3]);
            let len = (((b.0 - a.0).pow(2) + (b.1 - a.1).pow(2)) as f64).sqrt();
            if len == 0.0 { if p == a { return Cover::Band; } continue; }
            if (edge(a, b, p) as f64 / (len * scale as f64)).abs() < band_px { return Cover::Band; }
        }
        return Cover::Outside;
    }
    let s = area.signum();
    let mut inside = true;
    let mut near = false;
    for k in 0..3 {
        let (a, b) = (t[k], t[(k + 1) % 3]);
        let e = edge(a, b, p) * s;
        let len = (((b.0 - a.0).pow(2) + (b.1 - a.1).pow(2)) as f64).sqrt();
        // distance in px from the edge's supporting line
        let d = e as f64 / (len * scale as f64);
        if d.abs() < band_px { near = true; }
        if e <= 0 { inside = false; }
    }
    if near {
        // only exempt if the centre is within the band of an edge *and* not clearly outside another edge
        let mut clearly_out = false;
        for k in 0..3 {
            let (a, b) = (t[k], t[(k + 1) % 3]);
            let e = edge(a, b, p) * s;
            let len = (((b.0 - a.0).pow(2) + (b.1 - a.1).pow(2)) as f64).sqrt();
            if (e as f64) / (len * scale as f64) <= -band_px { clearly_out = true; }
        }
        if clearly_out { Cover::Outside } else { Cover::Band }
    } else if inside { Cover::Inside } else { Cover::Outside }
}
